#!/usr/bin/env python3
"""mutate.py <file-in-repo> <check-id>[,<check-id>...] [-n N] [-seed S] [-jobs J] [-only k,k,...]

Single-token mutants of one source file of /repo, each in a scratch worktree (never in /repo itself):
a mutant that still builds and still passes the repository's own tests is handed to the given checks
(quick tier, VERIF_REPO = the worktree); the report says which mutants the checks caught and which survived.
Development aid - not part of any registered check."""
import os, re, sys, random, subprocess, tempfile, shutil, json
from concurrent.futures import ThreadPoolExecutor

REPO = "/repo"
ENV = dict(os.environ, GOFLAGS="-mod=mod", GOPROXY="off", GOSUMDB="off", GOTOOLCHAIN="local")

SWAPS = [(" == ", " != "), (" != ", " == "), (" < ", " <= "), (" <= ", " < "), (" > ", " >= "), (" >= ", " > "),
         (" && ", " || "), (" || ", " && "), ("true", "false"), ("false", "true"), (" + 1", " + 0"), (" - 1", " - 0")]


def candidates(path):
    out = []
    lines = open(path).read().split("\n")
    in_block_comment = False
    for i, l in enumerate(lines):
        s = l.strip()
        if s.startswith("/*"):
            in_block_comment = True
        if in_block_comment:
            if "*/" in s:
                in_block_comment = False
            continue
        if not s or s.startswith("//") or "vhook." in s or s.startswith("log.") or "log." in s.split("//")[0][:12]:
            continue
        code = l.split("//")[0]
        if '"' in code and ("Errorf" in code or "Infof" in code or "Warnf" in code or "Debugf" in code):
            continue
        for a, b in SWAPS:
            for m in re.finditer(re.escape(a), code):
                # not inside a string literal (rough: even number of quotes before)
                if code[:m.start()].count('"') % 2:
                    continue
                out.append((i, m.start(), a, b))
        if re.match(r"^\s*(continue|break)\s*$", code):
            out.append((i, 0, "<stmt>", "<deleted>"))
        if re.match(r"^\s*defer\s+\w[\w.]*\(\)\s*$", code) and "Unlock" not in code:
            out.append((i, 0, "<stmt>", "<deleted>"))
        if re.match(r"^\s*if !", code):
            out.append((i, code.index("!"), "!", ""))
    return lines, out


def run(cmd, cwd, timeout):
    try:
        p = subprocess.run(cmd, cwd=cwd, env=ENV, stdout=subprocess.PIPE, stderr=subprocess.STDOUT, timeout=timeout)
        return p.returncode, p.stdout.decode("utf-8", "replace")
    except subprocess.TimeoutExpired:
        return 124, "timeout"


def one(args):
    rel, checks, lines, (i, col, a, b), k = args
    wt = tempfile.mkdtemp(prefix="mut.")
    os.rmdir(wt)
    res = {"k": k, "line": i + 1, "from": a, "to": b, "text": lines[i].strip()[:110]}
    try:
        subprocess.run(["git", "-C", REPO, "worktree", "add", "-q", "--detach", wt, "HEAD"], check=True)
        new = list(lines)
        if a == "<stmt>":
            new[i] = ""
        else:
            new[i] = new[i][:col] + b + new[i][col + len(a):]
        open(os.path.join(wt, rel), "w").write("\n".join(new))
        rc, out = run(["go", "build", "./..."], wt, 300)
        if rc != 0:
            res["outcome"] = "does-not-build"
            return res
        rc, out = run(["go", "vet", "./" + os.path.dirname(rel)], wt, 300)
        rc, out = run(["go", "test", "-count=1", "./pkg/..."], wt, 900)
        if rc != 0:
            res["outcome"] = "killed-by-the-repository's-tests"
            return res
        res["outcome"] = "survived"
        for c in checks:
            e = dict(os.environ, VERIF_REPO=wt)
            p = subprocess.run(["./check", c, "quick"], cwd="/verif", env=e, stdout=subprocess.PIPE, stderr=subprocess.STDOUT,
                               timeout=3000)
            o = p.stdout.decode("utf-8", "replace")
            if p.returncode == 1:
                sig = re.findall(r"signature: (\S+)", o)
                res["outcome"] = "caught"
                res["by"] = c + ":" + ",".join(sorted(set(sig))[:4])
                break
            if p.returncode == 2:
                res["outcome"] = "tool-failure"
                res["by"] = c + ": " + o[-300:]
                break
        return res
    except Exception as e:
        res["outcome"] = "error: %s" % e
        return res
    finally:
        subprocess.run(["git", "-C", REPO, "worktree", "remove", "--force", wt], stdout=subprocess.DEVNULL, stderr=subprocess.DEVNULL)
        shutil.rmtree(wt, ignore_errors=True)


def main():
    a = sys.argv[1:]
    rel, checks = a[0], a[1].split(",")
    n, seed, jobs, only = 20, 1, 3, None
    for i, x in enumerate(a):
        if x == "-n":
            n = int(a[i + 1])
        if x == "-seed":
            seed = int(a[i + 1])
        if x == "-jobs":
            jobs = int(a[i + 1])
        if x == "-only":  # re-run these mutant numbers (of the same -n and -seed) only
            only = set(int(k) for k in a[i + 1].split(","))
    lines, cands = candidates(os.path.join(REPO, rel))
    random.Random(seed).shuffle(cands)
    cands = cands[:n]
    print("%s: %d mutants" % (rel, len(cands)), flush=True)
    tally = {}
    with ThreadPoolExecutor(max_workers=jobs) as ex:
        for r in ex.map(one, [(rel, checks, lines, c, k) for k, c in enumerate(cands) if only is None or k in only]):
            tally[r["outcome"].split(":")[0]] = tally.get(r["outcome"].split(":")[0], 0) + 1
            print(json.dumps(r), flush=True)
    print("TALLY", rel, json.dumps(tally), flush=True)


if __name__ == "__main__":
    main()
