#!/bin/sh
# run_all.sh <tier> [ids...] : run every registered check on /repo as it is and summarise
tier="${1:-quick}"; shift
cd "$(dirname "$0")/.."
ids="$@"
[ -n "$ids" ] || ids=$(python3 -c "import json; print(' '.join(c['property_id'] for c in json.load(open('MANIFEST.json'))['checks']))")
for id in $ids; do
  t0=$(date +%s)
  ./check $id $tier > /tmp/run_all.$id.log 2>&1; rc=$?
  t1=$(date +%s)
  echo "$id exit=$rc $((t1-t0))s $(grep -c '^VIOLATION' /tmp/run_all.$id.log) violations; $(tail -1 /tmp/run_all.$id.log | cut -c1-150)"
done
