#!/bin/sh
# try_seed_wt.sh <patch.diff> <tier> <check id>... : like try_seed.sh, but on a scratch worktree of /repo's HEAD
# (VERIF_REPO), so that /repo stays untouched while another run is using it. The worktree is removed afterwards.
patch=$(readlink -f "$1"); tier="$2"; shift 2
wt=$(mktemp -d /tmp/seedtry.XXXXXX); rmdir "$wt"
git -C /repo worktree add -q --detach "$wt" HEAD || exit 2
trap 'git -C /repo worktree remove --force "$wt"; echo "[try_seed_wt] worktree removed"' EXIT
git -C "$wt" apply "$patch" || { echo "patch does not apply"; exit 2; }
cd /verif
tag=$(basename "$wt")
for id in "$@"; do
  VERIF_REPO="$wt" ./check "$id" "$tier" > /tmp/try_seed.$tag.$id.log 2>&1
  rc=$?
  echo "== $id exit=$rc"; grep -e '^VIOLATION' -e '^KNOWN' -e '^  signature' -e 'TOOL-FAILURE' /tmp/try_seed.$tag.$id.log | head -8; tail -1 /tmp/try_seed.$tag.$id.log
done
