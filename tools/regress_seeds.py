#!/usr/bin/env python3
"""regress_seeds.py [-jobs J] [name-prefix ...] : run every kept seeded change (seeded/<name>/patch.diff) against the
quick tier of its property's check, each in a scratch worktree of /repo's HEAD (tools/try_seed_wt.sh, VERIF_REPO), and
report which are still detected. Development aid - not part of any registered check."""
import os, sys, json, subprocess, time
from concurrent.futures import ThreadPoolExecutor

HERE = os.path.dirname(os.path.dirname(os.path.abspath(__file__)))


def one(name):
    d = os.path.join(HERE, "seeded", name)
    meta = json.load(open(os.path.join(d, "meta.json")))
    prop = meta.get("check", meta["property"])   # "check": the registered check that catches it, where that is not the property's own
    t0 = time.time()
    try:
        p = subprocess.run([os.path.join(HERE, "tools", "try_seed_wt.sh"), os.path.join(d, "patch.diff"), "quick", prop],
                           stdout=subprocess.PIPE, stderr=subprocess.STDOUT, timeout=3600)
        out = p.stdout.decode("utf-8", "replace")
    except subprocess.TimeoutExpired:
        out = "== %s exit=timeout" % prop
    rc = "?"
    sigs = []
    for l in out.splitlines():
        if l.startswith("== "):
            rc = l.split("exit=")[1].strip()
        if l.strip().startswith("signature:"):
            sigs.append(l.split()[1])
    return name, prop, rc, sorted(set(sigs))[:3], int(time.time() - t0)


def main():
    a = sys.argv[1:]
    jobs = 3
    if "-jobs" in a:
        i = a.index("-jobs")
        jobs = int(a[i + 1])
        del a[i:i + 2]
    names = sorted(n for n in os.listdir(os.path.join(HERE, "seeded"))
                   if os.path.exists(os.path.join(HERE, "seeded", n, "meta.json")) and os.path.exists(os.path.join(HERE, "seeded", n, "patch.diff")))
    if a:
        names = [n for n in names if any(n.startswith(x) for x in a)]
    tally = {}
    with ThreadPoolExecutor(max_workers=jobs) as ex:
        for name, prop, rc, sigs, secs in ex.map(one, names):
            tally[rc] = tally.get(rc, 0) + 1
            print("%-10s %s exit=%s %4ds %s" % (name, prop, rc, secs, ",".join(sigs)), flush=True)
    print("TALLY", json.dumps(tally), flush=True)


if __name__ == "__main__":
    main()
