#!/bin/sh
# try_seed.sh <patch.diff> <tier> <check id>... : apply a seeded change to /repo, run checks, undo.
patch="$1"; tier="$2"; shift 2
cd /repo || exit 2
if ! git diff --quiet; then echo "repo has uncommitted changes"; exit 2; fi
git apply "$patch" || { echo "patch does not apply"; exit 2; }
trap 'git -C /repo checkout -- . ; echo "[try_seed] /repo restored"' EXIT
cd /verif
for id in "$@"; do
  ./check "$id" "$tier" > /tmp/try_seed.$id.log 2>&1
  rc=$?
  echo "== $id exit=$rc"; grep -e '^VIOLATION' -e '^KNOWN' -e '^  signature' -e 'TOOL-FAILURE' /tmp/try_seed.$id.log | head -8; tail -1 /tmp/try_seed.$id.log
done
