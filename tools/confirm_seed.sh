#!/bin/sh
# confirm_seed.sh <worktree> <name> <property> <testdir> <run-regex>
# Confirms in the scratch worktree that a seeded change compiles, passes the existing suite,
# and that its demonstration fails with the change and passes without; then stores it under /verif/seeded/<name>.
wt="$1"; name="$2"; prop="$3"; tdir="$4"; rx="$5"
export GOFLAGS=-mod=mod GOPROXY=off GOSUMDB=off GOTOOLCHAIN=local
cd "$wt" || exit 2
demo=$(ls $tdir/seeded_demo*_test.go 2>/dev/null | head -1)
[ -n "$demo" ] || { echo "no demo test in $tdir"; exit 2; }
git checkout -q -- . ; git apply SEED/patch.diff || { echo "patch does not apply"; exit 2; }
mv "$demo" /tmp/demo_aside.$name.go
go build ./... || { echo "BUILD FAILS"; exit 1; }
go test -count=1 ./pkg/... > /tmp/confirm_suite.$name.log 2>&1; suite=$?
# a demo inside a plugin module (own go.mod): that module's build and tests belong to the suite, tests run from there
runtest() { if [ -f "$tdir/go.mod" ]; then (cd "$tdir" && go test -count=1 . "$@"); else go test -count=1 ./$tdir/ "$@"; fi; }
if [ -f "$tdir/go.mod" ]; then
  (cd "$tdir" && go build ./... && go test -count=1 ./...) >> /tmp/confirm_suite.$name.log 2>&1 || suite=1
fi
mv /tmp/demo_aside.$name.go "$demo"
runtest $rx > /tmp/confirm_with.$name.log 2>&1; with=$?
# (no git stash here: the stash is shared by all worktrees of /repo, sub-agents may be using it)
git apply -R SEED/patch.diff
runtest $rx > /tmp/confirm_without.$name.log 2>&1; without=$?
git apply SEED/patch.diff
echo "suite_with_change=$suite demo_with_change=$with demo_without_change=$without"
if [ $suite -eq 0 ] && [ $with -ne 0 ] && [ $without -eq 0 ]; then
  d=/verif/seeded/$name; mkdir -p $d
  cp SEED/patch.diff $d/patch.diff; cp "$demo" $d/$(basename $demo); [ -f SEED/notes.md ] && cp SEED/notes.md $d/notes.md
  echo "CONFIRMED -> $d"
else
  echo "NOT CONFIRMED"; for f in /tmp/confirm_suite.$name.log /tmp/confirm_with.$name.log /tmp/confirm_without.$name.log; do echo "-- $f"; tail -5 $f; done
fi
