#!/bin/sh
# confirm_variants.sh <worktree> <prop> <testdir> <variants...> : confirm patch_X.diff / demo_X_test.go pairs
wt="$1"; prop="$2"; tdir="$3"; shift 3
for v in "$@"; do
  cd "$wt" && git checkout -q -- . && rm -f $tdir/seeded_demo*_test.go
  cp SEED/patch_$v.diff SEED/patch.diff
  cp SEED/demo_${v}_test.go $tdir/seeded_demo_${v}_test.go
  # an optional helper shared by the demos (SEED_HELPER = file name inside SEED/)
  [ -n "$SEED_HELPER" ] && cp SEED/$SEED_HELPER $tdir/seeded_demo_zz_helper_test.go
  /verif/tools/confirm_seed.sh "$wt" ${prop}-s${SEED_ROUND:-1}$v $prop $tdir "${SEED_TEST_ARGS:--run TestSeeded}" 2>&1 | tail -2
  [ -n "$SEED_HELPER" ] && [ -d /verif/seeded/${prop}-s${SEED_ROUND:-1}$v ] && cp SEED/$SEED_HELPER /verif/seeded/${prop}-s${SEED_ROUND:-1}$v/

done
cd "$wt" && git checkout -q -- . && rm -f $tdir/seeded_demo*_test.go
