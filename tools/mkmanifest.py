#!/usr/bin/env python3
"""Regenerates MANIFEST.json from the table below (one place to edit)."""
import json, os
HERE = os.path.dirname(os.path.dirname(os.path.abspath(__file__)))
props = [json.loads(l)["id"] for l in open(os.path.join(HERE, "properties.jsonl"))]

ADJ_NOTE = ("Trusted base: TLC; the abstraction/concretisation layer harness/abs (an independent reading of the wire "
            "conventions); the scenario domain excludes a plugin writing the same item twice in one response. "
            "Exhaustive only inside the stated small scopes; beyond them seeded sampling with the specification as oracle.")

CHECKS = {
 "C01": dict(engine="adjust", tech="TLA+ spec (Adjust) model-checked by TLC; TLC-enumerated + random scenarios replayed end-to-end on the real Adaptation/stubs; recorded traces validated by TLC (Trace_Adjust)",
   text="The ownership ledger of Adjust.tla is model-checked (NoSilentJoin, LedgerSound) for every scenario of each family alphabet; every enumerated scenario (all item kinds, every scalar field, adjust and update paths, all request kinds, sequential and 8 concurrent callers) is executed on the real code and the recorded trace must be a behaviour of the specification: a conflict the specification derives must be reported by the real request (label C01-unflagged). Every other batch registers two neighbouring plugins with the same index and name (two instances of one program): they are different plugins to the ledger; the seeded generator lets plugins ask for values the item already has.",
   ref="5/C01"),
 "C02": dict(engine="adjust", tech="TLA+ spec (Adjust) model-checked by TLC; scenario replay on the real code; TLC trace validation",
   text="Converse direction of the same ledger predicate (NoFalseConflict model-checked): whenever the specification computes no conflict from the writes present in the responses, the real request must succeed (label C02-false-conflict); includes pre-populated originals/requests, pure removals followed by sets, remove-then-set.",
   ref="5/C02"),
 "C03": dict(engine="adjust", tech="TLA+ spec (Adjust + Container.OciApply) model-checked by TLC; scenario replay incl. the project's generator; TLC trace validation",
   text="CombinedEquiv is model-checked (NriApply(orig, comb) = view and OciApply(orig, comb) = fold of OciApply over the responses); on the real code the combined adjustment returned by CreateContainer and each plugin's adjustment in turn are applied with the repository's generator and both results must equal the specification's OciFold (labels C03-combined, C03-sequential; the swap limit that accompanies a memory limit may be the limit or untouched, but the same in both), list their mounts in the same order (C03-mount-order) and carry the device cgroup allow rule of every device the final container got from a plugin (C03-device-rules).",
   ref="5/C03"),
 "C04": dict(engine="adjust", tech="TLA+ spec (Adjust views) model-checked by TLC; scenario replay; TLC trace validation of what each real plugin handler received",
   text="At every Apply event the container (create) / resources (update) the real plugin handler received after the real wire path must equal the specification's view, and NriApply(original, returned combined adjustment) must equal the final view (labels C04-view, C04-resources, C04-combined).",
   ref="5/C04"),
 "C05": dict(engine="adjust", tech="TLA+ spec (Adjust updates) model-checked by TLC; scenario replay; TLC trace validation of returned update lists",
   text="The update lists returned by Create/Update/StopContainer are compared with the specification's collected updates: one entry per target, exact field maps, own entry last (placeholder iff unchanged), self-update fails, ignore-failure conflicts are dropped entirely (labels C05-updates, C05-selfupdate).",
   ref="5/C05"),
 "C09": dict(engine="sync", tech="TLA+ spec (SyncChunk) model-checked by TLC incl. a negative control (policy before the repair); the count discipline proved inductive for unbounded counts with Apalache (SyncChunkInd); TLC-enumerated size profiles replayed as real registrations in child processes; chunk traces validated by TLC (Trace_Sync)",
   text="SyncChunk.tla is model-checked for every profile of 0-3 pods x 0-11 (14) containers x sizes against the limit (InBounds, Progress, ExactDelivery, CleanFailure, JustifiedFailure, BoundedSends, termination); the transcription of the pre-repair policy must violate it (vacuity guard). Every profile (real multi-megabyte objects against ttRPC's 4 MiB limit, plus thousands of small objects) is one real plugin registration in a child process; the hook-recorded chunk sequence and the plugin's handler call must satisfy the chunk protocol: counts within what remains, correct more flags, progress, exactly one handler call with exactly the supplied state in order and intact, updates returned to the runtime's callback, failure only at the minimum chunk size and without activation, no crash, no hang.",
   ref="5/C09", note="Trusted base: TLC; hooks syncmsg.send/result; a child process per scenario makes a panic of the runtime side observable."),
 "C10": dict(engine="mux", tech="TLA+ spec (Mux, MuxTable) model-checked by TLC over all interleavings incl. negative controls; the frame-splitting loop proved for every payload length with Apalache (MuxSplitInd); TLC-generated connection-table operation sequences (Gen_MuxTable) replayed; executions of the real multiplexer recorded through hook points under the write lock and in the reader, validated by TLC (Trace_Mux)",
   text="Mux.tla is model-checked (WellFormed, PrefixInv, Isolated, Complete, ChunksContiguous; without the write lock TLC must find a violation). Recorded runs of the real mux over a socket pair - concurrent writers on both ends, self-describing messages incl. empty payloads and the frame-size boundaries up to 3*max+5, queue lengths 1/2/16/256 - must be behaviours of the specification: every frame the reader parses is the next frame that entered the trunk under the write lock (no interleaving inside a message), every Read returns the head of its own connection's queue intact, and at quiescence everything written has been read, in order, per connection. A third of the stream scenarios use ends that were never blocked, with Unblock() called on them all the same.",
   ref="5/C10", note="Trusted base: TLC; the before/after logging discipline (R2); the harness' frame descriptors. Assumes connection ids opened on both ends before traffic, reader buffers of at least one frame, frames in flight within the queue length."),
 "C11": dict(engine="mux", tech="TLA+ spec (Mux faults: Cut, CloseA, CloseB, overflow; MuxTable: handles, re-opened ids, repeated Close) model-checked by TLC incl. liveness AfterClose/WritersEnd; TLC-enumerated fault placements (Gen_Mux) replayed on the real mux with a byte-cutting trunk; traces validated by TLC",
   text="Design: PrefixInv under every fault and the liveness properties AfterClose / WritersEnd are model-checked. Gen_Mux enumerates the trunk cut after byte k in either direction (every k in thorough, every 3rd in quick), a close of either end after j frames by 1, 2 or 8 concurrent closers, and overflow at every position for queue lengths 1 and 2; each is realised on the real mux in a child process (a panic is observed as such). The validated trace must show: received data always the in-order prefix (queue head) of what was sent; an overflow only when the queue really was full; no Read/Write/Close/Accept hanging (3 s watchdog); writes after the failure fail; reads return queued frames and then an error (EOF after an orderly close); second Accept returns EOF after the listener is closed. MuxTable sequences add: Close of a multiplexer whose reader was never unblocked returns (C11-close-hangs); every other scenario runs over a transport whose Close reports an error; every scenario closes 200 fresh wrapped listeners by eight goroutines released at the same instant. The wrapped listener is exercised with two blocked accepters, an Accept after the close and listeners closed before anybody accepted; fresh ids are opened by six goroutines at once and every handle handed out is read after the close; Open() after the close must be refused or yield a connection that fails at once (D15, fixed).",
   ref="5/C11", note="As C10. After an error, reads may still return frames that were already queued (conn.Read selects between the closed channel and the queue); the property's prefix clause is what is asserted."),
 "C14": dict(engine="convert", tech="TLA+ spec (Convert: field tables, Copy contract, optional constructors, event-name table) enumerated by TLC; exported pkg/api functions executed on every enumerated input; outputs validated by TLC (Trace_Convert)",
   text="Convert.tla states which fields both representations carry, what Copy preserves, nil/value behaviour of each optional constructor and the bit<->name table of the event mask (TableOK checked by TLC). TLC enumerates inputs: every scalar resource field alone with boundary values incl. zero vs unset, all/none, lists, (thorough) every subset of the 17 common fields, Copy followed by mutation of each mutable part on either side (no shared state), mounts, devices, hooks in all six stages, env entries, every constructor x argument kind x boundary value, and all 8192 event masks (print, parse, IsSet) exhaustively in both tiers; the real functions' outputs must equal the specification's.",
   ref="5/C14", note="Trusted base: TLC; harness/abs projections; env entries without '=' and Copy of the v1-emulation Devices list are outside the property."),
 "C15": dict(engine="dispatch", tech="TLA+ spec (StubDispatch: subscription rule, dispatch table) checked and enumerated by TLC; generated plugin types (one per handler subset) on a real stub against a scripted runtime end; traces validated by TLC (Trace_Dispatch)",
   text="The subscription rule (NeverUnhandled, ExactWhenSilent) is checked by TLC over every generated handler subset and Configure answer. For each subset (260 in quick: singletons, pairs, complements, none, all, random; all 8192 in thorough) a Go type implementing exactly those handler interfaces is generated, started on a real stub and driven by a scripted mux+ttRPC runtime end that configures it (mask 0 / implemented set / subset / superset / unimplemented event / foreign bit / error) and then sends all thirteen messages, subscribed or not; the validated trace must show the subscription the specification computes (or the rejection), exactly one invocation of exactly the right handler per message with the pod, container and resources of the message, and the handler's adjustment, updates or error back unchanged.",
   ref="5/C15", note="Trusted base: TLC; the generated mixin types (harness/stubdrv/dispatch.go) and the scripted runtime end (harness/rawpeer)."),
 "C16": dict(engine="stublife", tech="TLA+ spec (StubLife) model-checked by TLC incl. liveness and the pre-repair transcription as negative control; TLC-generated operation sequences (Gen_Stub) replayed on a real stub against a scripted runtime end; traces validated by TLC (Trace_Stub)",
   text="StubLife.tla is model-checked for 3 sessions x 6 runtime behaviours (FreshConn, Usable, OnceNotify, LateNotifyHarmless, EventuallyNotified, StartReturns); the transcription of the code before the repairs must violate it. Gen_Stub generates every sequence of up to 4 (5) operations Start(behaviour)/Stop/Wait/connection loss/release of a held-back close notification; each runs on one real stub over pipes from stub.WithDialer against a scripted mux+ttRPC runtime end, plus cuts after byte k of the handshake in both directions; the validated trace must show every operation returning within the watchdog, Start succeeding exactly when the runtime end is healthy, a fresh dial after every failure, the probe 'current session works' agreeing with the specification, and one close notification per established session.",
   ref="5/C16", note="Trusted base: TLC; the scripted runtime end (harness/rawpeer); notifications gated at hook stub.connclosed; 2 s watchdog per operation."),
 "C13": dict(engine="oci", tech="TLA+ spec (Container.OciApply) with theorems SetWins/Removes/Frame checked by TLC; TLC-enumerated + random (spec, adjustment) pairs replayed on the real generator x R repetitions; TLC trace validation (Trace_Oci)",
   text="OciApply is the specification of Generator.Adjust; TLC checks on every enumerated pair that a set wins over a removal in any list order, that removals take effect and that nothing unnamed changes; every pair is applied 16 (quick) / 64 (thorough) times by the real generator on fresh copies and each result must equal OciApply, the rest of the spec must be unchanged, mounts must come parents-first and all repetitions must be identical (labels C13-result, C13-frame, C13-mount-order, C13-determinism).",
   ref="5/C13", note="Trusted base: TLC; harness/abs OCI projection; device cgroup allow rules added with devices are not compared; rshared/rslave mount options (host mountinfo) are outside the domain."),
 "C06": dict(engine="relay", tech="TLA+ spec (Relay) model-checked by TLC over all interleavings (MC_Relay); executions of the real Adaptation recorded through verif hook points and validated by TLC (Trace_Relay)",
   text="MC_Relay explores every interleaving of concurrent callers, the accept loop, a failing plugin, handler errors and an unsolicited update (invariants Sorted, OncePerRequest, CommonOrder, Delivered, VisitedOK; liveness AllDone/RegsEnd). Recorded concurrent runs of the real code (random indices incl. duplicates, random and - thorough - all 8192 masks, all 13 request kinds, plugins joining and leaving) must be behaviours of Relay: each delivery must be the next subscribed live plugin of the order fixed at lock time, for the request holding the lock; every caller's result must carry exactly its own request's tags.",
   ref="5/C06", note="Trusted base: TLC; log order = append order under one recorder mutex with the before/after logging discipline (DESIGN R2); races are sampled (seeded perturbation at hook points), interleaving exhaustiveness comes from the TLC model."),
 "C07": dict(engine="relay", tech="TLA+ spec (Relay: PluginClosed at any moment, Veto) model-checked by TLC; TLC-enumerated fault placements (Gen_Fault) replayed with a byte-cutting raw plugin peer; recorded runs validated by TLC (Trace_Relay)",
   text="MC_Relay explores a plugin failing at every moment relative to every other step and handler errors (Delivered, VisitedOK, liveness AllDone = no deadlock). Gen_Fault enumerates plugin position x request kind x fault (close before/during/after, cut after k bytes of request or response, hang past the timeout, context-blocked hang, garbage on the wire, handler error); each is realised on the real Adaptation with a raw mux+ttRPC plugin peer whose connection is cut at exact byte offsets; the validated trace must show: request returns (watchdog 20xT), latency <= n x T + 2 s, survivors' contributions intact, dropped plugin never reached again, handler error fails the request with that error and no later plugin invoked.",
   ref="5/C07", note="Trusted base as C06; a plugin dropped exactly while answering may or may not have contributed / vetoed (both accepted); a cut is a close of the plugin's end of the socket."),
 "C08": dict(engine="relay", tech="TLA+ spec (Relay sync lock) model-checked by TLC incl. a negative control; Apalache inductive invariant (SyncOnceInd: exactly-once for any number of held sync blocks); recorded executions with racing registrations and creations validated by TLC",
   text="ExactlyOnce and HeldBlocksSync are model-checked over all interleavings (and a mutated model without sync blocks must violate ExactlyOnce - vacuity guard); SyncOnceInd proves them inductive with Apalache for one plugin, one container and an unbounded number of other held blocks. In recorded runs of the real code every sync.exclusive must find no sync block held, every block.acquired no registration in progress, every store.add / activation must satisfy snapshot XOR creation-relayed for each live active subscribed plugin, and registrations must complete once blocks are released. Every other recorded run the runtime holds a sync block from before Start() until a few ms into the run.",
   ref="5/C08", note="Assumes the runtime performs creation and bookkeeping inside one sync block (the harness' runtime does). Same trusted base as C06."),
 "C17": dict(engine="relay", tech="TLA+ spec (Relay registration; WellFormed decided from raw strings in Trace_Relay) model-checked by TLC; TLC-enumerated registration classes (Gen_Reg) replayed with raw plugin peers; recorded runs validated by TLC",
   text="MC_Relay with malformed registrations in the accept queue (OnlyWellFormed, liveness RegsEnd: bad plugins never stop later ones). Gen_Reg enumerates name x index-string x mask x stall classes (empty/one/three digits, letters, sign, space, non-ASCII digits; foreign, high and sign bits; never registers / never answers Configure) alone and as up to 2 (3 thorough) bad plugins ahead of a good one; each is realised with raw mux+ttRPC peers; the trace specification decides well-formedness itself from the logged raw strings and rejects any Synchronize/event reaching a malformed peer, a well-formed peer not activated within the budget, a socket served when disabled, or a created socket directory with group/other permission bits (umask 000/022/077/007). Stall class lateregister: a plugin registering after the registration timeout but within a (longer) request timeout is not activated.",
   ref="5/C17", note="Trusted base as C06; timeouts shortened to 200 ms; slack 2 s."),
 "C19": dict(engine="relay", tech="TLA+ spec (Relay adaptation lock) model-checked by TLC; recorded executions with concurrent unsolicited updates validated by TLC",
   text="CallbackExclusive is model-checked; in recorded runs the update callback must run only while the adaptation lock is held by that update (never overlapping a request, an activation or another update), exactly once per call with the payload sent, and the plugin must get back exactly the callback's failed list or error - also for a request that carries no update at all (once per run, nil or empty list). A stub that was never started must answer ErrNoService at once (checked by the driver's preamble event). Recording updates-slow: the runtime's callback outlasts the request timeout for some updates (an update has no deadline: the result still reaches the plugin unchanged) and some of those plugins stop themselves meanwhile (the callback still finishes under the lock).",
   ref="5/C19", note="Same trusted base as C06."),
 "C18": dict(engine="launch", tech="TLA+ spec (Launch: launchability, environment, configuration precedence, invocation order, reaping) enumerated by TLC; a probe plugin on the real stub launched by a real Adaptation from materialised plugin directories; reports validated by TLC (Trace_Launch)",
   text="Launch.tla defines which directory entries are launched, with which environment, socket and configuration, in which order they are invoked and that nothing launched outlives Stop; TLC enumerates directory contents (two and three probe plugins in every combination of healthy / exits at once / never registers / dies later, among non-executables and subdirectories, equal indices, empty directory) and every combination of drop-in files for two plugins. Each is materialised with copies of a probe plugin built on the real stub; the probe's report of its environment, /proc/self/fd, configuration, the order of invocations and the process table after Stop must equal the specification's expectation. Further behaviours: fails its synchronization, registers under another identity, never answers an event (dropped - and must be killed), cannot be started at all (not a program, link to a directory), execute bits of owner / group / other only, stale NRI_* variables in the runtime's environment, the runtime's own synchronization callback failing.",
   ref="5/C18", note="Trusted base: TLC; the probe plugin (harness/cmd/probe). A zombie counts as not alive; anonymous inodes and pipes of the child's own Go runtime are ignored in the descriptor check; badly named executables, symlinks and special files are not generated."),
 "C20": dict(engine="inject", tech="TLA+ spec (Inject: annotation scoping and precedence, rlimit normalisation, all-or-nothing) checked and enumerated by TLC; the built sample plugin binaries run as pre-installed plugins of a real Adaptation; results validated by TLC (Trace_Inject)",
   text="Inject.tla defines which annotation is selected for a container (injector: container, then pod, then bare key; adjuster: container only) and the resulting adjustment; TLC checks NeverForeign and AllOrNothing on every generated scenario and emits them: per key every subset of {own container, a container whose name is a prefix/extension, pod, bare}, malformed payloads, unknown rlimit types and hard<soft at selected and non-selected scopes, all keys at once in every scope combination, names c1/c1x/a.b. The two plugins are built from /repo/plugins, launched as pre-installed plugins and exercised through Adaptation.CreateContainer; the returned adjustment or failure must equal the specification's.",
   ref="5/C20", note="Trusted base: TLC; the payload table (YAML texts in harness/injdrv, meanings in Inject.tla); harness/abs projection."),
}
NA = {
 "C12": "byte-level encode/decode fidelity of two generated protobuf codecs has no state or transition content a TLA+ specification could add to; see DESIGN.md section 7",
}

checks = []
for p in props:
    if p in CHECKS:
        c = CHECKS[p]
        checks.append({
            "property_id": p,
            "quick_cmd": "./check %s quick" % p,
            "thorough_cmd": "./check %s thorough" % p,
            "evidence_file": "/verif/evidence/%s.json" % p,
            "replay_cmd_template": "./check %s --replay {path}" % p,
            "engine": c["engine"],
            "level_claimed": {"category": "model_checking", "text": c["text"], "design_ref": c["ref"]},
            "level_note": c.get("note", ADJ_NOTE),
            "technique": c["tech"],
        })
na = []
for p in props:
    if p not in CHECKS:
        na.append({"property_id": p, "reason": NA.get(p, "not claimed")})

hooks_commits = []
hp = os.path.join(HERE, "hooks_commits.txt")
if os.path.exists(hp):
    hooks_commits = [l.split()[0] for l in open(hp) if l.strip() and not l.startswith("#")]

m = {
 "version": 1,
 "setup_cmd": "./setup.sh",
 "hooks": {
   "guard": "verif",
   "enable": "go build -tags verif (the harness in /verif/harness is built with -tags verif against /repo via a replace directive)",
   "baseline_off_cmd": "cd /repo && export GOFLAGS=-mod=mod GOPROXY=off GOSUMDB=off GOTOOLCHAIN=local && go test -vet=off -count=1 ./... && (cd plugins/device-injector && go test -vet=off -count=1 ./...) && (cd plugins/ulimit-adjuster && go test -vet=off -count=1 ./...)",
   "source_commits": hooks_commits,
   "add_only": True,
 },
 "engines": [
   {"name": "mux", "path": "/verif/lib/mux.py", "serves_properties": ["C10", "C11"],
    "kind_free_text": "TLC model checking (tla/Mux, tla/MuxTable), Apalache inductive invariant of the frame-splitting loop (tla/MuxSplitInd), fault placements (tla/Gen_Mux), connection-table operation sequences (tla/Gen_MuxTable), recording driver with child isolation (harness/muxdrv, hooks in mux.go), TLC trace validation (tla/Trace_Mux, tla/Trace_MuxTable)"},
   {"name": "builder", "path": "/verif/lib/builder.py", "serves_properties": [],
    "kind_free_text": "extension X01 (not a listed property; ./check X01): the adjustment/update builder API as a state machine (tla/Builder), call sequences replayed on real values (harness/builddrv), TLC trace validation (tla/Trace_Builder); evidence in evidence/ext/"},
   {"name": "stubsetup", "path": "/verif/lib/stubsetup.py", "serves_properties": [],
    "kind_free_text": "extension X03 (not a listed property; ./check X03): identity and connection source of a stub (tla/StubSetup), child processes with the scenario's environment / options / argv[0] (harness/setupdrv), TLC trace validation (tla/Trace_StubSetup)"},
   {"name": "apihelpers", "path": "/verif/lib/apihelpers.py", "serves_properties": [],
    "kind_free_text": "extension X04 (not a listed property; ./check X04): exported helpers of pkg/api - ParseEventMask shorthands, ParsePluginName / CheckPluginIndex, EventMask Set / Clear / IsSet / PrettyString and its re-parse, removal markers, Mount.Cmp / LinuxDevice.Cmp, Hooks.Append (tla/ApiHelpers, harness/helpdrv, tla/Trace_ApiHelpers); two findings under property=X04"},
   {"name": "legacy", "path": "/verif/lib/legacy.py", "serves_properties": [],
    "kind_free_text": "extension X05 (not a listed property; ./check X05): the v0.1.0 plugin chain - nri.Client.InvokeWithSandbox, skel.Run, types/v1 - as a state machine (tla/Legacy, tla/Gen_Legacy), chains of plugin processes run by a real client (harness/legacydrv, guarded constructor client_verif.go), TLC trace validation (tla/Trace_Legacy); one finding under property=X05 (skel.Run without an argument)"},
   {"name": "adaptlife", "path": "/verif/lib/adaptlife.py", "serves_properties": [],
    "kind_free_text": "extension X02 (not a listed property; ./check X02): Adaptation Start/Stop/restart against registrations in flight (tla/AdaptLife, tla/Gen_AdaptLife), schedules stepped through a real Adaptation (harness/alifedrv), TLC trace validation (tla/Trace_AdaptLife); findings under property=X02 in known_findings.txt"},
   {"name": "convert", "path": "/verif/lib/convert.py", "serves_properties": ["C14"],
    "kind_free_text": "TLC (tla/Convert) + pkg/api functions executed by harness/convdrv + TLC validation (tla/Trace_Convert)"},
   {"name": "launch", "path": "/verif/lib/launch.py", "serves_properties": ["C18"],
    "kind_free_text": "TLC (tla/Launch) + probe plugin built per run and launched by a real Adaptation (harness/launchdrv, harness/cmd/probe) + TLC validation (tla/Trace_Launch)"},
   {"name": "inject", "path": "/verif/lib/inject.py", "serves_properties": ["C20"],
    "kind_free_text": "TLC (tla/Inject) + sample plugin binaries built per run and launched by a real Adaptation (harness/injdrv) + TLC validation (tla/Trace_Inject)"},
   {"name": "dispatch", "path": "/verif/lib/dispatch.py", "serves_properties": ["C15"],
    "kind_free_text": "TLC (tla/StubDispatch) + generated plugin types built per run + scripted runtime end + TLC trace validation (tla/Trace_Dispatch)"},
   {"name": "stublife", "path": "/verif/lib/stublife.py", "serves_properties": ["C16"],
    "kind_free_text": "TLC (tla/StubLife, tla/Gen_Stub) + stub driver against a scripted runtime end (harness/stubdrv, harness/rawpeer) + TLC trace validation (tla/Trace_Stub)"},
   {"name": "sync", "path": "/verif/lib/sync.py", "serves_properties": ["C09"],
    "kind_free_text": "TLC (tla/SyncChunk) + Apalache inductive invariant over unbounded counts (tla/SyncChunkInd) + real registrations in child processes (harness/syncdrv) + TLC trace validation (tla/Trace_Sync)"},
   {"name": "oci", "path": "/verif/lib/oci.py", "serves_properties": ["C13"],
    "kind_free_text": "TLC (tla/Gen_Oci) + replay on pkg/runtime-tools/generate (harness/ocidrv) + TLC trace validation (tla/Trace_Oci)"},
   {"name": "relay", "path": "/verif/lib/relay.py", "serves_properties": ["C06", "C07", "C08", "C17", "C19"],
    "kind_free_text": "TLC model checking (tla/MC_Relay over tla/Relay), Apalache inductive invariant for exactly-once under any number of held sync blocks (tla/SyncOnceInd, C08), recording driver (harness/relaydrv, hooks pkg/vhook), TLC trace validation (tla/Trace_Relay)"},
   {"name": "adjust", "path": "/verif/lib/adjust.py", "serves_properties": ["C01", "C02", "C03", "C04", "C05"],
    "kind_free_text": "TLC model checking + scenario emission (tla/Gen_Adjust), replay on the real code (harness/adjdrv), TLC trace validation (tla/Trace_Adjust)"},
 ],
 "checks": checks,
 "notes": "Every check: TLC model-checks the specification module, scenarios are replayed on code built from /repo's working tree with -tags verif, recorded traces are validated by TLC; verdicts come only from trace validation. Exit 2 = tool failure (never a violation). Known findings: /verif/known_findings.txt.",
 "not_applicable": na,
}
json.dump(m, open(os.path.join(HERE, "MANIFEST.json"), "w"), indent=1)
print("checks:", len(checks), "not_applicable:", len(na))
