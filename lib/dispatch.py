"""C15: StubDispatch.tla (subscription rule + scenario generation), generated plugin types (one per handler
subset) on a real stub against a scripted runtime end, Trace_Dispatch.tla."""
import json, os, random, subprocess, shutil
import pipeline, vlib

EVENTS = ["RunPodSandbox", "StopPodSandbox", "RemovePodSandbox", "CreateContainer", "PostCreateContainer",
          "StartContainer", "PostStartContainer", "UpdateContainer", "PostUpdateContainer", "StopContainer",
          "RemoveContainer", "UpdatePodSandbox", "PostUpdatePodSandbox"]
MIXIN = {"RunPodSandbox": "MRunPod", "StopPodSandbox": "MStopPod", "RemovePodSandbox": "MRemovePod",
         "CreateContainer": "MCreate", "PostCreateContainer": "MPostCreate", "StartContainer": "MStart",
         "PostStartContainer": "MPostStart", "UpdateContainer": "MUpdate", "PostUpdateContainer": "MPostUpdate",
         "StopContainer": "MStop", "RemoveContainer": "MRemove", "UpdatePodSandbox": "MUpdatePod",
         "PostUpdatePodSandbox": "MPostUpdatePod"}

WRAP = '''---- MODULE %(name)s ----
EXTENDS StubDispatch
vMasks == %(masks)s
====
'''


def quick_masks(sd):
    rnd = random.Random(sd)
    full = (1 << 13) - 1
    ms = {0, full}
    for i in range(13):
        ms.add(1 << i)
        ms.add(full ^ (1 << i))
        for j in range(i + 1, 13):
            ms.add((1 << i) | (1 << j))
    while len(ms) < 260:
        ms.add(rnd.randrange(1, full))
    return sorted(ms)


def tla_set(m):
    return "{" + ", ".join('"%s"' % EVENTS[i] for i in range(13) if m & (1 << i)) + "}"


class Dispatch(pipeline.Module):
    name = "Dispatch"
    gen_module = None
    invariants = "NeverUnhandled ExactWhenSilent"
    assumptions = [
        "plugin types are generated Go structs embedding one mixin per handler interface (two types per handler subset: "
        "with and without Configure); the runtime end is scripted (harness/rawpeer) and sends all thirteen messages, "
        "subscribed or not",
    ]

    def gen_configs(self, prop, tier, sd):
        th = tier == "thorough"
        if th:
            masks = "SUBSET EventSet"
            self.masks = list(range(0, 1 << 13))
        else:
            self.masks = quick_masks(sd)
            masks = "{" + ", ".join(tla_set(m) for m in self.masks) + "}"
        name = "SD_" + tier
        self.wrapper = (name, WRAP % dict(name=name, masks=masks))
        return [dict(name="dispatch", module=name, consts="  Masks <- vMasks\n  Thorough = %s" % ("TRUE" if th else "FALSE"),
                     workers=4, wrapper=self.wrapper)]

    def replay(self, exe, prop, tier, sd, scen, trace, sc):
        # generate one plugin type per needed (handler subset, with/without Configure) and build the dispatcher
        need = set()
        for line in open(scen):
            if line.strip():
                s = json.loads(line)
                need.add((s["impl"], bool(s["hascfg"])))
        d = sc.sub("dispprog")
        src = ["// generated: one plugin type per handler subset", "package main", "",
               'import (', '\t"fmt"', '\t"os"', '\t"verif/harness/stubdrv"', ')', ""]
        reg = []
        for impl, hascfg in sorted(need):
            tn = "P%d%s" % (impl, "C" if hascfg else "N")
            fields = [MIXIN[EVENTS[i]] for i in range(13) if impl & (1 << i)]
            if hascfg:
                fields = ["MConfigure"] + fields
            src.append("type %s struct {" % tn)
            for f in fields:
                src.append("\tstubdrv.%s" % f)
            src.append("}")
            init = ", ".join("stubdrv.%s{R: r}" % f for f in fields)
            reg.append('\t"%d/%s": func(r *stubdrv.Rec) interface{} { return &%s{%s} },' % (
                impl, "true" if hascfg else "false", tn, init))
        src += ["", "var factories = map[string]stubdrv.Factory{"] + reg + ["}", "",
                "func main() {",
                '\tif err := stubdrv.RunDispatch(factories, os.Args[1], os.Args[2]); err != nil {',
                '\t\tfmt.Fprintln(os.Stderr, "dispatch driver:", err)', '\t\tos.Exit(2)', '\t}', '}', ""]
        with open(os.path.join(d, "main.go"), "w") as f:
            f.write("\n".join(src))
        gomod = open(os.path.join(vlib.HARNESS, "go.mod")).read()
        gomod = gomod.replace("module verif/harness", "module verif/dispprog")
        gomod = gomod.replace("require (", "require (\n\tverif/harness v0.0.0", 1)
        gomod += "\nreplace verif/harness => %s\n" % vlib.HARNESS
        with open(os.path.join(d, "go.mod"), "w") as f:
            f.write(gomod)
        shutil.copy(os.path.join(vlib.REPO, "go.sum"), os.path.join(d, "go.sum"))
        prog = os.path.join(d, "dispprog")
        p = subprocess.run(["go", "build", "-tags", "verif", "-o", prog, "."], cwd=d, env=vlib.GOENV,
                           stdout=subprocess.PIPE, stderr=subprocess.STDOUT)
        if p.returncode != 0:
            raise vlib.ToolFailure("building the generated plugin types failed:\n" + p.stdout.decode()[-3000:])
        vlib.run_driver(prog, [scen, trace], timeout=3400)

    def nontrivial(self, s):
        return '"impl":0,' not in s

    def rule(self):
        return ("scenario = (handler subset, Configure behaviour, failing handler); quick: the 13 singletons, all pairs, "
                "the complements, none, all and random subsets (260 subsets); thorough: all 8192 subsets; each with no "
                "Configure, Configure returning 0 / the implemented set / a proper subset / a superset / an unimplemented "
                "event / a foreign bit / an error, and with handlers failing; every scenario sends all 13 messages")


def run(prop, tier, replay=None):
    return pipeline.run(Dispatch(), prop, tier, replay)
