"""C14: Convert.tla (field tables, name table, scenario enumeration), convdrv, Trace_Convert.tla."""
import json, random
import pipeline, vlib


class Convert(pipeline.Module):
    name = "Convert"
    gen_module = "Convert"
    driver = "convert"
    begin_marker = '"ev":"Conv"'
    invariants = "TableOK"
    assumptions = [
        "the abstract projection (harness/abs) distinguishes unset from zero for every optional scalar",
        "environment entries without '=' and LinuxResources.Devices in Copy are outside the property",
    ]

    def gen_configs(self, prop, tier, sd):
        th = tier == "thorough"
        c = lambda m, lo=0, hi=0: (m, '  Mode = "%s"\n  MaskLo = %d\n  MaskHi = %d' % (m, lo, hi))
        cfgs = [c("res"), c("copy"), c("misc")]
        if th:
            cfgs.append(c("subset"))
        # all 8192 masks, exhaustively, in both tiers
        for lo in range(0, 8192, 2048):
            cfgs.append(("mask-%d" % lo, '  Mode = "mask"\n  MaskLo = %d\n  MaskHi = %d' % (lo, lo + 2047)))
        return cfgs

    def random_args(self, prop, tier, sd, out):
        # random presence subsets with boundary values rotated through the fields
        rnd = random.Random(sd)
        i64 = ["0", "1", "-1", "9223372036854775807", "-9223372036854775808", "77"]
        u64 = ["0", "1", "18446744073709551615", "55"]
        fields = {"mem.limit": i64, "mem.reservation": i64, "mem.swap": i64, "mem.kernel": i64, "mem.kerneltcp": i64,
                  "cpu.quota": i64, "cpu.rtruntime": i64, "mem.swappiness": u64, "cpu.shares": u64, "cpu.period": u64,
                  "cpu.rtperiod": u64, "mem.disableoom": ["true", "false"], "mem.usehierarchy": ["true", "false"],
                  "cpu.cpus": ["0-3", "1"], "cpu.mems": ["0", "0-1"], "pids": ["0", "5", "-1"],
                  "blockio": ["", "c1"], "rdt": ["", "c2"]}
        lines = []
        n = 3000 if tier == "thorough" else 300
        for i in range(n):
            res = {f: rnd.choice(v) for f, v in fields.items() if rnd.random() < rnd.choice([0.1, 0.5, 0.9])}
            hpl = [{"k": k, "v": str(rnd.choice([0, 1, 4096]))} for k in ("2MB", "1GB", "64KB") if rnd.random() < 0.4]
            uni = {k: rnd.choice(["max", "1"]) for k in ("memory.high", "io.max") if rnd.random() < 0.4}
            kind = rnd.choice(["res", "copy"])
            s = {"kind": kind, "res": {"res": res, "hp": {}, "uni": uni}, "hpl": hpl, "devc": []}
            if kind == "copy":
                s["mut"] = rnd.sample(["mem", "cpu", "hp", "uni", "pids", "class"], rnd.randint(1, 6))
                s["side"] = rnd.choice(["copy", "orig"])
            lines.append(json.dumps(s))
        with open(out, "w") as f:
            f.write("\n".join(lines) + "\n")
        return None

    def driver_args(self, prop, tier, sd, scen, trace):
        return ["convert", "-in", scen, "-out", trace]

    def label_sig(self, label, detail):
        return label

    def rule(self):
        return ("scenario = one call family on an abstract input: resources (every scalar field alone with boundary values "
                "incl. zero vs unset, all set, all zero, hugepage/unified/device-cgroup lists; thorough: every subset of "
                "the 17 common fields), Copy followed by mutation of each part on either side, mounts, devices, hooks in "
                "each of the six stages, environment entries, each optional constructor x argument kind x boundary value, "
                "and all 8192 event masks (print, parse, IsSet)")


def run(prop, tier, replay=None):
    return pipeline.run(Convert(), prop, tier, replay)
