"""C06, C07, C08, C19: Relay.tla, MC_Relay.tla, Gen_Fault.tla, Trace_Relay.tla."""
import os
import recorded, vlib

WRAP = '''---- MODULE %(name)s ----
EXTENDS MC_Relay
vRegOrder == %(regorder)s
vPIdx == %(pidx)s
vPMask == %(pmask)s
====
'''
CFG = '''SPECIFICATION MSpec
CONSTANTS
  Callers = %(callers)s
  RegOrder <- vRegOrder
  PIdx <- vPIdx
  PMask <- vPMask
  BadOnes = %(badones)s
  Failable = %(failable)s
  Vetoers = %(vetoers)s
  Updater = "%(updater)s"
  NReq = %(nreq)d
  UseBlocks = %(blocks)s
  FatalKinds = %(fatal)s
INVARIANTS OnlyHandlersVeto Sorted OncePerRequest CommonOrder ActiveNoDup ExactlyOnce HeldBlocksSync ActiveWasSynced Delivered VisitedOK CallbackExclusive OnlyWellFormed
%(props)s
CHECK_DEADLOCK FALSE
'''

BASE = dict(regorder='<<"pa", "pb", "pc">>', pidx='[pa |-> 10, pb |-> 10, pc |-> 5]',
            pmask='[pa |-> {"CreateContainer", "StartContainer"}, pb |-> {"CreateContainer"}, '
                  'pc |-> {"StartContainer", "CreateContainer"}]',
            callers='{"c1", "c2"}', badones='{}', failable='{"pb"}', vetoers='{"pa"}', updater="pc", nreq=1, blocks="TRUE",
            fatal='{"closed", "server-closed", "protocol", "deadline", "truncated"}',
            props="PROPERTIES AllDone RegsEnd")


def mc(name, workers=8, expect=None, **over):
    d = dict(BASE)
    d.update(over)
    d["name"] = name
    return dict(name=name, module="MC_Relay", wrapper=WRAP % d, wrapper_name=name, cfg=CFG % d, workers=workers,
                expect_violation=expect, timeout=3400)


class Relay(recorded.Module):
    name = "Relay"
    inv_labels = {"Sorted": "C06-inv-Sorted", "OncePerRequest": "C06-inv-OncePerRequest",
                  "CommonOrder": "C06-inv-CommonOrder", "ActiveNoDup": "C06-inv-ActiveNoDup",
                  "HeldBlocksSync": "C08-inv-HeldBlocksSync", "ExactlyOnce": "C08-inv-ExactlyOnce",
                  "ActiveWasSynced": "C08-inv-ActiveWasSynced"}
    def design_proofs(self, prop, tier, sc):
        if prop not in ("C08", "REL"):
            return None
        # exactly-once for one registering plugin and one container among any number of held sync blocks
        return vlib.apalache_suite(sc.sub("apalache"), "SyncOnceInd",
                                   [("Init => IndInv", "Init", "IndInv", 0),
                                    ("IndInv /\\ Next => IndInv' (IndInv contains HeldBlocksSync and ExactlyOnce)", "IndInit", "IndInv", 1)],
                                   ("/\\ pst = \"syncwait\" /\\ readers = 0 /\\ ~myblock /\\ ~swriter",
                                    "/\\ pst = \"syncwait\" /\\ readers = 0 /\\ ~swriter"))

    assumptions = [
        "log order = order of appends under the recorder mutex; events that make something visible are logged before, "
        "events that acquire/consume after the operation (DESIGN.md R2), so the log is a valid linearisation",
        "the runtime performs creation + its own bookkeeping inside one sync block and issues no request before Start returned",
        "races are made likely by seeded perturbation at hook points, not enumerated: interleaving exhaustiveness "
        "comes from the TLC model (MC_Relay), conformance from the validated recorded runs",
    ]

    def mc_configs(self, prop, tier, sd):
        cfgs = []
        if tier == "thorough":
            cfgs.append(mc("MCR_2c3p2r", workers=12, nreq=2))
            cfgs.append(mc("MCR_3c2p1r", workers=8, callers='{"c1", "c2", "c3"}', regorder='<<"pa", "pb">>',
                           pidx='[pa |-> 10, pb |-> 10]',
                           pmask='[pa |-> {"CreateContainer", "StartContainer"}, pb |-> {"CreateContainer"}]',
                           updater="pa"))
        else:
            cfgs.append(mc("MCR_2c3p1r", workers=8))
        if prop in ("C17", "REL"):
            # two malformed registrations ahead of and between good ones
            cfgs.append(mc("MCR_badregs", workers=8, regorder='<<"bad1", "pa", "bad2", "pb">>',
                           pidx='[pa |-> 10, pb |-> 5, bad1 |-> 1, bad2 |-> 2]',
                           pmask='[pa |-> {"CreateContainer", "StartContainer"}, pb |-> {"CreateContainer"}, '
                                 'bad1 |-> {"CreateContainer"}, bad2 |-> {"CreateContainer"}]',
                           badones='{"bad1", "bad2"}', updater="pa", failable='{}'))
        if prop in ("C07", "REL"):
            # the classification before repair D14: a frame cut short was not a reason to drop the plugin
            cfgs.append(mc("MCR_truncated_not_fatal", workers=4, expect="OnlyHandlersVeto", props="",
                           fatal='{"closed", "server-closed", "protocol", "deadline"}'))
        if prop in ("C08", "REL"):
            # vacuity guard: a runtime that forgets the sync blocks must break ExactlyOnce in the model
            cfgs.append(mc("MCR_noblocks", workers=4, expect="ExactlyOnce", blocks="FALSE", props=""))
        return cfgs

    def prepare(self, prop, tier, sd, sc):
        self.fault_file = None
        self.reg_file = None
        th = tier == "thorough"
        st = tr = 0
        if prop in ("C17", "REL"):
            cfg = "SPECIFICATION GSpec\nCONSTANTS\n  MaxBad = %d\nCHECK_DEADLOCK FALSE\n" % (3 if th else 2)
            rc, out = vlib.run_tlc(sc.sub("gen-reg"), "Gen_Reg", cfg, workers=2, timeout=600)
            if "No error has been found" not in out:
                raise vlib.ToolFailure("Gen_Reg failed:\n" + vlib.tlc_error_excerpt(out))
            cases = sorted(set(vlib.tlc_tagged(out, "CASE")))
            self.reg_file = sc.path("regs.ndjson")
            with open(self.reg_file, "w") as f:
                f.write("\n".join(cases) + "\n")
            g, d = vlib.tlc_counts(out)
            st, tr = st + d, tr + g
        if prop not in ("C07", "REL"):
            return st, tr
        offs = "{}" if th else "{0, 3, 8, 12, 18, 25, 40, 80}"
        cfg = "SPECIFICATION GSpec\nCONSTANTS\n  OffSet = %s\n  OffHi = 200\n  Slow = %s\nCHECK_DEADLOCK FALSE\n" % (
            offs, "TRUE" if th else "FALSE")
        rc, out = vlib.run_tlc(sc.sub("gen-fault"), "Gen_Fault", cfg, workers=2, timeout=600)
        if "No error has been found" not in out:
            raise vlib.ToolFailure("Gen_Fault failed:\n" + vlib.tlc_error_excerpt(out))
        cases = sorted(set(vlib.tlc_tagged(out, "CASE")))
        self.fault_file = sc.path("faults.ndjson")
        with open(self.fault_file, "w") as f:
            f.write("\n".join(cases) + "\n")
        self.fault_count = len(cases)
        gen, dist = vlib.tlc_counts(out)
        return st + dist, tr + gen

    def recordings(self, prop, tier, sd):
        th = tier == "thorough"
        recs = []
        if prop in ("C17", "REL"):
            recs.append(("regs", ["regs", "-in", self.reg_file, "-seed", sd]))
        if prop in ("C07", "REL"):
            recs.append(("faults", ["faults", "-in", self.fault_file, "-seed", sd]))
            recs.append(("drops", ["relay", "-seed", sd + 7, "-runs", 150 if th else 40, "-plugins", 5, "-callers", 3,
                                   "-requests", 12, "-vetoes", "-leave"]))
        if prop in ("C06", "REL"):
            recs.append(("mixed", ["relay", "-seed", sd, "-runs", 150 if th else 40, "-plugins", 5, "-callers", 3,
                                   "-requests", 14, "-vetoes", "-leave"]))
            if th:
                # every one of the 8192 masks (0 = everything) is given to some plugin
                recs.append(("allmasks-a", ["relay", "-seed", sd + 1, "-runs", 683, "-plugins", 6, "-callers", 2,
                                            "-requests", 14, "-allmasks", "-maskbase", 0]))
                recs.append(("allmasks-b", ["relay", "-seed", sd + 2, "-runs", 683, "-plugins", 6, "-callers", 2,
                                            "-requests", 14, "-allmasks", "-maskbase", 4098]))
            else:
                recs.append(("masks", ["relay", "-seed", sd + 1, "-runs", 30, "-plugins", 6, "-callers", 2,
                                       "-requests", 14, "-allmasks", "-maskbase", (sd * 180) % 8192]))
        if prop in ("C08", "REL"):
            recs.append(("sync", ["relay", "-seed", sd + 3, "-runs", 250 if th else 60, "-plugins", 6, "-callers", 4,
                                  "-requests", 12, "-leave"]))
            recs.append(("sync-few", ["relay", "-seed", sd + 4, "-runs", 250 if th else 60, "-plugins", 3,
                                      "-callers", 5, "-requests", 8]))
        if prop in ("C19", "REL"):
            recs.append(("updates", ["relay", "-seed", sd + 5, "-runs", 200 if th else 50, "-plugins", 4,
                                     "-callers", 3, "-requests", 10, "-updates", "-vetoes"]))
            recs.append(("updates-only", ["relay", "-seed", sd + 6, "-runs", 100 if th else 30, "-plugins", 6,
                                          "-callers", 1, "-requests", 4, "-updates"]))
            # callbacks that outlast the request timeout (an update has no deadline), plugins gone before theirs returns
            recs.append(("updates-slow", ["relay", "-seed", sd + 9, "-runs", 40 if th else 10, "-plugins", 4,
                                          "-callers", 1, "-requests", 3, "-updates", "-slowupd"]))
        return recs

    def label_sig(self, label, detail):
        return label

    # labels a missed deadline of a healthy party produces (the shortened request / registration timeouts of the
    # fault and registration sessions are 300 / 400 ms)
    # (C17-malformed-synchronized: a late registrant - stall class lateregister - that the runtime got round to only
    # after more than half a second would still be in time; a real acceptance of a malformed plugin recurs)
    TIMING = {"C07-healthy-plugin-dropped", "C07-latency", "C17-wellformed-not-activated",
              "C17-registration-latency", "C08-registration-stuck", "C17-malformed-synchronized"}

    def timing_sensitive(self, r):
        return r["label"] in self.TIMING and r["trace"] in ("faults", "regs") and r["scn"] >= 1

    def confirm_many(self, tname, keys, exe, sc):
        src = self.fault_file if tname == "faults" else self.reg_file
        lines = open(src).read().splitlines()
        scns = sorted(set(k[0] for k in keys if k[0] <= len(lines)))
        alive = set(k for k in keys if k[0] <= len(lines))
        for rnd in range(2):
            if not alive:
                break
            d = sc.sub("confirm-%s-%d" % (tname, rnd))
            one = os.path.join(d, "again.ndjson")
            with open(one, "w") as f:
                f.write("\n".join(lines[n - 1] for n in scns) + "\n")
            out = os.path.join(d, "trace.ndjson")
            vlib.run_driver(exe, [tname, "-in", one, "-seed", 1000 + rnd, "-out", out], timeout=1800)
            stats, bad, n = vlib.validate_trace(os.path.join(d, "tlc"), self.name, out, inv_labels=self.inv_labels)
            seen = set()
            for b in bad:
                if 1 <= b["scn"] <= len(scns):
                    for lab in b["labels"]:
                        seen.add((scns[b["scn"] - 1], lab))
            alive &= seen
        return alive | set(k for k in keys if k[0] > len(lines))

    def rule(self):
        return ("one recorded run = plugins with random indices (duplicates provoked) and masks registering and leaving "
                "at random times while runtime goroutines issue random requests of all 13 kinds (creations inside sync "
                "blocks with the runtime's bookkeeping) and plugins issue unsolicited updates; every log line is one "
                "Relay action; evaluations = recorded runs validated")


def run(prop, tier, replay=None):
    return recorded.run(Relay(), prop, tier, replay, dev=(prop == "REL"))
