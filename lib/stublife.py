"""C16: StubLife.tla (model checking incl. the pre-repair transcription as negative control),
Gen_Stub.tla (operation sequences), stub driver against a scripted runtime end, Trace_Stub.tla."""
import json, random
import pipeline, vlib

BEH = ('{"unreachable", "refuse", "drop-connect", "drop-register", "drop-after-register", "healthy", '
       '"slow-configure", "configure-rejected", "configure-badmask", "drop-in-configure"}')


class StubLife(pipeline.Module):
    name = "Stub"
    driver = "life"
    invariants = ""
    assumptions = [
        "the runtime end is scripted over net.Pipe connections handed out by stub.WithDialer; a drop is a close of that end",
        "close notifications are held back at the hook point stub.connclosed when the scenario asks for it; otherwise they flow freely",
        "operations are issued sequentially with a 3 s watchdog each (a hang is reported only by the watchdog)",
        "close notifications are required exactly once per established session; a failed attempt may or may not notify",
    ]

    def gen_configs(self, prop, tier, sd):
        th = tier == "thorough"
        mc = "  MaxSess = 3\n  Behaviours = %s\n  AsIs = %s"
        cfgs = [
            dict(name="MC-StubLife", module="StubLife", spec="SSpec", consts=mc % (BEH, "FALSE"),
                 invariants="FreshConn Usable OnceNotify OkMeansConfigured", props="LateNotifyHarmless EventuallyNotified StartReturns"),
            dict(name="NEG-StubLife-before-repair", module="StubLife", spec="SSpec", consts=mc % (BEH, "TRUE"),
                 invariants="FreshConn Usable OnceNotify", props="LateNotifyHarmless EventuallyNotified StartReturns", neg=True),
            dict(name="ops", consts='  MaxOps = %d\n  MaxStarts = %d\n  Behaviours = {"healthy", "refuse", "drop-after-register"}\n  Gates = {TRUE, FALSE}'
                 % (5 if th else 4, 3 if th else 2), workers=4),
            dict(name="ops-configure", consts='  MaxOps = %d\n  MaxStarts = 3\n  Behaviours = {"healthy", "slow-configure", "configure-rejected", "configure-badmask", "drop-in-configure"}\n  Gates = {FALSE}'
                 % (4 if th else 3), workers=4),
            dict(name="ops-behaviours", consts='  MaxOps = 3\n  MaxStarts = 2\n  Behaviours = %s\n  Gates = {FALSE}' % BEH),
        ]
        return cfgs

    def random_args(self, prop, tier, sd, out):
        # cuts at byte offsets of the handshake (both directions), followed by a healthy restart
        rnd = random.Random(sd)
        th = tier == "thorough"
        lines = []
        offs = range(0, 260) if th else sorted(set([0, 1, 7, 8, 9, 17, 18, 19, 30, 45, 60, 90, 130, 200] + [rnd.randrange(0, 220) for _ in range(10)]))
        for k in offs:
            for d in ("cut-read", "cut-write"):
                lines.append(json.dumps({"gate": False, "ops": [
                    {"op": "Start", "arg": d, "k": k}, {"op": "Stop", "arg": "", "k": 0},
                    {"op": "Start", "arg": "healthy", "k": 0}, {"op": "Works", "arg": "", "k": 0}]}))
        with open(out, "w") as f:
            f.write("\n".join(lines) + "\n")
        return None

    def driver_args(self, prop, tier, sd, scen, trace):
        return ["life", "-in", scen, "-out", trace]

    def rule(self):
        return ("scenario = sequence of up to 4 (5) operations Start(behaviour)/Stop/Wait/PeerDrop/ReleaseNotify on one "
                "stub, ending with the probe 'the current session works', with close notifications free or held back; "
                "behaviours: unreachable, registration refused, dropped at connect / at register / after register, healthy; "
                "plus a cut after byte k of the handshake in either direction for the listed k (every k < 260 in thorough)")


def run(prop, tier, replay=None):
    return pipeline.run(StubLife(), prop, tier, replay)
