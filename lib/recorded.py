"""Pipeline of the concurrent / fault modules:

  TLC model-checks the module's MC configurations (design level: all interleavings in a small scope)
  -> a Go driver records executions of the real code (hook points give the internal linearisation
     events and perturb the schedule; fault scenarios are placed by the driver)
  -> TLC validates every recorded run against the module's trace specification
  -> verdict from the validation only.
"""
import json, os, time, collections
import vlib
from vlib import log


class Module:
    name = ""                 # Trace_<name>.tla
    level = "model_checking"
    assumptions = []
    begin_marker = '"ev":"Begin"'
    inv_labels = {}           # INVARIANT of the trace configuration -> label

    def mc_configs(self, prop, tier, sd):
        """-> list of dict(name, module, wrapper (text of a wrapper module or None), cfg, workers, expect_violation=None)"""
        return []

    def prepare(self, prop, tier, sd, sc):
        """optional: generate scenario files with TLC before recording; -> (states, transitions)"""
        return 0, 0

    def recordings(self, prop, tier, sd):
        """-> list of (name, driver args without -out)"""
        return []

    def label_sig(self, label, detail):
        return label

    def design_proofs(self, prop, tier, sc):
        """optional unbounded design-level results (Apalache); -> dict for the evidence file"""
        return None

    def timing_sensitive(self, rejection):
        return False

    def confirm_many(self, tname, keys, exe, sc):
        """re-run timing-sensitive rejections [(scn, label)]; -> the set of those that recurred every time"""
        return set(keys)

    def replay_module(self, first_line):
        """which trace specification validates a replay file (None = the module's own)"""
        return None

    def rule(self):
        return ""


def _mc_one(args):
    scratch, c = args
    wd = os.path.join(scratch, "mc-" + c["name"])
    os.makedirs(wd, exist_ok=True)
    module = c["module"]
    if c.get("wrapper"):
        module = c["wrapper_name"]
        with open(os.path.join(wd, module + ".tla"), "w") as f:
            f.write(c["wrapper"])
    rc, out = vlib.run_tlc(wd, module, c["cfg"], workers=c.get("workers", 4), timeout=c.get("timeout", 3000),
                           java_opts=c.get("java_opts", "-Xmx8g -XX:ParallelGCThreads=4"))
    gen, dist = vlib.tlc_counts(out)
    exp = c.get("expect_violation")
    if exp:
        if exp not in out or "is violated" not in out and "violated" not in out:
            raise vlib.ToolFailure("vacuity guard: the mutated model %s was expected to violate %s but did not:\n%s"
                                   % (c["name"], exp, vlib.tlc_error_excerpt(out, 30)))
        return c["name"], gen, dist, True
    if "No error has been found" not in out:
        if vlib.tlc_violation(out):
            raise vlib.ToolFailure("design-level property violated in %s (%s): the specification itself is "
                                   "inconsistent\n%s" % (module, c["name"], vlib.tlc_error_excerpt(out, 80)))
        raise vlib.ToolFailure("%s (%s) failed:\n%s" % (module, c["name"], vlib.tlc_error_excerpt(out)))
    return c["name"], gen, dist, False


INVARIANT_PROPS = {}   # invariant name -> property id (filled by modules)


def run(mod, prop, tier, replay=None, dev=False):
    t0 = time.time()
    sd = vlib.seed()
    with vlib.Scratch() as sc:
        exe = vlib.build_driver(sc.dir)
        mc_states = mc_trans = 0
        mc_names = collections.OrderedDict()
        traces = []
        proofs = None
        if replay:
            first = open(replay).readline()
            traces.append(("replay", replay, mod.replay_module(first)))
        else:
            proofs = mod.design_proofs(prop, tier, sc)
            cfgs = mod.mc_configs(prop, tier, sd)
            log("[%s] TLC: %d model-checking configurations of %s" % (prop, len(cfgs), mod.name))
            nw = max(1, min(4, len(cfgs)))
            for name, gen, dist, neg in vlib.pmap(_mc_one, [(sc.dir, c) for c in cfgs], workers=nw):
                if not neg:
                    mc_states += dist
                    mc_trans += gen
                mc_names[name] = {"distinct_states": dist, "states_generated": gen, "negative_control": neg}
            ps, pt = mod.prepare(prop, tier, sd, sc)
            mc_states += ps
            mc_trans += pt
            recs = mod.recordings(prop, tier, sd)
            log("[%s] recording %d sessions of the real code" % (prop, len(recs)))

            def rec_one(r):
                name, args = r[0], r[1]
                out = sc.path("trace-%s.ndjson" % name)
                vlib.run_driver(exe, list(args) + ["-out", out], timeout=3000)
                return name, out, (r[2] if len(r) > 2 else None)   # optional: another trace specification
            traces = vlib.pmap(rec_one, recs, workers=4)
        bad_all = []
        tstats = collections.Counter()
        nlines = 0
        all_lines = {}
        for tname, tr, tmod in traces:
            tmod = tmod or mod.name
            lines = open(tr).read().splitlines()
            all_lines[tname] = lines
            shards = vlib.split_file(tr, 8, sc.sub("shards-" + tname), is_begin=lambda l: mod.begin_marker in l)
            offs = []
            pos = 0
            for sh in shards:
                offs.append(pos)
                pos += sum(1 for _ in open(sh))

            def val(sh):
                return vlib.validate_trace(sh + ".tlc", tmod, sh, java_opts="-Xmx3g -XX:ParallelGCThreads=2",
                                           inv_labels=mod.inv_labels)
            got = 0
            for (stats, bad, n), off in zip(vlib.pmap(val, shards, workers=6), offs):
                for k, v in stats.items():
                    tstats[k] += v
                got += n
                for b in bad:
                    b["trace"] = tname
                    b["gline"] = off + b["line"]
                    bad_all.append(b)
            if got != len(lines):
                raise vlib.ToolFailure("only %d of %d trace lines of %s were validated" % (got, len(lines), tr))
            nlines += got
        rejections = []
        other = collections.Counter()
        for b in bad_all:
            for lab in b["labels"]:
                if lab.startswith(prop + "-") or dev:
                    rejections.append({"sig": mod.label_sig(lab, b["detail"]), "label": lab, "scn": b["scn"],
                                       "trace": b["trace"], "detail": b["detail"], "gline": b["gline"]})
                else:
                    other[lab.split("-")[0]] += 1
        # rejections that an overloaded machine can produce on their own (a healthy party missing a deadline) are
        # kept only if the same scenario is rejected again, every time, when it is run on its own
        if not replay:
            cand = collections.OrderedDict()
            for r in rejections:
                if mod.timing_sensitive(r):
                    cand.setdefault(r["trace"], set()).add((r["scn"], r["label"]))
            dropped = set()
            for tname, keys in cand.items():
                confirmed = mod.confirm_many(tname, sorted(keys), exe, sc)
                for k in sorted(keys - confirmed):
                    dropped.add((tname,) + k)
                    log("[%s] note: %s in run %d of %s did not recur when the scenario was run again on its own "
                        "(timing); dropped" % (prop, k[1], k[0], tname))
            rejections = [r for r in rejections if (r["trace"], r["scn"], r["label"]) not in dropped]
        first = {}
        for r in rejections:
            first.setdefault(r["sig"], r)
        for sig, r in first.items():
            # the replay file is the recorded run itself (ndjson), re-validated by --replay
            lines = all_lines[r["trace"]]
            evs = [l for l in lines if json.loads(l).get("scn") == r["scn"]]
            base = None
            outl = []
            for l in evs:
                o = json.loads(l)
                outl.append(o)
            n = len(outl)
            for i, o in enumerate(outl):
                o["nb"] = n + 1
            fname = "".join(c if c.isalnum() or c in "-." else "_" for c in sig)[:80]
            r["replay"] = vlib.save_replay(prop, fname + ".ndjson", "\n".join(json.dumps(o, separators=(",", ":")) for o in outl) + "\n")
        for r in rejections:
            r["replay"] = first[r["sig"]]["replay"]
            r["text"] = "%s at line %d of run %d: %s" % (r["label"], r["gline"], r["scn"], json.dumps(r["detail"])[:300])
        if dev:
            for sig, n in collections.Counter(r["sig"] for r in rejections).most_common():
                log("  %6d  %s" % (n, sig))
        nviol = vlib.verdict(prop, rejections)
        if other:
            log("[%s] note: rejections carrying other properties' labels in this run: %s" % (prop, dict(other)))
        samples = []
        for tname, lines in list(all_lines.items())[:2]:
            samples.append({"session": tname, "first_events": [json.loads(l) for l in lines[:12]]})
        cov = {
            "states": max(mc_states, 1), "transitions": max(mc_trans, 1),
            "traces_validated_against_impl": int(tstats.get("scenarios", 0)),
            "samples": samples,
            "evaluations": int(tstats.get("scenarios", 0)), "distinct_nontrivial": int(tstats.get("scenarios", 0)),
            "rule": mod.rule(),
            "model_checking_configurations": mc_names,
            "unbounded_design_results": proofs,
            "trace_events_validated": nlines,
            "validation_outcomes": {k: int(v) for k, v in tstats.items() if k != "tlc_states"},
            "rejections_for_this_property": len(rejections),
            "rejection_signatures": sorted(set(r["sig"] for r in rejections)),
            "exhaustive": False,
        }
        vlib.write_evidence(prop, tier, mod.level, cov, time.time() - t0, nviol, mod.assumptions)
        log("[%s] %s: %d TLC states (design), %d recorded runs / %d events validated, %d rejections for %s, %d unlisted; %.0fs"
            % (prop, tier, mc_states, tstats.get("scenarios", 0), nlines, len(rejections), prop, nviol, time.time() - t0))
        return 1 if nviol else 0
