"""C18: Launch.tla (directory scan, configuration precedence, scenario enumeration), probe plugin launched by a real
Adaptation (harness/launchdrv, harness/cmd/probe), Trace_Launch.tla."""
import os, subprocess
import pipeline, vlib


class Launch(pipeline.Module):
    name = "Launch"
    gen_module = "Launch"
    driver = "launch"
    invariants = "ConfigPrecedence"
    assumptions = [
        "the probe plugin (harness/cmd/probe, built on the real stub) reports its environment, /proc/self/fd and configuration; "
        "its behaviour comes from a control file outside the plugin directory",
        "descriptor check: fd 3 must be a socket, any other regular file or socket above fd 2 is a leak; anonymous inodes and "
        "pipes created by the child's own Go runtime are ignored",
        "a zombie counts as not alive (a plugin that exits by itself before registering is not waited for until the runtime exits)",
        "directory entries are executables, non-executable regular files and subdirectories; badly named executables, symlinks "
        "and special files are outside the generated domain",
    ]

    def gen_configs(self, prop, tier, sd):
        return [(m, '  Mode = "%s"' % m) for m in ("dirs", "dropins", "more")]

    def replay(self, exe, prop, tier, sd, scen, trace, sc):
        probe = sc.path("probe")
        p = subprocess.run(["go", "build", "-tags", "verif", "-o", probe, "./cmd/probe"], cwd=vlib.HARNESS, env=vlib.GOENV,
                           stdout=subprocess.PIPE, stderr=subprocess.STDOUT)
        if p.returncode != 0:
            raise vlib.ToolFailure("building the probe plugin failed:\n" + p.stdout.decode()[-3000:])
        vlib.run_driver(exe, ["launch", "-in", scen, "-out", trace, "-probe", probe], timeout=3000)

    def rule(self):
        return ("scenario = plugin directory content (probe executables named NN-name with behaviour healthy / exits at once / "
                "never registers / dies later, in every combination for 2 and 3 plugins, among non-executable files and "
                "subdirectories; equal indices; empty directory) and drop-in files (index-name, name, both, neither, foreign) "
                "for each of two plugins")


def run(prop, tier, replay=None):
    return pipeline.run(Launch(), prop, tier, replay)
