"""C13: the OCI spec generator against OciApply (Gen_Oci -> replay on the real generator -> Trace_Oci)."""
import pipeline, vlib


class Oci(pipeline.Module):
    name = "Oci"
    driver = "oci"
    begin_marker = '"ev":"Oci"'
    invariants = "SetWins Removes Frame"
    assumptions = [
        "the OCI projection (harness/abs.FromOCISpec / Rest) covers the spec fields the property talks about; device "
        "cgroup allow-rules added for injected devices are intended side effects and not compared",
        "repetitions on fresh generators sample Go's per-range random map iteration orders (16 quick / 64 thorough)",
        "mount options rshared/rslave (which consult the host's mountinfo) and env entries without '=' are outside the domain",
    ]

    def gen_configs(self, prop, tier, sd):
        ml = 3
        out = [(m, '  Mode = "%s"\n  MaxLen = %d' % (m, ml)) for m in ("ann", "env", "mnt", "dev")]
        out += [(m, '  Mode = "%s"\n  MaxLen = 0' % m) for m in ("tree", "args", "scalar", "misc")]
        if tier == "thorough":
            out += [(m + "-len4", '  Mode = "%s"\n  MaxLen = 4' % m) for m in ("env", "mnt", "dev")]
        return out

    def random_args(self, prop, tier, sd, out):
        return ["oci-gen", "-n", 20000 if tier == "thorough" else 3000, "-seed", sd, "-out", out]

    def driver_args(self, prop, tier, sd, scen, trace):
        return ["oci", "-in", scen, "-out", trace, "-reps", 64 if tier == "thorough" else 16]

    def label_sig(self, label, detail):
        if label == "C13-result":
            return label + "/" + "+".join(sorted(detail[0]))
        return label

    def nontrivial(self, s):
        return '"k"' in s or '"res":{"' in s or '"ann":{"' in s or '"args":["' in s

    def rule(self):
        return ("scenario = (OCI spec, one adjustment); TLC enumerates per keyed family all sequences of distinct "
                "set/remove atoms over 2 keys up to length 3 (4 thorough) in every order x every presence of the keys "
                "in the spec, every mount order over a small directory tree, args forms, every scalar field with "
                "special values, hooks/rlimits/CDI/hugepages/unified; plus seeded random mixed pairs; every pair is "
                "applied R times on fresh generators; non-trivial = the adjustment names something")


def run(prop, tier, replay=None):
    return pipeline.run(Oci(), prop, tier, replay)
