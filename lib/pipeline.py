"""The common pipeline of the deterministic modules:

  TLC (Gen_<M>: model checking + scenario emission)  ->  scenarios (+ random ones)
  -> Go driver replays them on the real code and records an ndjson trace
  -> TLC (Trace_<M>) validates the trace; rejected scenarios carry labels "<PROP>-<what>"
  -> verdict from the validation only.
"""
import json, os, time, collections
import vlib
from vlib import log


class Module:
    """Description of one specification module's pipeline; subclasses fill in the hooks."""
    name = ""            # TLA module stem: Gen_<name>.tla, Trace_<name>.tla
    driver = ""          # driver subcommand replaying scenarios
    invariants = ""      # INVARIANTS of the Gen configuration
    gen_workers = 2
    level = "model_checking"
    begin_marker = '"ev":"Begin"'   # how a scenario's first trace line is recognised
    gen_module = None               # default: Gen_<name>
    gen_spec = "GSpec"
    gen_props = ""
    probe_first = True              # replay a sample first and stop there if it already shows violations
    timing_labels = ()              # labels that are re-checked by replaying their scenario alone before they are reported
    assumptions = []

    def gen_configs(self, prop, tier, sd):
        """-> list of (name, constants-text)"""
        return []

    def random_args(self, prop, tier, sd, out):
        """-> driver args producing random scenarios into `out`, or None"""
        return None

    def driver_args(self, prop, tier, sd, scen, trace):
        return [self.driver, "-in", scen, "-out", trace, "-seed", sd]

    def replay(self, exe, prop, tier, sd, scen, trace, sc):
        vlib.run_driver(exe, self.driver_args(prop, tier, sd, scen, trace))

    def extra_traces(self, prop, tier, sd, exe, sc, scenarios):
        """-> list of (name, trace file, index map or None) of additional recorded traces"""
        return []

    def design_proofs(self, prop, tier, sc):
        """optional unbounded design-level results (Apalache); -> dict for the evidence file"""
        return None

    def label_sig(self, label, detail):
        return label

    def nontrivial(self, scenario_line):
        return True

    def rule(self):
        return ""


def _gen_one(args):
    mod, scratch, c = args
    if not isinstance(c, dict):
        name, consts = c
        c = dict(name=name, consts=consts, neg=name.startswith("NEG:"))
    name = c["name"]
    module = c.get("module") or mod.gen_module or ("Gen_" + mod.name)
    inv = c.get("invariants", mod.invariants)
    props = c.get("props", mod.gen_props)
    wd = os.path.join(scratch, "gen-" + "".join(ch if ch.isalnum() or ch in "-." else "_" for ch in name))
    if c.get("wrapper"):
        os.makedirs(wd, exist_ok=True)
        with open(os.path.join(wd, c["wrapper"][0] + ".tla"), "w") as f:
            f.write(c["wrapper"][1])
    cfg = "SPECIFICATION %s\nCONSTANTS\n%s\n%s%sCHECK_DEADLOCK FALSE\n" % (
        c.get("spec", mod.gen_spec), c["consts"], ("INVARIANTS %s\n" % inv) if inv else "",
        ("PROPERTIES %s\n" % props) if props else "")
    rc, out = vlib.run_tlc(wd, module, cfg, workers=c.get("workers", mod.gen_workers), timeout=3000,
                           java_opts="-Xmx3g -XX:ParallelGCThreads=2")
    if c.get("neg"):
        if not vlib.tlc_violation(out):
            raise vlib.ToolFailure("vacuity guard: the mutated model %s was expected to violate a property" % name)
        return name, [], 0, 0
    if "No error has been found" not in out:
        if vlib.tlc_violation(out):
            raise vlib.ToolFailure("design-level property violated in %s (%s): the specification itself is "
                                   "inconsistent\n%s" % (module, name, vlib.tlc_error_excerpt(out, 60)))
        raise vlib.ToolFailure("%s (%s) failed:\n%s" % (module, name, vlib.tlc_error_excerpt(out)))
    cases = sorted(set(vlib.tlc_tagged(out, "CASE")))
    gen, dist = vlib.tlc_counts(out)
    return name, cases, gen, dist


def run(mod, prop, tier, replay=None, dev=False):
    t0 = time.time()
    sd = vlib.seed()
    with vlib.Scratch() as sc:
        exe = vlib.build_driver(sc.dir)
        scen_file = sc.path("scenarios.ndjson")
        mc_states = mc_trans = 0
        per_mode = collections.OrderedDict()
        proofs = None
        if replay:
            with open(scen_file, "w") as f:
                f.write(json.dumps(json.load(open(replay))["scenario"]) + "\n")
        else:
            proofs = mod.design_proofs(prop, tier, sc)
            cfgs = mod.gen_configs(prop, tier, sd)
            log("[%s] TLC: %d Gen_%s configurations (model checking + scenario emission)" % (prop, len(cfgs), mod.name))
            results = vlib.pmap(_gen_one, [(mod, sc.dir, c) for c in cfgs], workers=7)
            with open(scen_file, "w") as f:
                for name, cases, gen, dist in results:
                    mc_trans += gen
                    mc_states += dist
                    per_mode[name] = len(cases)
                    for c in cases:
                        f.write(c + "\n")
            rnd = sc.path("random.ndjson")
            ra = mod.random_args(prop, tier, sd, rnd)
            if ra:
                vlib.run_driver(exe, ra)
            if os.path.exists(rnd):
                txt = open(rnd).read()
                with open(scen_file, "a") as f:
                    f.write(txt)
                per_mode["random"] = txt.count("\n")
        scenarios = open(scen_file).read().splitlines()
        log("[%s] replaying %d scenarios on the real code" % (prop, len(scenarios)))
        # fail fast: a spread-out sample of the scenarios is replayed and validated first; if it already shows
        # unlisted rejections for this property the verdict is there and the full replay - which on a tree that makes
        # operations hang can take an hour of watchdog periods - is not run.  On a tree that passes, the sample is extra.
        probe_note = None
        if not replay and mod.probe_first and len(scenarios) > 400:
            step = max(2, len(scenarios) // 150)
            pidx = list(range(0, len(scenarios), step))
            pfile, ptrace = sc.path("probe-scenarios.ndjson"), sc.path("probe-trace.ndjson")
            with open(pfile, "w") as f:
                for i in pidx:
                    f.write(scenarios[i] + "\n")
            mod.replay(exe, prop, tier, sd, pfile, ptrace, sc)
            pstats, pbad, pn = vlib.validate_trace(sc.path("probe.tlc"), mod.name, ptrace, java_opts="-Xmx3g -XX:ParallelGCThreads=2")
            known = set(k["sig"] for k in vlib.load_known() if k["property"] == prop)
            hits = [b for b in pbad for lab in b["labels"]
                    if (lab.startswith(prop + "-") or dev) and mod.label_sig(lab, b["detail"]) not in known]
            if hits:
                probe_note = ("stopped after the probe sample: %d of %d sampled scenarios rejected; the other %d scenarios "
                              "were not replayed" % (len(set(b["scn"] for b in hits)), len(pidx), len(scenarios) - len(pidx)))
                log("[%s] %s" % (prop, probe_note))
                scenarios = [scenarios[i] for i in pidx]
                scen_file = pfile
            else:
                os.remove(ptrace)
        trace = sc.path("trace.ndjson")
        mod.replay(exe, prop, tier, sd, scen_file, trace, sc)
        traces = [("seq", trace, None)]
        if not replay and not probe_note:
            traces += mod.extra_traces(prop, tier, sd, exe, sc, scenarios)
        bad_all = []
        tstats = collections.Counter()
        nlines = 0
        for tname, tr, imap in traces:
            shards = vlib.split_file(tr, 12, sc.sub("shards-" + tname), is_begin=lambda l: mod.begin_marker in l)
            total = sum(1 for _ in open(tr))
            os.remove(tr)   # the shards are the trace (disk space)
            before = nlines

            def val(sh):
                return vlib.validate_trace(sh + ".tlc", mod.name, sh, java_opts="-Xmx3g -XX:ParallelGCThreads=2")
            for stats, bad, n in vlib.pmap(val, shards, workers=6):
                for k, v in stats.items():
                    tstats[k] += v
                nlines += n
                for b in bad:
                    b["trace"] = tname
                    b["idx"] = (imap[b["scn"] - 1] if imap else b["scn"] - 1)
                    bad_all.append(b)
            if nlines - before != total:
                raise vlib.ToolFailure("only %d of %d trace lines of %s were validated" % (nlines - before, total, tr))
        rejections = []
        other = collections.Counter()
        for b in bad_all:
            for lab in b["labels"]:
                if lab.startswith(prop + "-") or dev:
                    rejections.append({"sig": mod.label_sig(lab, b["detail"]), "label": lab, "scn": b["idx"],
                                       "trace": b["trace"], "detail": b["detail"]})
                else:
                    other[lab.split("-")[0]] += 1
        # timing-sensitive labels (a step that did not finish within its deadline, ..) are confirmed before they are
        # reported: the scenario is replayed alone, twice; a rejection that does not recur was the machine, not the code
        if mod.timing_labels and not replay:
            sus = [r for r in rejections if r["label"] in mod.timing_labels and r["trace"] == "seq"]
            idxs = sorted(set(r["scn"] for r in sus))
            keep = set()
            if 0 < len(idxs) <= 12:
                for n, i in enumerate(idxs):
                    again = 0
                    for rep in range(2):
                        cf, ct = sc.path("confirm-%d-%d.ndjson" % (n, rep)), sc.path("confirm-%d-%d.trace" % (n, rep))
                        with open(cf, "w") as f:
                            f.write(scenarios[i] + "\n")
                        mod.replay(exe, prop, tier, sd, cf, ct, sc)
                        _, cbad, _ = vlib.validate_trace(sc.path("confirm-%d-%d.tlc" % (n, rep)), mod.name, ct,
                                                         java_opts="-Xmx3g -XX:ParallelGCThreads=2")
                        if any(l in mod.timing_labels for b in cbad for l in b["labels"]):
                            again += 1
                    if again == 2:
                        keep.add(i)
                dropped = [r for r in sus if r["scn"] not in keep]
                if dropped:
                    log("[%s] %d timing-sensitive rejection(s) did not recur when their scenarios were replayed alone: not reported"
                        % (prop, len(dropped)))
                    rejections = [r for r in rejections if r not in dropped]
        first = {}
        for r in rejections:
            first.setdefault(r["sig"], r)
        for sig, r in first.items():
            fname = "".join(c if c.isalnum() or c in "-." else "_" for c in sig)[:80]
            r["replay"] = vlib.save_replay(prop, fname, {
                "property": prop, "signature": sig, "label": r["label"], "detail": r["detail"], "mode": r["trace"],
                "scenario": json.loads(scenarios[r["scn"]]), "replay_cmd": "./check %s --replay <this file>" % prop})
        for r in rejections:
            r["replay"] = first[r["sig"]]["replay"]
            r["text"] = "%s detail=%s" % (r["label"], json.dumps(r["detail"])[:300])
        if dev:
            for sig, n in collections.Counter(r["sig"] for r in rejections).most_common():
                log("  %6d  %s" % (n, sig))
        nviol = vlib.verdict(prop, rejections)
        if other:
            log("[%s] note: rejections carrying other properties' labels in this run: %s" % (prop, dict(other)))
        samples = []
        for i in (0, len(scenarios) // 2, len(scenarios) - 1):
            if 0 <= i < len(scenarios):
                s = scenarios[i]
                samples.append(json.loads(s) if len(s) < 6000 else {"truncated": s[:6000]})
        cov = {
            "states": max(mc_states, 1), "transitions": max(mc_trans, 1),
            "traces_validated_against_impl": int(tstats.get("scenarios", 0)),
            "samples": samples[:3],
            "evaluations": len(scenarios),
            "distinct_nontrivial": len(set(s for s in scenarios if mod.nontrivial(s))),
            "rule": mod.rule(),
            "scenarios_per_mode": per_mode,
            "trace_events_validated": nlines,
            "validation_outcomes": {k: int(v) for k, v in tstats.items() if k != "tlc_states"},
            "trace_spec_states": int(tstats.get("tlc_states", 0)),
            "rejections_for_this_property": len(rejections),
            "rejection_signatures": sorted(set(r["sig"] for r in rejections)),
            "unbounded_design_results": proofs,
            "stopped_early": probe_note,
            "exhaustive": False,
            "checker_cmd": "tlc Gen_%s (INVARIANTS %s); driver %s; tlc Trace_%s" % (mod.name, mod.invariants, mod.driver, mod.name),
        }
        vlib.write_evidence(prop, tier, mod.level, cov, time.time() - t0, nviol, mod.assumptions)
        log("[%s] %s: %d scenarios (%d TLC states), %d trace events validated, %d rejections for %s, %d unlisted; %.0fs"
            % (prop, tier, len(scenarios), mc_states, nlines, len(rejections), prop, nviol, time.time() - t0))
        return 1 if nviol else 0
