"""X01 (beyond the listed properties): the builder API of pkg/api/adjustment.go and update.go
(Builder.tla: model checking + scenario emission -> replay on real values -> Trace_Builder)."""
import pipeline, vlib


class Builder(pipeline.Module):
    name = "Builder"
    gen_module = "Builder"
    driver = "build"
    begin_marker = '"ev":"Build"'
    invariants = "IntentKept RemovalAfterAddIneffective BlankWithdraws LastWriter"
    assumptions = [
        "the projection (harness/abs.FromAPIAdjust) is an independent reading of the wire conventions",
        "AddMount / AddDevice / AddCDIDevice / AddHooks keep the caller's objects (documented TODO in the code); only "
        "SetArgs / UpdateArgs / SetLinuxOomScoreAdj are required to copy",
    ]

    def gen_configs(self, prop, tier, sd):
        th = tier == "thorough"
        c = lambda m, n: (m, '  Mode = "%s"\n  MaxLen = %d' % (m, n))
        return [c("ann", 4 if th else 3), c("env", 4 if th else 3), c("mnt", 4 if th else 3), c("dev", 4 if th else 3),
                c("mixed", 4 if th else 3), c("misc", 3 if th else 2), c("scalar", 2), c("update", 3 if th else 2)]

    def random_args(self, prop, tier, sd, out):
        return ["build-gen", "-n", 20000 if tier == "thorough" else 2000, "-seed", sd, "-out", out]

    def driver_args(self, prop, tier, sd, scen, trace):
        return ["build", "-in", scen, "-out", trace]

    def label_sig(self, label, detail):
        if label in ("X01-adjust-builder", "X01-update-builder") and detail:
            return label + "/" + str(detail[0])
        return label

    def rule(self):
        return ("scenario = a sequence of builder calls on a fresh ContainerAdjustment or ContainerUpdate; TLC enumerates "
                "every sequence up to length 2-4 over per-family alphabets (add/remove over 2 keys x 2 values for "
                "annotations, env, mounts, devices; a mixed alphabet; args/hooks (each stage and all stages)/rlimits/CDI; "
                "every scalar setter with boundary values; the update builder) and checks IntentKept, "
                "RemovalAfterAddIneffective, LastWriter on them; plus seeded random mixed sequences up to length 14; "
                "the projected value after every single call is compared")


def run(prop, tier, replay=None):
    return pipeline.run(Builder(), prop, tier, replay)
