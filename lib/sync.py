"""C09: SyncChunk.tla (model checking + size profiles), real registration in child processes, Trace_Sync.tla."""
import json
import pipeline, vlib


class Sync(pipeline.Module):
    name = "Sync"
    gen_module = "SyncChunk"
    driver = "sync"
    invariants = "InBounds Progress ExactDelivery CleanFailure JustifiedFailure BoundedSends"
    gen_props = "Terminates"
    assumptions = [
        "object sizes: one unit = 512 KiB of annotation payload minus 2 KiB, so that 'fits' in the model (sum of units <= 8) "
        "agrees with ttRPC's constant 4 MiB message limit",
        "the trace specification checks the chunk protocol and the outcome, not the sizing policy (any policy that makes progress is accepted)",
        "giving up with at most 8 objects per message (the documented minimum) is a legitimate clean failure",
    ]

    def gen_configs(self, prop, tier, sd):
        th = tier == "thorough"
        base = "  L = 8\n  MinObjs = 8\n  MaxPods = %d\n  MaxCtrs = %d\n  PodSizes = %s\n  CtrSizes = %s\n  AsIs = %s"
        cfgs = [("profiles", base % (3, 14 if th else 11, "{1, 2}" if th else "{1}", "{1, 2, 3, 5}" if th else "{1, 2, 5}", "FALSE")),
                ("NEG:policy-before-repair", base % (3, 12, "{1}", "{1, 2, 5}", "TRUE"))]
        return cfgs

    def design_proofs(self, prop, tier, sc):
        # the count discipline for EVERY number of pods and containers: IndInv (slices in bounds, a message always
        # carries something) is inductive, every accepted message shrinks what is left
        return vlib.apalache_suite(sc.sub("apalache"), "SyncChunkInd",
                                   [("Init => IndInv", "Init", "IndInv", 0),
                                    ("IndInv /\\ Next => IndInv'", "IndInit", "IndInv", 1),
                                    ("Variant (every accepted message shrinks the rest)", "IndInit", "Variant", 1)],
                                   ("pp' = ClampP(np, nc, remP, remC) /\\ cp' = ClampC(np, nc, remP, remC)", "pp' = np /\\ cp' = nc"))

    def random_args(self, prop, tier, sd, out):
        # many small objects (sizes in bytes) and mixed sizes: written directly (no TLC scope for thousands of objects)
        import random
        rnd = random.Random(sd)
        lines = []
        n = 12 if tier == "thorough" else 4
        for i in range(n):
            lines.append(json.dumps({"pods": [1024] * rnd.choice([0, 100, 3000]), "ctrs": [1024 + 64 * (i % 5)] * rnd.choice([1000, 5000, 9000]), "small": True}))
        for i in range(40 if tier == "thorough" else 10):
            lines.append(json.dumps({"pods": [rnd.choice([1, 1, 2]) for _ in range(rnd.randint(0, 4))],
                                     "ctrs": [rnd.choice([1, 1, 2, 3, 5, 7]) for _ in range(rnd.randint(0, 16))]}))
        # few pods among many containers: the pods' share per message shrinks to 0, they are sent last, one at a time
        for npods, nctrs in ((1, 20), (2, 24), (1, 40)):
            lines.append(json.dumps({"pods": [1] * npods, "ctrs": [1] * nctrs}))
        # a transmissible head and an untransmissible tail: the registration is abandoned after messages were accepted
        for head, tail, npods in ((12, 5, 0), (9, 4, 3), (16, 6, 2)):
            lines.append(json.dumps({"pods": [1] * npods, "ctrs": [1] * head + [7] * tail}))
        with open(out, "w") as f:
            f.write("\n".join(lines) + "\n")
        return None

    def driver_args(self, prop, tier, sd, scen, trace):
        return ["sync", "-in", scen, "-out", trace]

    def nontrivial(self, s):
        return True

    def rule(self):
        return ("scenario = size profile of the runtime's state (pods, containers; 512 KiB units or bytes); TLC enumerates "
                "0-3 pods x 0-11 (14) containers x uniform sizes {1,2,5} units against the limit of 8 units; plus "
                "seeded mixed profiles and thousands of small objects; each profile is one real registration in a child process")


def run(prop, tier, replay=None):
    return pipeline.run(Sync(), prop, tier, replay)
