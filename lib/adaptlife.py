"""X02 (beyond the listed properties): Start / Stop / Start again of the runtime adaptation against
registrations in flight (AdaptLife.tla model checking, Gen_AdaptLife schedules stepped through a real
Adaptation, Trace_AdaptLife)."""
import random
import pipeline, vlib

MC = '  Plugins = {"p1", "p2", "p3"}\n  MaxEpoch = 3\n  MaxReq = 2\n  AsIs = %s'
INV = "TypeOK ListSound Quiescent QuiescentRequests NoZombie Told NotCut"


class AdaptLife(pipeline.Module):
    name = "AdaptLife"
    driver = "adaptlife"
    invariants = "TypeOK ListSound"
    gen_workers = 2
    timing_labels = ("X02-step-blocked",)
    assumptions = [
        "a registration is held where the runtime itself controls it: inside its synchronization callback, before and "
        "after handing out the state; the hook points sync.exclusive / sync.activated / sync.finish tell which plugin is where",
        "'connection closed by the runtime' is observed as the stub's close notification; it is compared as a subset at "
        "every step and exactly after the notifications have settled (no change for 150 ms)",
        "'listener up' is observed as the existence of the socket file",
    ]

    def gen_configs(self, prop, tier, sd):
        th = tier == "thorough"
        return [
            dict(name="MC-AdaptLife-intended", module="AdaptLife", spec="LSpec", consts=MC % "FALSE", invariants=INV),
            dict(name="NEG-AdaptLife-as-is", module="AdaptLife", spec="LSpec", consts=MC % "TRUE", invariants=INV, neg=True),
            dict(name="sched", consts='  Plugins = {"p1", "p2"}\n  MaxEpoch = 2\n  MaxReq = %d\n  AsIs = TRUE\n  MaxSteps = %d'
                 % ((2, 10) if th else (1, 8)), workers=4),
        ]

    def driver_args(self, prop, tier, sd, scen, trace):
        return ["adaptlife", "-in", scen, "-out", trace, "-par", 8]

    def label_sig(self, label, detail):
        return label

    def rule(self):
        return ("scenario = a maximal behaviour of AdaptLife (2 plugins interchangeable, 2 starts) of up to 8 (10) steps "
                "Start / Stop / Request / Accept(p) / Excl(p) / Sync(p) / Activate(p), stepped through a real Adaptation "
                "with stub plugins; listener state, closed connections and the set of plugins served are compared after "
                "every step")


def run(prop, tier, replay=None):
    return pipeline.run(AdaptLife(), prop, tier, replay)
