"""Orchestration helpers shared by all checks: TLC runs, Go harness build, trace
validation, known findings, evidence files, verdicts.

Exit codes of a check: 0 = property held on everything explored (KNOWN-FINDING
lines possible), 1 = VIOLATION, 2 = tool failure (never a violation)."""
import json, os, re, shutil, subprocess, sys, tempfile, time, hashlib
from concurrent.futures import ThreadPoolExecutor

VERIF = os.path.dirname(os.path.dirname(os.path.abspath(__file__)))
TLA = os.path.join(VERIF, "tla")
HARNESS = os.path.join(VERIF, "harness")
# The registered checks always run against /repo. VERIF_REPO is for trials of seeded changes in a scratch
# worktree while /repo itself is in use by another (long) run: the harness is then copied and re-pointed.
REPO = os.environ.get("VERIF_REPO", "/repo")
GOENV = dict(os.environ, GOFLAGS="-mod=mod", GOPROXY="off", GOSUMDB="off", GOTOOLCHAIN="local",
             CGO_ENABLED="0")
JAVA_OPTS = "-Xmx6g -XX:ParallelGCThreads=4"


class ToolFailure(Exception):
    pass


if REPO != "/repo":
    import atexit
    _hcopy = tempfile.mkdtemp(prefix="verif-harness-")
    atexit.register(shutil.rmtree, _hcopy, True)
    shutil.copytree(HARNESS, os.path.join(_hcopy, "harness"), ignore=shutil.ignore_patterns(".go.sum.*"))
    HARNESS = os.path.join(_hcopy, "harness")
    _gm = open(os.path.join(HARNESS, "go.mod")).read().replace("=> /repo", "=> " + REPO)
    open(os.path.join(HARNESS, "go.mod"), "w").write(_gm)


def log(*a):
    print(*a, flush=True)


def seed():
    try:
        return int(os.environ.get("VERIF_SEED", "1"))
    except ValueError:
        return 1


class Scratch:
    """A scratch directory outside /repo and /verif, removed on exit."""

    def __init__(self, keep=False):
        self.dir = tempfile.mkdtemp(prefix="verif-")
        self.keep = keep

    def path(self, *p):
        return os.path.join(self.dir, *p)

    def sub(self, name):
        d = self.path(name)
        os.makedirs(d, exist_ok=True)
        return d

    def close(self):
        if not self.keep:
            shutil.rmtree(self.dir, ignore_errors=True)

    def __enter__(self):
        return self

    def __exit__(self, *a):
        self.close()


# ----------------------------------------------------------------------------- TLC

TLC_NOISE = ("Parsing file", "Semantic processing", "Linting of module")


def run_tlc(workdir, module, cfg_text, workers=4, timeout=1800, extra=(), java_opts=JAVA_OPTS, simulate=None):
    """Run TLC on `module` (copied with all of tla/ into workdir). Returns output text."""
    os.makedirs(workdir, exist_ok=True)
    for f in os.listdir(TLA):
        if f.endswith(".tla"):
            shutil.copy(os.path.join(TLA, f), workdir)
    with open(os.path.join(workdir, module + ".cfg"), "w") as f:
        f.write(cfg_text)
    jtmp = os.path.join(workdir, "jtmp")    # TLC leaves a tlc-* directory per run in java.io.tmpdir
    os.makedirs(jtmp, exist_ok=True)
    cmd = ["java"] + java_opts.split() + ["-XX:+UseParallelGC", "-Djava.io.tmpdir=" + jtmp, "-cp",
           "/opt/veriftools/tla/tla2tools.jar:/opt/veriftools/tla/CommunityModules-deps.jar", "tlc2.TLC",
           "-workers", str(workers), "-metadir", os.path.join(workdir, "meta"), "-noGenerateSpecTE"]
    if simulate:
        cmd += ["-simulate", simulate]
    cmd += list(extra) + [module + ".tla"]
    try:
        p = subprocess.run(cmd, cwd=workdir, stdout=subprocess.PIPE, stderr=subprocess.STDOUT, timeout=timeout,
                           env=dict(os.environ, JAVA_TOOL_OPTIONS=""))
    except subprocess.TimeoutExpired:
        raise ToolFailure("TLC timed out after %ds on %s" % (timeout, module))
    out = p.stdout.decode("utf-8", "replace")
    return p.returncode, out


def run_apalache(workdir, module_file, init, inv, length, timeout=600, extra=()):
    """Apalache: is `inv` preserved from `init` within `length` steps? -> (True | False, output).
    Anything else than OK / a reported violation is a tool failure."""
    os.makedirs(workdir, exist_ok=True)
    cmd = ["apalache-mc", "check", "--init=" + init, "--inv=" + inv, "--length=%d" % length,
           "--out-dir=" + os.path.join(workdir, "_apalache-out"), "--run-dir=" + os.path.join(workdir, "_run")] + list(extra) + [module_file]
    try:
        jtmp = os.path.join(workdir, "jtmp")
        os.makedirs(jtmp, exist_ok=True)
        p = subprocess.run(cmd, cwd=workdir, stdout=subprocess.PIPE, stderr=subprocess.STDOUT, timeout=timeout,
                           env=dict(os.environ, JAVA_TOOL_OPTIONS="", JVM_ARGS="-Djava.io.tmpdir=" + jtmp,
                                    TMPDIR=jtmp))
    except (subprocess.TimeoutExpired, FileNotFoundError) as e:
        raise ToolFailure("apalache-mc did not complete on %s: %s" % (module_file, e))
    out = p.stdout.decode("utf-8", "replace")
    if "EXITCODE: OK" in out:
        return True, out
    if "EXITCODE: ERROR (12)" in out:
        return False, out
    raise ToolFailure("apalache-mc failed on %s:\n%s" % (module_file, out[-2000:]))


def apalache_suite(workdir, module, obligations, neg_replace, cinit=None):
    """Discharge inductive-invariant obligations [(title, init, inv, length)] of tla/<module>.tla with Apalache and
    check that the mutated module (text replacement neg_replace = (old, new)) is refuted (vacuity guard).
    -> dict for the evidence file; raises ToolFailure when an obligation fails."""
    os.makedirs(workdir, exist_ok=True)
    src = os.path.join(TLA, module + ".tla")
    shutil.copy(src, workdir)
    res = {}

    def run(mod, init, inv, length):
        cmd_extra = ["--cinit=" + cinit] if cinit else []
        return run_apalache(workdir, mod + ".tla", init, inv, length, extra=cmd_extra)
    for title, init, inv, length in obligations:
        ok, out = run(module, init, inv, length)
        if not ok:
            raise ToolFailure("%s: '%s' does not hold - the specification is inconsistent" % (module, title))
        res[title] = "proved by apalache-mc (integers unbounded)"
    old, new = neg_replace
    text = open(src).read()
    if old not in text:
        raise ToolFailure("%s: the negative control could not be derived" % module)
    with open(os.path.join(workdir, module + "Neg.tla"), "w") as f:
        f.write(text.replace("MODULE " + module, "MODULE " + module + "Neg").replace(old, new))
    title, init, inv, length = obligations[1]
    ok, out = run(module + "Neg", init, inv, length)
    if ok:
        raise ToolFailure("vacuity guard: %s was expected not to be inductive in the mutated %s" % (inv, module))
    res["negative control (%s -> %s)" % (old, new)] = "%s not inductive, as expected" % inv
    return res


def tlc_ok(rc, out, what):
    """Model checking finished without error?"""
    if "Model checking completed. No error has been found." in out or "Finished in" in out and rc == 0:
        return True
    return False


def tlc_counts(out):
    m = re.search(r"(\d+) states generated, (\d+) distinct states found", out)
    if not m:
        return 0, 0
    return int(m.group(1)), int(m.group(2))


def tlc_tagged(out, tag):
    """Lines printed as <<"TAG", x>> by PrintT; returns the list of x (decoded)."""
    res = []
    pre = '<<"%s", ' % tag
    for line in out.splitlines():
        if not line.startswith(pre) or not line.endswith(">>"):
            continue
        body = line[len(pre):-2]
        if body.startswith('"'):
            try:
                body = json.loads(body)
            except Exception:
                pass
        res.append(body)
    return res


def tlc_error_excerpt(out, n=40):
    lines = [l for l in out.splitlines() if not l.startswith(TLC_NOISE)]
    return "\n".join(lines[-n:])


def tlc_violation(out):
    """Did TLC report an invariant/property violation (as opposed to a tool error)?"""
    return ("is violated" in out) or ("Temporal properties were violated" in out)


# ----------------------------------------------------------------------------- Go harness

def build_driver(outdir, tags="verif"):
    """Build the harness against /repo's current working tree."""
    tmp = os.path.join(HARNESS, ".go.sum.%d" % os.getpid())
    shutil.copy(os.path.join(REPO, "go.sum"), tmp)
    os.replace(tmp, os.path.join(HARNESS, "go.sum"))
    exe = os.path.join(outdir, "driver")
    cmd = ["go", "build", "-tags", tags, "-o", exe, "./cmd/driver"]
    if os.environ.get("GOCOVERDIR"):   # development aid: which lines of the code under test do the drivers reach?
        n = "github.com/containerd/nri/pkg/"
        cmd[2:2] = ["-cover", "-coverpkg=./...," + ",".join(n + x for x in (
            "adaptation", "api", "stub", "net", "net/multiplex", "runtime-tools/generate", "log"))]
    p = subprocess.run(cmd, cwd=HARNESS, env=GOENV, stdout=subprocess.PIPE, stderr=subprocess.STDOUT)
    if p.returncode != 0:
        raise ToolFailure("harness build failed:\n" + p.stdout.decode()[-4000:])
    return exe


def run_driver(exe, args, timeout=3600, env=None, ok_codes=(0,)):
    e = dict(GOENV)
    if env:
        e.update(env)
    try:
        p = subprocess.run([exe] + [str(a) for a in args], stdout=subprocess.PIPE, stderr=subprocess.PIPE,
                           timeout=timeout, env=e)
    except subprocess.TimeoutExpired:
        raise ToolFailure("driver timed out: %s" % " ".join(map(str, args)))
    if p.returncode not in ok_codes:
        raise ToolFailure("driver failed (%d): %s\n%s" % (p.returncode, " ".join(map(str, args)),
                                                          p.stderr.decode("utf-8", "replace")[-4000:]))
    return p.returncode, p.stdout.decode("utf-8", "replace"), p.stderr.decode("utf-8", "replace")


# ----------------------------------------------------------------------------- trace validation

def validate_trace(workdir, module, trace_file, timeout=3600, extra_cfg="", java_opts=JAVA_OPTS, inv_labels=None):
    """Validate one ndjson trace with Trace_<module>; returns (stats, bad, lines).
    A violated INVARIANT of the trace configuration is reported as a rejection of the run it occurred in
    (label inv_labels[name]); the rest of that file is then not examined."""
    tmpl = open(os.path.join(TLA, "Trace_%s.cfg.tmpl" % module)).read()
    cfg = tmpl.replace("@TRACE@", trace_file) + extra_cfg
    rc, out = run_tlc(workdir, "Trace_" + module, cfg, workers=1, timeout=timeout, java_opts=java_opts)
    nlines = sum(1 for _ in open(trace_file))
    m = re.search(r"Invariant (\w+) is violated", out)
    if m and inv_labels and m.group(1) in inv_labels:
        ls = [int(x) for x in re.findall(r"^/\\ l = (\d+)", out, re.M)]
        line = max(ls) if ls else 1
        lines = open(trace_file).read().splitlines()
        scn = json.loads(lines[min(line, len(lines)) - 1]).get("scn", 0)
        bad = [{"scn": scn, "line": line, "labels": [inv_labels[m.group(1)]], "detail": ["invariant " + m.group(1)]}]
        return {"scenarios": 0, "rejected": 1}, bad, nlines
    if m and m.group(1) == "NotStuck":
        ls = [int(x) for x in re.findall(r"^/\\ l = (\d+)", out, re.M)]
        raise ToolFailure("the trace specification Trace_%s cannot consume line %s of %s (specification bug, not a violation)"
                          % (module, max(ls) if ls else "?", trace_file))
    consumed = tlc_tagged(out, "CONSUMED")
    if not consumed or "No error has been found" not in out:
        raise ToolFailure("trace validation of %s did not complete:\n%s" % (trace_file, tlc_error_excerpt(out)))
    if int(consumed[-1]) != nlines:
        raise ToolFailure("trace validation consumed %s of %d lines" % (consumed[-1], nlines))
    stats = {}
    for s in tlc_tagged(out, "STATS"):
        stats = json.loads(s)
    bad = [json.loads(b) for b in tlc_tagged(out, "BAD")]
    gen, dist = tlc_counts(out)
    stats["tlc_states"] = dist
    return stats, bad, nlines


def split_file(path, nparts, outdir, is_begin=lambda l: '"ev":"Begin"' in l):
    """Split an ndjson trace at scenario boundaries into <= nparts shards, rewriting nb."""
    lines = open(path).read().splitlines()
    starts = [i for i, l in enumerate(lines) if is_begin(l)]
    if not starts:
        return []
    per = max(1, (len(starts) + nparts - 1) // nparts)
    shards = []
    for s in range(0, len(starts), per):
        a = starts[s]
        b = starts[s + per] if s + per < len(starts) else len(lines)
        shard = os.path.join(outdir, "shard%03d.ndjson" % len(shards))
        with open(shard, "w") as f:
            for l in lines[a:b]:
                o = json.loads(l)
                o["nb"] = o["nb"] - a
                f.write(json.dumps(o, separators=(",", ":")) + "\n")
        shards.append(shard)
    return shards


# ----------------------------------------------------------------------------- findings, evidence, verdict

def load_known():
    """known_findings.txt: 'finding: property=<id> sig=<signature> text' / 'fixed: property=<id> <commit> text'"""
    res = []
    p = os.path.join(VERIF, "known_findings.txt")
    if not os.path.exists(p):
        return res
    for line in open(p):
        line = line.strip()
        m = re.match(r"finding:\s+property=(\S+)\s+sig=(\S+)\s*(.*)", line)
        if m:
            res.append({"property": m.group(1), "sig": m.group(2), "text": m.group(3)})
    return res


def write_evidence(prop, tier, level, coverage, wall, violations, assumptions):
    # extension engines (X..: behaviour beyond the listed properties) keep their evidence apart
    sub = os.path.join("evidence", "ext") if prop.startswith("X") else "evidence"
    os.makedirs(os.path.join(VERIF, sub), exist_ok=True)
    ev = {"property_id": prop, "tier": tier, "seed": seed(), "level": level, "coverage": coverage,
          "assumptions": assumptions, "wall_s": round(wall, 2), "violations": violations}
    with open(os.path.join(VERIF, sub, prop + ".json"), "w") as f:
        json.dump(ev, f, indent=1)


def save_replay(prop, name, content):
    d = os.path.join(VERIF, "replays")
    os.makedirs(d, exist_ok=True)
    p = os.path.join(d, "%s-%s.json" % (prop, name))
    with open(p, "w") as f:
        if isinstance(content, str):
            f.write(content)
        else:
            json.dump(content, f, indent=1)
    return p


def verdict(prop, rejections):
    """rejections: list of dicts with 'sig', 'replay' (path), 'text'. Prints KNOWN-FINDING / VIOLATION lines.
    Returns the number of unlisted violations."""
    known = [k for k in load_known() if k["property"] == prop]
    nviol = 0
    seen_known = set()
    seen_viol = set()
    for r in rejections:
        k = next((k for k in known if k["sig"] == r["sig"]), None)
        if k:
            if k["sig"] not in seen_known:
                seen_known.add(k["sig"])
                log("KNOWN-FINDING: property=%s %s (sig=%s)" % (prop, k["text"], k["sig"]))
            continue
        nviol += 1
        if r["sig"] not in seen_viol:
            seen_viol.add(r["sig"])
            log("VIOLATION property=%s replay=%s" % (prop, r["replay"]))
            log("  signature: %s  %s" % (r["sig"], r.get("text", "")))
    return nviol


def pmap(fn, items, workers=8):
    with ThreadPoolExecutor(max_workers=workers) as ex:
        return list(ex.map(fn, items))
