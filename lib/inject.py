"""C20: Inject.tla (annotation scoping/precedence + expected adjustment), the built sample plugins launched as
pre-installed plugins (harness/injdrv), Trace_Inject.tla."""
import os, subprocess
import pipeline, vlib


class Inject(pipeline.Module):
    name = "Inject"
    gen_module = "Inject"
    driver = "inject"
    begin_marker = '"ev":"Inject"'
    invariants = "NeverForeign AllOrNothing"
    assumptions = [
        "payload ids map to YAML texts in harness/injdrv and to their meaning in Inject.tla (two encodings of one table)",
        "the plugins are built from /repo/plugins/device-injector and /repo/plugins/ulimit-adjuster (their go.mod replaces "
        "nri with ../.., i.e. the working tree) and run as pre-installed plugins 10-device-injector, 20-ulimit-adjuster",
    ]

    def gen_configs(self, prop, tier, sd):
        return [(m, '  Mode = "%s"' % m) for m in ("perkey", "bad", "combined")]

    def replay(self, exe, prop, tier, sd, scen, trace, sc):
        bindir = sc.sub("plugin-bin")
        env = dict(vlib.GOENV)
        env["GOFLAGS"] = "-mod=mod"
        for name in ("device-injector", "ulimit-adjuster"):
            src = os.path.join(vlib.REPO, "plugins", name)
            # build outside /repo: copy the plugin's module to scratch and point its replace at /repo
            d = sc.sub("src-" + name)
            for f in os.listdir(src):
                if f.endswith(".go") and not f.endswith("_test.go") or f in ("go.mod", "go.sum"):
                    open(os.path.join(d, f), "wb").write(open(os.path.join(src, f), "rb").read())
            gm = open(os.path.join(d, "go.mod")).read().replace("=> ../..", "=> " + vlib.REPO)
            open(os.path.join(d, "go.mod"), "w").write(gm)
            p = subprocess.run(["go", "build", "-o", os.path.join(bindir, name), "."], cwd=d, env=env,
                               stdout=subprocess.PIPE, stderr=subprocess.STDOUT)
            if p.returncode != 0:
                raise vlib.ToolFailure("building plugin %s failed:\n%s" % (name, p.stdout.decode()[-3000:]))
        vlib.run_driver(exe, ["inject", "-in", scen, "-out", trace, "-bindir", bindir], timeout=3000)

    def rule(self):
        return ("scenario = (container name, set of pod annotations); per key (devices, mounts, CDI devices, ulimits) every "
                "subset of {own container, another container whose name is a prefix/extension of this one, pod, bare key}, "
                "each slot with a distinguishable payload; malformed payloads / unknown rlimit types / hard<soft at selected "
                "and at non-selected scopes, alone and next to well-formed annotations; all four keys at once in every scope "
                "combination; names c1, c1x, a.b")


def run(prop, tier, replay=None):
    return pipeline.run(Inject(), prop, tier, replay)
