"""X05 (beyond the listed properties): the v0.1.0 plugin chain - nri.Client.InvokeWithSandbox, skel.Run, types/v1
(Legacy.tla model checking, Gen_Legacy scenarios, the driver executable as the chain's plugins, Trace_Legacy)."""
import pipeline, vlib

INV = "InOrderOnce SeesEarlier FailFast Complete NoPartial ExitStatusIgnored SkelAnswers"


class Legacy(pipeline.Module):
    name = "Legacy"
    driver = "legacy"
    invariants = INV
    gen_props = "Emitted"
    assumptions = [
        "the client is built from a configuration list in a scratch directory through the guarded constructor "
        "nri.NewWithConfig (client_verif.go, build tag verif); New() itself reads /etc/nri/conf.json",
        "every plugin of a chain is the driver executable run as '<link> invoke' on top of skel.Run; its behaviour and "
        "its position come with its own configuration, and it appends what it was shown to a record file",
        "a hanging plugin is ended by the caller's context (400 ms); the call must return within 5 s",
    ]

    def gen_configs(self, prop, tier, sd):
        th = tier == "thorough"
        return [
            dict(name="chains", consts='  Mode = "chains"\n  MaxLen = %d\n  Chains = {}' % (4 if th else 3), workers=4),
            dict(name="requests", consts='  Mode = "requests"\n  MaxLen = 2\n  Chains = {}'),
            dict(name="skel", consts='  Mode = "skel"\n  MaxLen = 0\n  Chains = {}'),
        ]

    def design_proofs(self, prop, tier, sc):
        # the chain for any length N: counts instead of sequences, every way of ending chosen nondeterministically
        return vlib.apalache_suite(sc.sub("apalache"), "LegacyInd",
                                   [("Init => IndInv", "Init", "IndInv", 0),
                                    ("IndInv /\\ Next => IndInv'", "IndInit", "IndInv", 1),
                                    ("IndInv => Complete", "IndInit", "Complete", 0),
                                    ("Variant (every execution advances the chain or ends it)", "IndInit", "Variant", 1)],
                                   ("shown' = IF runs THEN nacc ELSE shown", "shown' = IF runs THEN pos ELSE shown"),
                                   cinit="ConstInit")

    def driver_args(self, prop, tier, sd, scen, trace):
        return ["legacy", "-in", scen, "-out", trace]

    def label_sig(self, label, detail):
        # a panic of skel.Run is identified by the argument list and the standard input it happens with
        if label == "X05-skel-panic":
            return "%s/%s/%s" % (label, "+".join(detail[0]) if detail[0] else "no-argument", detail[1])
        return label

    def rule(self):
        return ("scenario = a chain of up to 3 (4) plugins, each with one of 9 ways to end (result, error, result "
                "carrying an error, output that is not JSON, no output, non-zero exit status with and without a result, "
                "missing executable; a hanging plugin alone and in the middle), or one of 5 x 3 x 4 x 2 request shapes "
                "(state, sandbox, OCI spec kind, pid) for a chain of two; or skel.Run as a program: 5 argument lists x 3 "
                "contents of standard input x 3 plugin behaviours")


def run(prop, tier, replay=None):
    return pipeline.run(Legacy(), prop, tier, replay)
