"""X04 (beyond the listed properties): exported helpers of pkg/api (ApiHelpers.tla, helpdrv, Trace_ApiHelpers)."""
import pipeline


class ApiHelpers(pipeline.Module):
    name = "ApiHelpers"
    gen_module = "ApiHelpers"
    driver = "apihelpers"
    begin_marker = '"ev":"Help"'
    invariants = "ShorthandsPartition CmpIsEquivalence PrettyParses NameSplitsBack"
    assumptions = ["Cmp is specified as documented ('returns true if the ... are equal')"]

    def gen_configs(self, prop, tier, sd):
        return [(m, '  Mode = "%s"' % m) for m in ("parse", "misc", "mounts", "mask")]

    def driver_args(self, prop, tier, sd, scen, trace):
        return ["apihelpers", "-in", scen, "-out", trace]

    def rule(self):
        return ("scenario = one call: ParseEventMask / MustParseEventMask on 1-2 tokens (event names, shorthands, empty, "
                "unknown; lower / camel / upper / padded; one or two arguments), the removal-marker functions on 7 keys, "
                "ParsePluginName / CheckPluginIndex on 19 names, EventMask Set / Clear / IsSet / PrettyString / re-parse on 8 x 8 x 3 masks, "
                "Mount.Cmp on 8 x 8 mounts, LinuxDevice.Cmp on 4 x 4 devices, Hooks.Append / Hooks() on 324 pairs")


def run(prop, tier, replay=None):
    return pipeline.run(ApiHelpers(), prop, tier, replay)
