"""C10, C11: Mux.tla (model checking), Gen_Mux.tla (fault placements), muxdrv (recording), Trace_Mux.tla."""
import recorded, vlib

WRAP = '''---- MODULE %(name)s ----
EXTENDS Mux
vConnOf == %(connof)s
vMsgs == %(msgs)s
====
'''
CFG = '''SPECIFICATION MSpec
CONSTANTS
  Writers = %(writers)s
  ConnOf <- vConnOf
  Msgs <- vMsgs
  QLen = %(qlen)d
  UseLock = %(lock)s
  Faults = %(faults)s
INVARIANTS WellFormed PrefixInv Isolated Complete ChunksContiguous
%(props)s
CHECK_DEADLOCK FALSE
'''


def mc(name, expect=None, workers=8, **kw):
    d = dict(writers='{"w1", "w2"}', connof='[w1 |-> "c1", w2 |-> "c1"]', msgs='[w1 |-> <<2, 1>>, w2 |-> <<1>>]',
             qlen=2, lock="TRUE", faults='{"cut", "closeA", "closeB"}', props="PROPERTIES AfterClose WritersEnd")
    d.update(kw)
    d["name"] = name
    return dict(name=name, module="Mux", wrapper=WRAP % d, wrapper_name=name, cfg=CFG % d, workers=workers,
                expect_violation=expect, timeout=3400)


class Mux(recorded.Module):
    name = "Mux"
    assumptions = [
        "log order = append order under one recorder mutex; frames are logged at the hook points under the write lock "
        "(before the bytes enter the trunk) and in the reader before the enqueue, reads after they return (DESIGN R2)",
        "C10: both ends open the connection ids before traffic, readers pass buffers of at least one frame and, without "
        "a fault, the frames in flight per connection stay within the queue length",
        "a cut is permanent: the socket of that end is closed after exactly k bytes in that direction",
    ]

    def design_proofs(self, prop, tier, sc):
        # the frame-splitting loop of mux.write() for a payload of any length and any positive frame maximum
        return vlib.apalache_suite(sc.sub("apalache"), "MuxSplitInd",
                                   [("Init => IndInv", "Init", "IndInv", 0),
                                    ("IndInv /\\ Next => IndInv'", "IndInit", "IndInv", 1),
                                    ("Variant (every iteration writes something)", "IndInit", "Variant", 1)],
                                   ("size' = Min(s, rem - s)", "size' = s"), cinit="ConstInit")

    def mc_configs(self, prop, tier, sd):
        th = tier == "thorough"
        cfgs = []
        if th:
            cfgs.append(mc("MCM_3w", workers=12, writers='{"w1", "w2", "w3"}',
                           connof='[w1 |-> "c1", w2 |-> "c1", w3 |-> "c2"]',
                           msgs='[w1 |-> <<2, 1>>, w2 |-> <<1>>, w3 |-> <<1, 2>>]'))
        else:
            cfgs.append(mc("MCM_2w", workers=8))
        # vacuity guard: without the write lock frames of concurrent writers interleave
        cfgs.append(mc("MCM_nolock", expect="is violated", lock="FALSE", faults="{}", props=""))
        # the connection table: handles, re-opened ids, repeated Close, Close of the multiplexer
        tab = ("SPECIFICATION TSpecM\nCONSTANTS Ids = {1, 2} MaxH = %d MaxSent = 3 Guarded = %s\n"
               "INVARIANTS OpenIsRegistered OneOpenPerId NothingOpenAfterClose Isolated\nCHECK_DEADLOCK FALSE\n")
        cfgs.append(dict(name="MCT_table", module="MuxTable", cfg=tab % (5 if th else 4, "TRUE"), workers=4))
        cfgs.append(dict(name="MCT_unguarded", module="MuxTable", cfg=tab % (4, "FALSE"), workers=2,
                         expect_violation="OpenIsRegistered"))
        # Open() after the close as the code did it before D15 was repaired: a handle stays open for ever
        cfgs.append(dict(name="MCT_lateopen", module="MuxTable", cfg=(tab % (4, "TRUE")).replace("TSpecM", "TSpecAsWas"),
                         workers=2, expect_violation="NothingOpenAfterClose"))
        return cfgs

    def prepare(self, prop, tier, sd, sc):
        th = tier == "thorough"
        exe = sc.path("driver")
        self.files = {}
        st = tr = 0
        if prop in ("C11", "MUX"):
            cfg = "SPECIFICATION GSpec\nCONSTANTS\n  CutStep = %d\nCHECK_DEADLOCK FALSE\n" % (1 if th else 3)
            rc, out = vlib.run_tlc(sc.sub("gen-mux"), "Gen_Mux", cfg, workers=2, timeout=600)
            if "No error has been found" not in out:
                raise vlib.ToolFailure("Gen_Mux failed:\n" + vlib.tlc_error_excerpt(out))
            cases = sorted(set(vlib.tlc_tagged(out, "CASE")))
            self.files["faults"] = sc.path("mux-faults.ndjson")
            with open(self.files["faults"], "w") as f:
                f.write("\n".join(cases) + "\n")
            g, d = vlib.tlc_counts(out)
            st, tr = d, g
        # operation sequences on the connection table (Gen_MuxTable)
        cfg = ("SPECIFICATION GSpec\nCONSTANTS Ids = {1, 2} MaxH = 3 MaxSent = 3 Guarded = TRUE MaxOps = %d\n"
               "INVARIANTS OpenIsRegistered\nCHECK_DEADLOCK FALSE\n" % (6 if th else 5))
        rc, out = vlib.run_tlc(sc.sub("gen-muxtable"), "Gen_MuxTable", cfg, workers=4, timeout=1200)
        if "No error has been found" not in out:
            raise vlib.ToolFailure("Gen_MuxTable failed:\n" + vlib.tlc_error_excerpt(out))
        tcases = sorted(set(vlib.tlc_tagged(out, "CASE")))
        self.files["table"] = sc.path("mux-table.ndjson")
        with open(self.files["table"], "w") as f:
            f.write("\n".join(tcases) + "\n")
        g, d = vlib.tlc_counts(out)
        st, tr = st + d, tr + g
        n = 600 if th else 120
        self.files["random"] = sc.path("mux-random.ndjson")
        vlib.run_driver(exe, ["mux-gen", "-n", n, "-seed", sd, "-out", self.files["random"], "-big",
                               "-sweep", 9000 if th else 300])
        return st, tr

    def recordings(self, prop, tier, sd):
        recs = [("random", ["mux", "-in", self.files["random"], "-seed", sd]),
                ("table", ["muxtable", "-in", self.files["table"]], "MuxTable")]
        if "faults" in self.files:
            recs.append(("faults", ["mux", "-in", self.files["faults"], "-seed", sd + 1]))
        return recs

    def rule(self):
        return ("one recorded run = a socket pair multiplexed at both ends, 1-3 logical connections, 1-5 concurrent "
                "writers on both ends writing self-describing messages (sizes 0..3000 bytes and the frame-size boundaries "
                "max-1, max, max+1, 2max, 2max+1, 3max+5), one reader per connection and end, queue lengths 1/2/16/256, "
                "and - C11 - one fault: trunk cut after byte k in either direction (every k in thorough), close of either "
                "end after j frames by 1-8 concurrent closers, or a stalled consumer overflowing a short queue; followed by "
                "post-close reads, writes, closes and the wrapped listener's Accept")


def run(prop, tier, replay=None):
    return recorded.run(Mux(), prop, tier, replay, dev=(prop == "MUX"))


def _replay_module(self, first_line):
    return "MuxTable" if '"ops"' in first_line and '"qlen"' not in first_line else None


Mux.replay_module = _replay_module
