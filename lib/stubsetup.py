"""X03 (beyond the listed properties): identity and connection of a plugin stub (StubSetup.tla, child processes
with the scenario's environment / options / executable name, Trace_StubSetup)."""
import pipeline, vlib


class StubSetup(pipeline.Module):
    name = "StubSetup"
    gen_module = "StubSetup"
    driver = "stubsetup"
    begin_marker = '"ev":"Setup"'
    invariants = "HasIndex GivenNameKept NameReplacedByExecutable NoSilentOverride"
    assumptions = [
        "the identity is observed as the RegisterPlugin request a scripted runtime end receives",
        "the executable's name is argv[0] of the child process (what os.Args[0] shows the stub)",
    ]

    def gen_configs(self, prop, tier, sd):
        return [("identity", '  Mode = "identity"'), ("conn", '  Mode = "conn"')]

    def driver_args(self, prop, tier, sd, scen, trace):
        return ["stubsetup", "-in", scen, "-out", trace]

    def rule(self):
        return ("scenario = (NRI_PLUGIN_NAME, NRI_PLUGIN_IDX, WithPluginName, WithPluginIdx, executable name) - every "
                "combination of 2 x 2 x 3 x 4 x 8 values - or (WithConnection, NRI_PLUGIN_SOCKET in {unset, 3, abc, 999}); "
                "one child process each")


def run(prop, tier, replay=None):
    return pipeline.run(StubSetup(), prop, tier, replay)
