"""C01-C05: the Adjust pipeline (Gen_Adjust -> replay on the real code -> Trace_Adjust)."""
import json, os, time, collections
import vlib, pipeline
from vlib import log

ALL_FIELDS = ["mem.limit", "mem.reservation", "mem.swap", "mem.kernel", "mem.kerneltcp", "mem.swappiness",
              "mem.disableoom", "mem.usehierarchy", "cpu.shares", "cpu.quota", "cpu.period", "cpu.rtruntime",
              "cpu.rtperiod", "cpu.cpus", "cpu.mems", "pids", "blockio", "rdt", "cgpath", "oom"]
UPD_FIELDS = [f for f in ALL_FIELDS if f not in ("cgpath", "oom")]

INVARIANTS = "CombinedEquiv NoSilentJoin LedgerSound NoFalseConflict UpdLedger"

# which Gen modes exercise which property (every mode is checked against every label;
# a property's check only *reports* labels carrying its own id)
CREATE_MODES = ["ann", "env", "mnt", "dev", "args", "scalar", "rlim", "cdi", "hp", "uni", "hooks"]
UPD_MODES = ["upd", "upd2", "updkeyed"]
PROP_MODES = {
    "C01": CREATE_MODES + UPD_MODES,
    "C02": CREATE_MODES + UPD_MODES,
    "C03": CREATE_MODES,
    "C04": CREATE_MODES + ["upd", "updkeyed"],
    "C05": UPD_MODES,
    "ADJ": CREATE_MODES + UPD_MODES,   # development: all labels of all five properties
}


def mode_configs(prop, tier, sd):
    """List of (name, Mode, NP, NK, Fields) for TLC."""
    cfgs = []
    modes = PROP_MODES[prop]
    thorough = tier == "thorough"
    for m in modes:
        if m in ("ann", "env", "mnt", "dev"):
            if thorough:
                cfgs.append((m + "-2k3p", m, 3, 2, []))
                cfgs.append((m + "-1k4p", m, 4, 1, []))
            else:
                cfgs.append((m + "-2k2p", m, 2, 2, []))
                cfgs.append((m + "-1k3p", m, 3, 1, []))
        elif m == "args":
            cfgs.append(("args", m, 4 if thorough else 3, 1, []))
        elif m in ("rlim", "cdi", "hp", "uni"):
            cfgs.append((m, m, 3, 2, []))
        elif m == "hooks":
            cfgs.append((m, m, 3, 1, []))
        elif m == "scalar":
            # every field alone, and pairs: cyclic neighbours (quick) / all pairs (thorough)
            n = len(ALL_FIELDS)
            pairs = []
            if thorough:
                pairs = [(ALL_FIELDS[i], ALL_FIELDS[j]) for i in range(n) for j in range(i + 1, n)]
            else:
                off = 1 + sd % (n - 1)
                pairs = [(ALL_FIELDS[i], ALL_FIELDS[(i + off) % n]) for i in range(n)]
            for a, b in pairs:
                cfgs.append(("scalar-%s+%s" % (a, b), m, 3, 1, [a, b]))
        elif m == "upd":
            n = len(UPD_FIELDS)
            if thorough:
                # every field with two partners between 2 plugins; 4 pairs (rotating with the seed) among 3 plugins
                # (a 3-plugin configuration is 31 660 scenarios: all 34 of them took an hour per property)
                for i in range(n):
                    for o in (1, 5):
                        cfgs.append(("upd-%s+%s" % (UPD_FIELDS[i], UPD_FIELDS[(i + o) % n]), m, 2, 1,
                                     [UPD_FIELDS[i], UPD_FIELDS[(i + o) % n]]))
                pairs = [(UPD_FIELDS[(sd + 4 * k) % n], UPD_FIELDS[(sd + 4 * k + 3) % n]) for k in range(4)]
                pairs.append(("pids", "cpu.shares"))
                np_ = 3
            else:
                off = 1 + sd % (n - 1)
                pairs = [(UPD_FIELDS[i], UPD_FIELDS[(i + off) % n]) for i in range(0, n, 2)]
                pairs.append(("pids", "cpu.shares"))
                np_ = 2
            for a, b in pairs:
                cfgs.append(("upd%d-%s+%s" % (np_, a, b), m, np_, 1, [a, b]))
            if not thorough:
                cfgs.append(("upd-3p", m, 3, 1, ["pids"]))
        elif m == "upd2":
            cfgs.append(("upd2", m, 2, 1, ["mem.limit", "pids"]))
            if thorough:
                cfgs.append(("upd2b", m, 2, 1, ["cpu.shares", "rdt"]))
        elif m == "updkeyed":
            cfgs.append(("updkeyed", m, 3 if thorough else 2, 1, []))
    return cfgs


def label_sig(label, detail):
    """Signature of a rejection: label plus the fields/items that differ."""
    def flat(x):
        if isinstance(x, list):
            return "+".join(sorted(flat(y) for y in x)) if x else ""
        return str(x)
    try:
        if label == "C04-view" or label == "C04-view-container" or label == "C04-resources":
            return label + "/" + flat(detail[1])
        if label == "C04-combined":
            return label + "/" + flat(detail[0])
        if label == "C03-combined":
            return label + "/" + flat(detail[1])
        if label == "C03-sequential":
            return label + "/" + flat(detail[2])
        if label == "C05-updates":
            fams = sorted(set((it[0] + ":" + it[1]) if it[0] == "res" else it[0] for it in detail[3]))
            return label + "/" + ("+".join(fams) if fams else "structure")
        if label == "C01-unflagged":
            fams = sorted(set((it[0] + ":" + it[1]) if it[0] == "res" else it[0] for it in detail[0]))
            return label + "/" + "+".join(fams)
        if label == "C02-false-conflict":
            txt = detail[0] if detail else ""
            what = txt.split("both tried to set")[-1].strip() if "both tried to set" in txt else "other-error"
            what = what.split(" ")[0] if what.startswith(("annotation", "mount", "device", "env", "CDI", "rlimit", "unified", "hugepage")) else what
            return label + "/" + what.replace(" ", "_")
    except Exception:
        pass
    return label


class Adjust(pipeline.Module):
    name = "Adjust"
    driver = "adjust"
    invariants = INVARIANTS
    assumptions = [
        "the concretiser/projection layer (harness/abs) reads the wire conventions correctly",
        "TLC bounds: see scenarios_per_mode; larger inputs are covered by sampled scenarios only",
        "a plugin never writes the same item twice in one response (outside the generated domain)",
    ]

    def gen_configs(self, prop, tier, sd):
        out = []
        for name, mode, np_, nk, fields in mode_configs(prop, tier, sd):
            out.append((name, '  Mode = "%s"\n  NP = %d\n  NK = %d\n  Fields = {%s}' % (
                mode, np_, nk, ", ".join('"%s"' % f for f in fields))))
        return out

    def random_args(self, prop, tier, sd, out):
        return ["adjust-gen", "-n", 30000 if tier == "thorough" else 4000, "-seed", sd, "-out", out]

    def extra_traces(self, prop, tier, sd, exe, sc, scenarios):
        # the same scenarios from 8 concurrent callers (several requests in flight)
        step = 1 if tier == "thorough" else 3
        sub = sc.path("conc.ndjson")
        idx = list(range(sd % step, len(scenarios), step))
        with open(sub, "w") as f:
            f.write("\n".join(scenarios[i] for i in idx) + "\n")
        tr = sc.path("trace-conc.ndjson")
        vlib.run_driver(exe, ["adjust", "-in", sub, "-out", tr, "-seed", sd, "-conc", 8])
        return [("conc", tr, idx)]

    def label_sig(self, label, detail):
        return label_sig(label, detail)

    def nontrivial(self, s):
        return '"k"' in s or '"target"' in s or '"res":{"' in s or '"ann":{"' in s

    def rule(self):
        return ("scenario = (request kind, original container / requested resources, one scripted response per "
                "plugin); TLC enumerates every scenario of each small alphabet (per-mode counts in "
                "scenarios_per_mode) incl. all prefixes, a seeded generator adds mixed-family scenarios with up to "
                "6 plugins; non-trivial = at least one plugin writes something; distinct = distinct scenario records")


def run(prop, tier, replay=None):
    return pipeline.run(Adjust(), prop, tier, replay, dev=(prop == "ADJ"))
