"""C01-C05: the Adjust pipeline (Gen_Adjust -> replay on the real code -> Trace_Adjust)."""
import json, os, time, collections
import vlib
from vlib import log

ALL_FIELDS = ["mem.limit", "mem.reservation", "mem.swap", "mem.kernel", "mem.kerneltcp", "mem.swappiness",
              "mem.disableoom", "mem.usehierarchy", "cpu.shares", "cpu.quota", "cpu.period", "cpu.rtruntime",
              "cpu.rtperiod", "cpu.cpus", "cpu.mems", "pids", "blockio", "rdt", "cgpath", "oom"]
UPD_FIELDS = [f for f in ALL_FIELDS if f not in ("cgpath", "oom")]

INVARIANTS = "CombinedEquiv NoSilentJoin LedgerSound NoFalseConflict UpdLedger"

# which Gen modes exercise which property (every mode is checked against every label;
# a property's check only *reports* labels carrying its own id)
CREATE_MODES = ["ann", "env", "mnt", "dev", "args", "scalar", "rlim", "cdi", "hp", "uni", "hooks"]
UPD_MODES = ["upd", "upd2", "updkeyed"]
PROP_MODES = {
    "C01": CREATE_MODES + UPD_MODES,
    "C02": CREATE_MODES + UPD_MODES,
    "C03": CREATE_MODES,
    "C04": CREATE_MODES + ["upd", "updkeyed"],
    "C05": UPD_MODES,
    "ADJ": CREATE_MODES + UPD_MODES,   # development: all labels of all five properties
}


def mode_configs(prop, tier, sd):
    """List of (name, Mode, NP, NK, Fields) for TLC."""
    cfgs = []
    modes = PROP_MODES[prop]
    thorough = tier == "thorough"
    for m in modes:
        if m in ("ann", "env", "mnt", "dev"):
            if thorough:
                cfgs.append((m + "-2k3p", m, 3, 2, []))
                cfgs.append((m + "-1k4p", m, 4, 1, []))
            else:
                cfgs.append((m + "-2k2p", m, 2, 2, []))
                cfgs.append((m + "-1k3p", m, 3, 1, []))
        elif m == "args":
            cfgs.append(("args", m, 4 if thorough else 3, 1, []))
        elif m in ("rlim", "cdi", "hp", "uni"):
            cfgs.append((m, m, 3, 2, []))
        elif m == "hooks":
            cfgs.append((m, m, 3, 1, []))
        elif m == "scalar":
            # every field alone, and pairs: cyclic neighbours (quick) / all pairs (thorough)
            n = len(ALL_FIELDS)
            pairs = []
            if thorough:
                pairs = [(ALL_FIELDS[i], ALL_FIELDS[j]) for i in range(n) for j in range(i + 1, n)]
            else:
                off = 1 + sd % (n - 1)
                pairs = [(ALL_FIELDS[i], ALL_FIELDS[(i + off) % n]) for i in range(n)]
            for a, b in pairs:
                cfgs.append(("scalar-%s+%s" % (a, b), m, 3, 1, [a, b]))
        elif m == "upd":
            n = len(UPD_FIELDS)
            if thorough:
                pairs = [(UPD_FIELDS[i], UPD_FIELDS[(i + o) % n]) for i in range(n) for o in (1, 5)]
                np_ = 3
            else:
                off = 1 + sd % (n - 1)
                pairs = [(UPD_FIELDS[i], UPD_FIELDS[(i + off) % n]) for i in range(0, n, 2)]
                pairs.append(("pids", "cpu.shares"))
                np_ = 2
            for a, b in pairs:
                cfgs.append(("upd-%s+%s" % (a, b), m, np_, 1, [a, b]))
            if not thorough:
                cfgs.append(("upd-3p", m, 3, 1, ["pids"]))
        elif m == "upd2":
            cfgs.append(("upd2", m, 2, 1, ["mem.limit", "pids"]))
            if thorough:
                cfgs.append(("upd2b", m, 2, 1, ["cpu.shares", "rdt"]))
        elif m == "updkeyed":
            cfgs.append(("updkeyed", m, 3 if thorough else 2, 1, []))
    return cfgs


def gen_one(args):
    scratch, (name, mode, np_, nk, fields) = args
    wd = os.path.join(scratch, "gen-" + name.replace("/", "_"))
    cfg = ("SPECIFICATION GSpec\nCONSTANTS\n  Mode = \"%s\"\n  NP = %d\n  NK = %d\n  Fields = {%s}\n"
           "INVARIANTS %s\nCHECK_DEADLOCK FALSE\n") % (
        mode, np_, nk, ", ".join('"%s"' % f for f in fields), INVARIANTS)
    rc, out = vlib.run_tlc(wd, "Gen_Adjust", cfg, workers=2, timeout=1800, java_opts="-Xmx3g -XX:ParallelGCThreads=2")
    if "No error has been found" not in out:
        if vlib.tlc_violation(out):
            raise vlib.ToolFailure("design-level invariant violated in Gen_Adjust (%s): the specification itself "
                                   "is inconsistent\n%s" % (name, vlib.tlc_error_excerpt(out, 60)))
        raise vlib.ToolFailure("Gen_Adjust (%s) failed:\n%s" % (name, vlib.tlc_error_excerpt(out)))
    cases = sorted(set(vlib.tlc_tagged(out, "CASE")))
    gen, dist = vlib.tlc_counts(out)
    return name, cases, gen, dist


def label_sig(label, detail):
    """Signature of a rejection: label plus the fields/items that differ."""
    def flat(x):
        if isinstance(x, list):
            return "+".join(sorted(flat(y) for y in x)) if x else ""
        return str(x)
    try:
        if label == "C04-view" or label == "C04-view-container" or label == "C04-resources":
            return label + "/" + flat(detail[1])
        if label == "C04-combined":
            return label + "/" + flat(detail[0])
        if label == "C03-combined":
            return label + "/" + flat(detail[1])
        if label == "C03-sequential":
            return label + "/" + flat(detail[2])
        if label == "C05-updates":
            fams = sorted(set((it[0] + ":" + it[1]) if it[0] == "res" else it[0] for it in detail[3]))
            return label + "/" + ("+".join(fams) if fams else "structure")
        if label == "C01-unflagged":
            fams = sorted(set((it[0] + ":" + it[1]) if it[0] == "res" else it[0] for it in detail[0]))
            return label + "/" + "+".join(fams)
        if label == "C02-false-conflict":
            txt = detail[0] if detail else ""
            what = txt.split("both tried to set")[-1].strip() if "both tried to set" in txt else "other-error"
            what = what.split(" ")[0] if what.startswith(("annotation", "mount", "device", "env", "CDI", "rlimit", "unified", "hugepage")) else what
            return label + "/" + what.replace(" ", "_")
    except Exception:
        pass
    return label


def run(prop, tier, replay=None):
    t0 = time.time()
    sd = vlib.seed()
    with vlib.Scratch() as sc:
        exe = vlib.build_driver(sc.dir)
        scen_file = sc.path("scenarios.ndjson")
        mc_states = mc_trans = 0
        per_mode = {}
        if replay:
            with open(scen_file, "w") as f:
                f.write(json.dumps(json.load(open(replay))["scenario"]) + "\n")
        else:
            cfgs = mode_configs(prop, tier, sd)
            log("[%s] TLC: %d Gen_Adjust configurations (model checking + scenario emission)" % (prop, len(cfgs)))
            results = vlib.pmap(gen_one, [(sc.dir, c) for c in cfgs], workers=7)
            with open(scen_file, "w") as f:
                for name, cases, gen, dist in results:
                    mc_trans += gen
                    mc_states += dist
                    per_mode[name] = len(cases)
                    for c in cases:
                        f.write(c + "\n")
            # random scenarios outside the small scope
            nrand = 30000 if tier == "thorough" else 4000
            rnd = sc.path("random.ndjson")
            vlib.run_driver(exe, ["adjust-gen", "-n", nrand, "-seed", sd, "-out", rnd])
            with open(scen_file, "a") as f:
                f.write(open(rnd).read())
            per_mode["random"] = nrand
        scenarios = open(scen_file).read().splitlines()
        log("[%s] replaying %d scenarios on the real code (sequential callers)" % (prop, len(scenarios)))
        trace = sc.path("trace.ndjson")
        _, out, _ = vlib.run_driver(exe, ["adjust", "-in", scen_file, "-out", trace, "-seed", sd])
        dstats = json.loads(out.strip().splitlines()[-1])
        traces = [("seq", trace)]
        if not replay:
            # the same scenarios from concurrent callers (several requests in flight)
            trace2 = sc.path("trace-conc.ndjson")
            sub = sc.path("conc.ndjson")
            step = 1 if tier == "thorough" else 3
            with open(sub, "w") as f:
                f.write("\n".join(scenarios[sd % step::step]) + "\n")
            _, out2, _ = vlib.run_driver(exe, ["adjust", "-in", sub, "-out", trace2, "-seed", sd, "-conc", 8])
            traces.append(("conc", trace2))
            conc_index = list(range(sd % step, len(scenarios), step))
        # validate
        bad_all = []
        tstats = collections.Counter()
        nlines = 0
        for tname, tr in traces:
            shards = vlib.split_file(tr, 12, sc.sub("shards-" + tname))
            def val(sh):
                return vlib.validate_trace(sh + ".tlc", "Adjust", sh, java_opts="-Xmx3g -XX:ParallelGCThreads=2")
            # scenario numbers are global (scn field), so shards need no renumbering
            for stats, bad, n in vlib.pmap(val, shards, workers=6):
                for k, v in stats.items():
                    tstats[k] += v
                nlines += n
                for b in bad:
                    b["trace"] = tname
                    bad_all.append(b)
        # rejections relevant to this property
        rejections = []
        other = collections.Counter()
        for b in bad_all:
            for lab in b["labels"]:
                if lab.startswith(prop + "-") or prop == "ADJ":
                    idx = b["scn"] - 1
                    if b["trace"] == "conc":
                        idx = conc_index[idx]
                    rejections.append({"sig": label_sig(lab, b["detail"]), "label": lab, "scn": idx,
                                       "trace": b["trace"], "detail": b["detail"]})
                else:
                    other[lab.split("-")[0]] += 1
        # one replay file per signature (first scenario showing it)
        first = {}
        for r in rejections:
            first.setdefault(r["sig"], r)
        for sig, r in first.items():
            path = vlib.save_replay(prop, sig.replace("/", "_").replace(":", "_").replace("+", "_")[:80],
                                    {"property": prop, "signature": sig, "label": r["label"], "detail": r["detail"],
                                     "mode": r["trace"], "scenario": json.loads(scenarios[r["scn"]]),
                                     "replay_cmd": "./check %s --replay <this file>" % prop})
            r["replay"] = path
        for r in rejections:
            r["replay"] = first[r["sig"]]["replay"]
            r["text"] = "%s detail=%s" % (r["label"], json.dumps(r["detail"])[:200])
        if prop == "ADJ":
            for sig, n in collections.Counter(r["sig"] for r in rejections).most_common():
                log("  %6d  %s" % (n, sig))
        nviol = vlib.verdict(prop, rejections)
        if other:
            log("[%s] note: rejections carrying other properties' labels in this run: %s" % (prop, dict(other)))
        nontrivial = sum(1 for s in scenarios if '"k"' in s or '"target"' in s or '"res":{"' in s)
        samples = []
        for i in (0, len(scenarios) // 2, len(scenarios) - 1):
            if 0 <= i < len(scenarios):
                samples.append(json.loads(scenarios[i]))
        cov = {
            "states": max(mc_states, 1), "transitions": max(mc_trans, 1),
            "traces_validated_against_impl": int(tstats.get("scenarios", 0)),
            "samples": samples[:3],
            "evaluations": len(scenarios), "distinct_nontrivial": len(set(scenarios)),
            "rule": "scenario = (request kind, original container / requested resources, one scripted response per "
                    "plugin); TLC enumerates every scenario of each small alphabet (per-mode counts below) incl. all "
                    "prefixes, a seeded generator adds mixed-family scenarios with up to 6 plugins; distinct = "
                    "distinct scenario records",
            "scenarios_per_mode": per_mode,
            "trace_events_validated": nlines,
            "validation_outcomes": {k: int(v) for k, v in tstats.items() if k != "tlc_states"},
            "trace_spec_states": int(tstats.get("tlc_states", 0)),
            "rejections_for_this_property": len(rejections),
            "known_finding_signatures": sorted(set(r["sig"] for r in rejections)),
            "exhaustive": False,
            "checker_cmd": "tlc Gen_Adjust (INVARIANTS %s); driver adjust; tlc Trace_Adjust" % INVARIANTS,
        }
        vlib.write_evidence(prop, tier, "model_checking", cov, time.time() - t0, nviol, [
            "the concretiser/projection layer (harness/abs) reads the wire conventions correctly",
            "TLC bounds: see scenarios_per_mode; larger inputs are covered by sampled scenarios only",
            "a plugin never writes the same item twice in one response (outside the generated domain)",
        ])
        log("[%s] %s: %d scenarios (%d TLC states), %d trace events validated, %d rejections for %s, %d unlisted; %.0fs"
            % (prop, tier, len(scenarios), mc_states, nlines, len(rejections), prop, nviol, time.time() - t0))
        return 1 if nviol else 0
