---------------------------- MODULE Trace_Adjust ----------------------------
(***************************************************************************)
(* Trace validation for Adjust: every scenario recorded from the real code *)
(* (Begin, one Apply per plugin invoked, End) is replayed through the       *)
(* actions of Adjust.tla; what the plugins were shown and what the runtime  *)
(* got back is compared with the specification's state.  Monitor style:     *)
(* every trace action is total, a mismatch is recorded in `bad` with a      *)
(* label and the rest of the scenario is skipped, so the whole file is      *)
(* always consumed.                                                         *)
(***************************************************************************)
EXTENDS Adjust, Json

CONSTANT TraceFile
Tr == ndJsonDeserialize(TraceFile)

VARIABLES l,      \* next line of the trace
          pl,     \* plugins of the current scenario, in index order
          bad,    \* rejected scenarios: [scn, line, label, detail]
          stats   \* counters (evidence only)

tvars == <<avars, l, pl, bad, stats>>
np == Len(pl)

OciFields == {"ann", "env", "mnt", "dev", "args", "hooks", "rlim", "cdi", "res", "hp", "uni"}
Core(x, F) == [f \in F |-> x[f]]
Diff(x, y, F) == {f \in F : x[f] # y[f]}
ContFields == {"ann", "env", "mnt", "dev", "args", "hooks", "rlim", "res", "hp", "uni"}
ResFields == {"res", "hp", "uni"}

E == Tr[l]

Bump(c) == [stats EXCEPT ![c] = @ + 1]

TraceInit ==
  /\ l = 1 /\ pl = <<>> /\ bad = <<>>
  /\ stats = [scenarios |-> 0, applies |-> 0, conflicts |-> 0, successes |-> 0,
              undetermined |-> 0, rejected |-> 0]
  /\ kind = "none" /\ ownid = "" /\ orig = EmptyContainer /\ reqres = EmptyRes
  /\ cont = EmptyContainer /\ rres = EmptyRes /\ owner = NoOwner /\ taint = {}
  /\ comb = EmptyAdjust /\ upd = [t \in {} |-> EmptyRes] /\ ownch = FALSE
  /\ applied = <<>> /\ err = "" /\ errd = {}

\* a mismatch: remember it and continue with the next scenario
Reject(label, detail) ==
  /\ bad' = Append(bad, [scn |-> E.scn, line |-> l, labels |-> label, detail |-> detail])
  /\ l' = E.nb
  /\ stats' = Bump("rejected")
  /\ UNCHANGED <<avars, pl>>

TBegin ==
  /\ E.ev = "Begin"
  /\ Begin(E.kind, E.own, Core(E.orig, ContFields), Core(E.reqres, ResFields))
  /\ pl' = E.plugins
  /\ l' = l + 1
  /\ stats' = Bump("scenarios")
  /\ UNCHANGED bad

HandlerOf(k) == k   \* the handler that must be invoked is the one named like the request

TApply ==
  /\ E.ev = "Apply"
  /\ IF err = "undetermined"
     THEN /\ l' = l + 1 /\ UNCHANGED <<avars, pl, bad, stats>>
     ELSE IF err \in {"conflict", "updconflict"} THEN Reject({"C01-unflagged"}, <<{<<it[2], it[3]>> : it \in errd}>>)
     ELSE IF err = "selfupdate" THEN Reject({"C05-selfupdate"}, <<E.p>>)
     ELSE IF Len(applied) >= np THEN Reject({"C06-extra-apply"}, <<E.p>>)
     ELSE IF E.p # pl[Len(applied) + 1] THEN Reject({"C06-order"}, <<E.p, pl[Len(applied) + 1]>>)
     ELSE IF E.handler # HandlerOf(kind) THEN Reject({"C06-wrong-handler"}, <<E.handler>>)
     ELSE IF ~E.podok THEN Reject({"C04-pod"}, <<E.p>>)
     ELSE IF kind = "create" /\ Core(E.view, ContFields) # cont
          THEN Reject({"C04-view"}, <<Len(applied) + 1, Diff(E.view, cont, ContFields)>>)
     ELSE IF kind # "create" /\ Core(E.view, ContFields) # orig
          THEN Reject({"C04-view-container"}, <<Len(applied) + 1, Diff(E.view, orig, ContFields)>>)
     ELSE IF kind = "update" /\ Core(E.rview, ResFields) # rres
          THEN Reject({"C04-resources"}, <<Len(applied) + 1, Diff(E.rview, rres, ResFields)>>)
     ELSE /\ Apply(E.p, E.resp.adj, E.resp.upd)
          /\ l' = l + 1
          /\ stats' = Bump("applies")
          /\ UNCHANGED <<pl, bad>>

\* ---- C05: the update list returned to the runtime ----
Content(x) == [res |-> x.res, hp |-> x.hp, uni |-> x.uni]
UpdListOK(U) ==
  LET n    == Len(U)
      isU  == kind = "update"
      body == IF isU /\ n > 0 THEN SubSeq(U, 1, n - 1) ELSE U
      want(t) == IF t \in DOMAIN upd THEN upd[t] ELSE EmptyRes
  IN /\ isU => /\ n >= 1
               /\ IF ownch
                  THEN ~U[n].nil /\ U[n].target = ownid /\ Content(U[n]) = rres
                  ELSE U[n].nil \/ (U[n].target = ownid /\ Content(U[n]) = EmptyRes)
     /\ \A i \in DOMAIN body :
           /\ ~body[i].nil
           /\ isU => body[i].target # ownid
           /\ \A j \in DOMAIN body : body[i].target = body[j].target => i = j
           /\ Content(body[i]) = want(body[i].target)
     /\ \A t \in DOMAIN upd :
           (upd[t] # EmptyRes /\ ~(isU /\ t = ownid)) =>
               \E i \in DOMAIN body : body[i].target = t

\* diagnostics: the <<family, key>> pairs on which the returned entries differ
MapDiff(a, b) == {k \in DOMAIN a \cup DOMAIN b :
                    ~(k \in DOMAIN a /\ k \in DOMAIN b /\ a[k] = b[k])}
UpdDiff(U) ==
  UNION {UNION {{<<f, k>> : k \in MapDiff(U[i][f],
                   (IF IsOwnOfUpdate(U[i].target) THEN (IF ownch THEN rres ELSE EmptyRes)
                    ELSE IF U[i].target \in DOMAIN upd THEN upd[U[i].target] ELSE EmptyRes)[f])} :
                f \in ResFields} : i \in {j \in DOMAIN U : ~U[j].nil}}

Expected == OciFold(ToOci(orig), AdjsOf(applied))

ObsComb == Core(E.comb, DOMAIN EmptyAdjust)
\* device cgroup allow rules "type|major|minor": the devices the final container got from plugins have theirs after
\* either application (the rule of a device that a later plugin removed again is a side effect the property does not
\* speak about: the sequential application leaves it behind, the combined one never adds it - not compared)
SepPosA(v) == SelectSeq([i \in 1..Len(v) |-> i], LAMBDA i : SubSeq(v, i, i) = "|")
Prefix3A(v) == IF Len(SepPosA(v)) >= 3 THEN SubSeq(v, 1, SepPosA(v)[3] - 1) ELSE v
FinalRules == {Prefix3A(ObsComb.dev[i].v) : i \in {j \in DOMAIN ObsComb.dev : ~IsMarked(ObsComb.dev[j].k)}}
RulesOf(x) == {x.devc[i] : i \in DOMAIN x.devc}
EndLabels ==
  (IF ~UpdListOK(E.updates) THEN {"C05-updates"} ELSE {})
  \cup (IF kind # "create" THEN {} ELSE
          (IF E.gerr # "" THEN {"C03-generator-error"} ELSE {})
     \cup (IF NriApply(orig, ObsComb) # cont THEN {"C04-combined"} ELSE {})
     \cup (IF NoSwap(Core(E.fcomb, OciFields)) # NoSwap(Expected) \/ ~SwapOK(E.fcomb, Expected, ToOci(orig))
           THEN {"C03-combined"} ELSE {})
     \cup (IF NoSwap(Core(E.fseq, OciFields)) # NoSwap(Expected) \/ ~SwapOK(E.fseq, Expected, ToOci(orig))
              \/ SwapOf(E.fseq.res) # SwapOf(E.fcomb.res)
           THEN {"C03-sequential"} ELSE {})
     \* the same container includes the order of its mounts (the runtime lists its own mounts in either order)
     \cup (IF E.fcomb.mord # E.fseq.mord THEN {"C03-mount-order"} ELSE {})
     \cup (IF RulesOf(E.fcomb) # FinalRules \/ ~(FinalRules \subseteq RulesOf(E.fseq)) THEN {"C03-device-rules"} ELSE {}))
EndDetail ==
  IF kind # "create" THEN <<{}, {}, {}, UpdDiff(E.updates)>> ELSE
  <<Diff(NriApply(orig, ObsComb), cont, ContFields), Diff(E.fcomb, Expected, OciFields),
    Diff(E.fseq, Expected, OciFields), UpdDiff(E.updates)>>

TEnd ==
  /\ E.ev = "End"
  /\ IF err = "undetermined"
     THEN /\ l' = l + 1 /\ stats' = Bump("undetermined") /\ UNCHANGED <<avars, pl, bad>>
     ELSE IF err \in {"conflict", "updconflict"} /\ ~E.err
          THEN Reject({"C01-unflagged"}, <<{<<it[2], it[3]>> : it \in errd}>>)
     ELSE IF err = "selfupdate" /\ ~E.err THEN Reject({"C05-selfupdate"}, <<>>)
     ELSE IF err = "" /\ E.err THEN Reject({"C02-false-conflict"}, <<E.errtext>>)
     ELSE IF err # ""
          THEN /\ l' = l + 1 /\ stats' = Bump("conflicts") /\ UNCHANGED <<avars, pl, bad>>
     ELSE IF Len(applied) # np THEN Reject({"C06-apply-missing"}, <<Len(applied), np>>)
     ELSE IF EndLabels # {} THEN Reject(EndLabels, EndDetail)
     ELSE /\ l' = l + 1 /\ stats' = Bump("successes") /\ UNCHANGED <<avars, pl, bad>>

TraceNext ==
  /\ l <= Len(Tr)
  /\ (TBegin \/ TApply \/ TEnd)

TraceSpec == TraceInit /\ [][TraceNext]_tvars

\* the whole file has been consumed: print the verdicts for the orchestrator
Done == l > Len(Tr)
Report ==
  Done => /\ PrintT(<<"STATS", ToJson(stats)>>)
          /\ \A i \in DOMAIN bad : PrintT(<<"BAD", ToJson(bad[i])>>)
          /\ PrintT(<<"CONSUMED", l - 1>>)
ReportInv == Report

=============================================================================
