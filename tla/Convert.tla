------------------------------- MODULE Convert -------------------------------
(***************************************************************************)
(* C14: the NRI <-> OCI conversions, resource copies, optional-value        *)
(* constructors and the event-mask name table (pkg/api).  The specification *)
(* is the table of which fields both representations carry and what each    *)
(* function must return; Gen enumerates inputs, Trace_Convert compares the  *)
(* outputs of the real exported functions with these definitions.           *)
(***************************************************************************)
EXTENDS Naturals, Integers, Sequences, FiniteSets, TLC, Json

EmptyMap == [k \in {} |-> ""]
MapOnly(f, S) == [k \in (DOMAIN f) \cap S |-> f[k]]

Int64F  == {"mem.limit", "mem.reservation", "mem.swap", "mem.kernel", "mem.kerneltcp", "cpu.quota", "cpu.rtruntime"}
UInt64F == {"mem.swappiness", "cpu.shares", "cpu.period", "cpu.rtperiod"}
BoolF   == {"mem.disableoom", "mem.usehierarchy"}
StrF    == {"cpu.cpus", "cpu.mems"}
ClassF  == {"blockio", "rdt"}
\* scalar fields both the NRI and the OCI resources carry
OciCommon == Int64F \cup UInt64F \cup BoolF \cup StrF \cup {"pids"}
AllRes == OciCommon \cup ClassF

\* what ToOCI / FromOCI must preserve, and what Copy must preserve
ConvRes(in) == [res |-> MapOnly(in.res.res, OciCommon), hpl |-> in.hpl, uni |-> in.res.uni, devc |-> in.devc]
CopyRes(in) == [res |-> MapOnly(in.res.res, AllRes), hpl |-> in.hpl, uni |-> in.res.uni]

\* event mask name table: position = event number = bit + 1
EventNames == <<"RunPodSandbox", "StopPodSandbox", "RemovePodSandbox", "CreateContainer", "PostCreateContainer",
                "StartContainer", "PostStartContainer", "UpdateContainer", "PostUpdateContainer", "StopContainer",
                "RemoveContainer", "UpdatePodSandbox", "PostUpdatePodSandbox">>
Pow2(n) == LET F[i \in 0..n] == IF i = 0 THEN 1 ELSE 2 * F[i-1] IN F[n]
BitSet(m, i) == (m \div Pow2(i - 1)) % 2 = 1
BitsOf(m) == SelectSeq([i \in 1..13 |-> i], LAMBDA i : BitSet(m, i))
NamesOf(m) == [j \in DOMAIN BitsOf(m) |-> EventNames[BitsOf(m)[j]]]

\* optional constructors: nil maps to unset, a value to exactly that value
NilArgs == {"nilptr", "nilopt", "nil"}

\* ---------------------------------------------------------------- scenarios --
CONSTANTS Mode, MaskLo, MaskHi
VARIABLES sc, emitted

I64Vals == {"0", "1", "-1", "9223372036854775807", "-9223372036854775808", "4096"}
U64Vals == {"0", "1", "18446744073709551615", "1024"}
ValsOf(f) == IF f \in Int64F THEN I64Vals ELSE IF f \in UInt64F THEN U64Vals
             ELSE IF f \in BoolF THEN {"true", "false"} ELSE IF f \in StrF THEN {"0-3"}
             ELSE IF f = "pids" THEN {"0", "5", "-1", "9223372036854775807"} ELSE {"", "cls"}
Typical(f) == IF f \in BoolF THEN "true" ELSE IF f \in StrF THEN "0-3" ELSE IF f \in ClassF THEN "cls" ELSE "7"
Zero(f) == IF f \in BoolF THEN "false" ELSE IF f \in StrF THEN "0" ELSE IF f \in ClassF THEN "" ELSE "0"

ResIn(r, hpl, uni, devc) == [kind |-> "res", res |-> [res |-> r, hp |-> EmptyMap, uni |-> uni], hpl |-> hpl, devc |-> devc]
Hp2 == <<[k |-> "2MB", v |-> "5"], [k |-> "1GB", v |-> "0"]>>
Uni2 == [k \in {"memory.high", "cpu.weight"} |-> "9"]
DevC == <<"true|c|1|3|rwm", "false|b|-|-|r", "true|a|0|-|m">>

ResScenarios ==
       {ResIn([x \in {f} |-> v], <<>>, EmptyMap, <<>>) : f \in AllRes, v \in UNION {ValsOf(g) : g \in AllRes}}
MonoRes == {s \in ResScenarios : \A f \in DOMAIN s.res.res : s.res.res[f] \in ValsOf(f)}
OtherRes ==
       {ResIn(EmptyMap, <<>>, EmptyMap, <<>>), ResIn([f \in AllRes |-> Typical(f)], Hp2, Uni2, DevC),
        ResIn([f \in AllRes |-> Zero(f)], <<>>, EmptyMap, <<>>),
        ResIn(EmptyMap, Hp2, EmptyMap, <<>>), ResIn(EmptyMap, <<>>, Uni2, <<>>), ResIn(EmptyMap, <<>>, EmptyMap, DevC)}
\* every subset of the fields both sides carry (unset vs set-to-zero on each)
SubsetRes == {ResIn([f \in S |-> Zero(f)], <<>>, EmptyMap, <<>>) : S \in SUBSET OciCommon}

CopyParts == {"mem", "cpu", "hp", "uni", "pids", "class"}
CopyScenarios ==
  {[ResIn(r, Hp2, Uni2, <<>>) EXCEPT !.kind = "copy"] @@ [mut |-> <<p>>, side |-> s] :
      r \in {[f \in AllRes |-> Typical(f)], [f \in AllRes |-> Zero(f)], [f \in {"mem.limit", "cpu.shares"} |-> "7"]},
      p \in CopyParts, s \in {"copy", "orig"}}
  \cup {[ResIn(EmptyMap, <<>>, EmptyMap, <<>>) EXCEPT !.kind = "copy"] @@ [mut |-> <<"mem", "uni">>, side |-> "copy"]}

MountScenarios ==
  {[kind |-> "mount", k |-> d, v |-> v] : d \in {"/data", "/a/b c"},
     v \in {"/src|bind|ro,rbind", "|tmpfs|", "/s||rw", "/s|bind|rprivate", "/s|bind|rbind,rprivate,ro,nosuid"}}
DeviceScenarios ==
  {[kind |-> "device", k |-> "/dev/x", v |-> v] :
     v \in {"c|1|3", "b|0|0|0|0|0", "c|254|7|420|-|5", "u|9223372036854775807|-1|4294967295|4294967295|0", "p|1|2|-|7"}}
HookScenarios ==
  {[kind |-> "hook", k |-> st, hook |-> [path |-> "/bin/h", args |-> a, env |-> e, timeout |-> t]] :
     st \in {"prestart", "createRuntime", "createContainer", "startContainer", "poststart", "poststop"},
     a \in {<<>>, <<"h", "--x">>}, e \in {<<>>, <<"A=1", "B=">>}, t \in {"", "0", "5"}}
EnvScenarios == {[kind |-> "env", v |-> v] : v \in {"K=V", "K=", "K=a=b", "PATH=/bin:/usr/bin", "-K=V", "K= v "}}

Ctors == {"String", "Int", "Int32", "UInt32", "Int64", "UInt64", "Bool", "FileMode"}
CtorVals(c) == CASE c = "String" -> {"", "x y"}
                 [] c = "Int" -> {"0", "-5", "9223372036854775807"}
                 [] c = "Int32" -> {"0", "-2147483648", "2147483647"}
                 [] c = "UInt32" -> {"0", "4294967295"}
                 [] c = "Int64" -> {"0", "-9223372036854775808", "9223372036854775807"}
                 [] c = "UInt64" -> {"0", "18446744073709551615"}
                 [] c = "Bool" -> {"true", "false"}
                 [] c = "FileMode" -> {"0", "420", "4294967295"}
OptScenarios ==
  {[kind |-> "optional", ctor |-> c, arg |-> a, val |-> v] :
     c \in Ctors, a \in {"value", "ptr", "opt"} \cup NilArgs, v \in UNION {CtorVals(x) : x \in Ctors}}
OptOK == {s \in OptScenarios : s.val \in CtorVals(s.ctor)}

MaskScenarios == {[kind |-> "mask", mask |-> m] : m \in MaskLo..MaskHi}

Scenarios ==
  CASE Mode = "res"    -> MonoRes \cup OtherRes
    [] Mode = "subset" -> SubsetRes
    [] Mode = "copy"   -> CopyScenarios
    [] Mode = "misc"   -> MountScenarios \cup DeviceScenarios \cup HookScenarios \cup EnvScenarios \cup OptOK
    [] Mode = "mask"   -> MaskScenarios

GInit == sc \in Scenarios /\ emitted = FALSE
GEmit == ~emitted /\ PrintT(<<"CASE", ToJson(sc)>>) /\ emitted' = TRUE /\ UNCHANGED sc
GSpec == GInit /\ [][GEmit]_<<sc, emitted>>

\* the name table is a bijection between mask bits and names (so printing then parsing is the identity)
TableOK == /\ Len(EventNames) = 13
           /\ \A i, j \in 1..13 : i # j => EventNames[i] # EventNames[j]
           /\ \A m \in {0, 1, 4096, 8191, 5461} : Len(NamesOf(m)) = Cardinality({i \in 1..13 : BitSet(m, i)})
=============================================================================
