------------------------------ MODULE MuxTable ------------------------------
(***************************************************************************)
(* C10 / C11, the connection table of one multiplexer end                  *)
(* (pkg/net/multiplex/mux.go Open, conn.Close, reader routing, mux.Close). *)
(*                                                                         *)
(* Open(id) hands out the connection registered for id, creating one if    *)
(* there is none.  Closing a connection handle unregisters its id only if  *)
(* the table still points at this very handle: a handle that was closed    *)
(* and whose id was opened again must not take the new connection with it  *)
(* when it is closed a second time ("closing repeatedly never ... hangs"). *)
(* Frames for an id without a registered connection are dropped.  Closing  *)
(* the multiplexer closes every registered connection.                     *)
(* Guarded = FALSE is the negative control (Close always unregisters).     *)
(***************************************************************************)
EXTENDS Naturals, Sequences, FiniteSets, TLC

CONSTANTS Ids,       \* connection ids
          MaxH,      \* handles ever created
          MaxSent,   \* frames sent by the other end
          Guarded    \* conn.Close() checks that the table still points at the handle

VARIABLES table,     \* id -> handle registered for it (0 = none)
          nh,        \* number of handles created so far (handles are 1..nh)
          hid,       \* handle -> its id
          hst,       \* handle -> "open" | "closed"
          inbox,     \* handle -> frames queued for reading
          sent,      \* frames sent so far (payloads are 1..sent)
          mclosed,   \* the multiplexer is closed
          blocked    \* created WithBlockedRead() and not yet unblocked: the reader has not started

tvarsM == <<table, nh, hid, hst, inbox, sent, mclosed, blocked>>

TInit == /\ table = [i \in Ids |-> 0] /\ nh = 0 /\ hid = <<>> /\ hst = <<>> /\ inbox = <<>>
         /\ sent = 0 /\ mclosed = FALSE /\ blocked \in BOOLEAN

Handles == 1..nh

\* Open(id): the registered connection, or a new one
OpenResult(id) == IF table[id] # 0 THEN table[id] ELSE nh + 1
Open(id) ==
  /\ ~mclosed
  /\ IF table[id] # 0 THEN UNCHANGED <<table, nh, hid, hst, inbox>>
     ELSE /\ nh < MaxH /\ nh' = nh + 1
          /\ table' = [table EXCEPT ![id] = nh + 1]
          /\ hid' = Append(hid, id) /\ hst' = Append(hst, "open") /\ inbox' = Append(inbox, <<>>)
  /\ UNCHANGED <<sent, mclosed, blocked>>

\* conn.Close() on handle h (any number of times)
CloseH(h) ==
  /\ h \in Handles
  /\ hst' = [hst EXCEPT ![h] = "closed"]
  /\ table' = IF table[hid[h]] = h \/ ~Guarded THEN [table EXCEPT ![hid[h]] = 0] ELSE table
  /\ UNCHANGED <<nh, hid, inbox, sent, mclosed, blocked>>

\* Unblock(): the reader starts (once; later calls do nothing)
Unblock == blocked /\ blocked' = FALSE /\ UNCHANGED <<table, nh, hid, hst, inbox, sent, mclosed>>

\* the other end sends a frame for id; the reader routes it
Routed(id) == table[id] # 0
Send(id) ==
  /\ ~mclosed /\ ~blocked /\ sent < MaxSent     \* (what arrives before the reader starts waits in the trunk: not modelled)
  /\ sent' = sent + 1
  /\ inbox' = IF Routed(id) THEN [inbox EXCEPT ![table[id]] = Append(@, sent + 1)] ELSE inbox
  /\ UNCHANGED <<table, nh, hid, hst, mclosed, blocked>>

\* Read on handle h returns: queued data (open handle), an error (closed handle or closed multiplexer;
\* a closed handle with queued data may return either), or blocks (open, nothing queued: not a step)
CanRead(h) == h \in Handles /\ (inbox[h] # <<>> \/ hst[h] = "closed")
ReadData(h) ==
  /\ h \in Handles /\ inbox[h] # <<>>
  /\ inbox' = [inbox EXCEPT ![h] = Tail(@)]
  /\ UNCHANGED <<table, nh, hid, hst, sent, mclosed, blocked>>
ReadErr(h) ==
  /\ h \in Handles /\ hst[h] = "closed"
  /\ UNCHANGED tvarsM

\* mux.Close(): every registered connection is closed - whether or not the reader was ever started
MClose ==
  /\ ~mclosed /\ mclosed' = TRUE
  /\ hst' = [h \in Handles |-> IF table[hid[h]] = h THEN "closed" ELSE hst[h]]
  /\ UNCHANGED <<table, nh, hid, inbox, sent, blocked>>

\* Open(id) once the multiplexer is closed: refused, no connection comes into being.  (D15: the code used to create one
\* that nobody would ever close - LateOpenAsWas, kept as the negative control of NothingOpenAfterClose: TSpecAsWas.)
OpenRefused(id) == mclosed /\ UNCHANGED tvarsM
LateOpenAsWas(id) ==
  /\ mclosed /\ table[id] = 0 /\ nh < MaxH /\ nh' = nh + 1
  /\ table' = [table EXCEPT ![id] = nh + 1]
  /\ hid' = Append(hid, id) /\ hst' = Append(hst, "open") /\ inbox' = Append(inbox, <<>>)
  /\ UNCHANGED <<sent, mclosed, blocked>>

TNext == \/ \E i \in Ids : Open(i) \/ Send(i) \/ OpenRefused(i)
         \/ \E h \in Handles : CloseH(h) \/ ReadData(h) \/ ReadErr(h)
         \/ MClose \/ Unblock
TSpecM == TInit /\ [][TNext]_tvarsM
TSpecAsWas == TInit /\ [][TNext \/ \E i \in Ids : LateOpenAsWas(i)]_tvarsM

\* ------------------------------------------------------------- properties --
\* the connection an application holds open is the one frames are routed to
OpenIsRegistered == \A h \in Handles : hst[h] = "open" => table[hid[h]] = h
\* hence: at most one open handle per id, and closing the multiplexer leaves no handle open (nothing hangs)
OneOpenPerId == \A g, h \in Handles : (hst[g] = "open" /\ hst[h] = "open" /\ hid[g] = hid[h]) => g = h
NothingOpenAfterClose == mclosed => \A h \in Handles : hst[h] = "closed"
\* nothing is delivered twice or to a foreign id
Isolated == \A h \in Handles : \A k \in DOMAIN inbox[h] : inbox[h][k] \in 1..sent
=============================================================================
