------------------------------ MODULE MC_Relay ------------------------------
(***************************************************************************)
(* Small-scope model checking of Relay: runtime goroutines issuing         *)
(* requests (creations inside sync blocks), the sequential accept loop     *)
(* registering plugins, a plugin that may fail at any moment, handler      *)
(* errors, and a plugin issuing an unsolicited update - all interleaved.   *)
(***************************************************************************)
EXTENDS Relay

CONSTANTS Callers,      \* runtime goroutines
          RegOrder,     \* sequence of plugins in the order the accept loop serves them
          PIdx, PMask,  \* plugin -> index / subscription mask
          Failable,     \* plugins that may fail at any time
          Vetoers,      \* plugins whose handler may return an error
          Updater,      \* plugin issuing one unsolicited update ("" = none)
          BadOnes,      \* plugins of RegOrder whose registration is malformed or stalls (C17)
          NReq,         \* requests per caller
          UseBlocks     \* FALSE: the runtime forgets the sync block (negative test)

VARIABLES cpc, cn, regpc, regi, upc, vetoed

mvars == <<rvars, cpc, cn, regpc, regi, upc, vetoed>>

Ctr(c, n) == "x-" \o c \o "-" \o ToString(n)
Rid(c, n) == "r-" \o c \o "-" \o ToString(n)
\* odd requests are creations, even ones a container event
EvOf(n) == IF n % 2 = 1 THEN CREATE ELSE "StartContainer"

MInit ==
  /\ RInit
  /\ cpc = [c \in Callers |-> "idle"] /\ cn = [c \in Callers |-> 1]
  /\ regpc = "idle" /\ regi = 1 /\ upc = "idle" /\ vetoed = [c \in Callers |-> FALSE]

\* ----------------------------------------------------------------- callers --
CBlock(c) ==
  /\ cpc[c] = "idle" /\ cn[c] <= NReq
  /\ IF EvOf(cn[c]) = CREATE /\ UseBlocks
     THEN Block(c) ELSE UNCHANGED rvars
  /\ cpc' = [cpc EXCEPT ![c] = "blocked"]
  /\ UNCHANGED <<cn, regpc, regi, upc, vetoed>>

CLock(c) ==
  /\ cpc[c] = "blocked"
  /\ Lock(c, "request", Rid(c, cn[c]), EvOf(cn[c]), Ctr(c, cn[c]))
  /\ cpc' = [cpc EXCEPT ![c] = "locked"]
  /\ vetoed' = [vetoed EXCEPT ![c] = FALSE]
  /\ UNCHANGED <<cn, regpc, regi, upc>>

CDeliver(c) ==
  /\ cpc[c] = "locked" /\ rlock = c
  /\ \E p \in DOMAIN pst : p \notin dead /\ Deliver(p)
  /\ UNCHANGED <<cpc, cn, regpc, regi, upc, vetoed>>

CVeto(c) ==
  /\ cpc[c] = "locked" /\ rlock = c
  /\ Len(cur.visited) > 0 /\ cur.visited[Len(cur.visited)] \in Vetoers
  /\ Veto
  /\ vetoed' = [vetoed EXCEPT ![c] = TRUE]
  /\ UNCHANGED <<cpc, cn, regpc, regi, upc>>

\* the call to a plugin that failed during this request returns some transport error
CCallError(c) ==
  /\ cpc[c] = "locked" /\ rlock = c
  /\ \E k \in ErrKinds : CallError(k)
  /\ vetoed' = [vetoed EXCEPT ![c] = (cur'.veto = "yes")]
  /\ UNCHANGED <<cpc, cn, regpc, regi, upc>>

CUnlock(c) ==
  /\ cpc[c] = "locked"
  /\ Unlock(c)
  /\ cpc' = [cpc EXCEPT ![c] = "unlocked"]
  /\ UNCHANGED <<cn, regpc, regi, upc, vetoed>>

CStore(c) ==
  /\ cpc[c] = "unlocked"
  /\ IF EvOf(cn[c]) = CREATE /\ ~vetoed[c] THEN StoreAdd(Ctr(c, cn[c])) ELSE UNCHANGED rvars
  /\ cpc' = [cpc EXCEPT ![c] = "stored"]
  /\ UNCHANGED <<cn, regpc, regi, upc, vetoed>>

CUnblock(c) ==
  /\ cpc[c] = "stored"
  /\ IF c \in readers THEN Unblock(c) ELSE UNCHANGED rvars
  /\ cpc' = [cpc EXCEPT ![c] = "idle"] /\ cn' = [cn EXCEPT ![c] = @ + 1]
  /\ UNCHANGED <<regpc, regi, upc, vetoed>>

\* ------------------------------------------------------------- accept loop --
RP == RegOrder[regi]
\* a malformed or stalling registration costs the accept loop at most one timeout and is dropped
RReject ==
  /\ regpc = "idle" /\ regi <= Len(RegOrder) /\ RP \in BadOnes
  /\ regi' = regi + 1
  /\ UNCHANGED <<rvars, cpc, cn, regpc, upc, vetoed>>
RWant ==
  /\ regpc = "idle" /\ regi <= Len(RegOrder) /\ RP \notin BadOnes
  /\ WantSync(RP, PIdx[RP], PMask[RP])
  /\ regpc' = "want" /\ UNCHANGED <<cpc, cn, regi, upc, vetoed>>
RGot ==
  /\ regpc = "want" /\ GotSync(RP)
  /\ regpc' = "excl" /\ UNCHANGED <<cpc, cn, regi, upc, vetoed>>
RSnap ==
  /\ regpc = "excl"
  /\ \/ Snapshot(RP, store) /\ regpc' = "synced"
     \/ RP \in Failable /\ SyncFailed(RP) /\ regpc' = "finish"
  /\ UNCHANGED <<cpc, cn, regi, upc, vetoed>>
RLock ==
  /\ regpc = "synced" /\ Lock(RP, "register", "", "", "")
  /\ regpc' = "locked" /\ UNCHANGED <<cpc, cn, regi, upc, vetoed>>
RActivate ==
  /\ regpc = "locked"
  /\ \E n \in Len(Prune(active))..(Len(active) + 1) :
        \E order \in [1..n -> SeqSet(active) \cup {RP}] : Activate(RP, order)
  /\ regpc' = "activated" /\ UNCHANGED <<cpc, cn, regi, upc, vetoed>>
RUnlock ==
  /\ regpc = "activated" /\ Unlock(RP)
  /\ regpc' = "finish" /\ UNCHANGED <<cpc, cn, regi, upc, vetoed>>
RFinish ==
  /\ regpc = "finish" /\ FinishSync(RP)
  /\ regpc' = "idle" /\ regi' = regi + 1 /\ UNCHANGED <<cpc, cn, upc, vetoed>>

\* ---------------------------------------------------------------- failures --
Fail ==
  /\ \E p \in Failable : Known(p) /\ PluginClosed(p)
  /\ UNCHANGED <<cpc, cn, regpc, regi, upc, vetoed>>

\* ------------------------------------------------------ unsolicited update --
ULock ==
  /\ upc = "idle" /\ Updater # "" /\ Known(Updater) /\ pst[Updater] = "active"
  /\ Lock("u-" \o Updater, "update", "", "", "")
  /\ upc' = "locked" /\ UNCHANGED <<cpc, cn, regpc, regi, vetoed>>
UCallback ==
  /\ upc = "locked" /\ rlock = "u-" \o Updater /\ cur.op = "update"   \* the callback runs under the lock
  /\ upc' = "called" /\ UNCHANGED <<rvars, cpc, cn, regpc, regi, vetoed>>
UUnlock ==
  /\ upc = "called" /\ Unlock("u-" \o Updater)
  /\ upc' = "done" /\ UNCHANGED <<cpc, cn, regpc, regi, vetoed>>

MNext ==
  \/ \E c \in Callers : CBlock(c) \/ CLock(c) \/ CDeliver(c) \/ CVeto(c) \/ CCallError(c) \/ CUnlock(c) \/ CStore(c)
                         \/ CUnblock(c)
  \/ RReject \/ RWant \/ RGot \/ RSnap \/ RLock \/ RActivate \/ RUnlock \/ RFinish
  \/ Fail \/ ULock \/ UCallback \/ UUnlock

Fairness ==
  /\ \A c \in Callers : WF_mvars(CBlock(c) \/ CLock(c) \/ CDeliver(c) \/ CUnlock(c) \/ CStore(c) \/ CUnblock(c))
  /\ WF_mvars(RReject \/ RWant \/ RGot \/ RSnap \/ RLock \/ RActivate \/ RUnlock \/ RFinish)
  /\ WF_mvars(ULock \/ UCallback \/ UUnlock)

MSpec == MInit /\ [][MNext]_mvars /\ Fairness

\* ------------------------------------------------------------- properties --
\* a subscribed, live plugin in the list gets each completed, un-vetoed request exactly once
Delivered ==
  \A c \in Callers :
     (cpc[c] = "locked" /\ rlock = c /\ RelayDone /\ cur.veto = "no") =>
        \A k \in DOMAIN cur.plist :
           LET p == cur.plist[k] IN
           (cur.ev \in mask[p] /\ p \notin dead) =>
              Cardinality({i \in DOMAIN cur.visited : cur.visited[i] = p}) = 1
\* only subscribed plugins are invoked, in index order
VisitedOK ==
  /\ \A i \in DOMAIN cur.visited : cur.ev \in mask[cur.visited[i]]
  /\ \A i, j \in DOMAIN cur.visited : i < j => idx[cur.visited[i]] <= idx[cur.visited[j]]
\* the update callback never overlaps a request
CallbackExclusive == upc = "called" => (rlock = "u-" \o Updater /\ \A c \in Callers : cpc[c] # "locked")
\* C17: a plugin whose registration was malformed is never synchronized, activated or invoked
OnlyWellFormed == \A p \in BadOnes : ~Known(p) /\ p \notin SeqSet(active)
\* liveness: every caller finishes its script, every registration ends
AllDone == <>(\A c \in Callers : cn[c] > NReq)
RegsEnd == <>(regi > Len(RegOrder))

=============================================================================
