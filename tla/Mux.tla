-------------------------------- MODULE Mux --------------------------------
(***************************************************************************)
(* The connection multiplexer (pkg/net/multiplex/mux.go), one direction:    *)
(* writers at one end frame their messages (header + payload, oversized     *)
(* messages as several frames) onto the trunk under the write lock; the     *)
(* reader at the other end parses frames and queues them per logical        *)
(* connection; consumers read the queues.  Faults: the trunk is cut, either *)
(* end is closed, a queue overflows (which closes everything).              *)
(*                                                                          *)
(* C10: WellFormed, PrefixInv, Complete.   C11: FailStop, AfterClose.       *)
(***************************************************************************)
EXTENDS Naturals, Sequences, FiniteSets, TLC, SequencesExt

CONSTANTS Writers,      \* writer processes
          ConnOf,       \* writer -> connection id
          Msgs,         \* writer -> sequence of messages; a message = number of frames (chunks)
          QLen,         \* receive queue length
          UseLock,      \* FALSE: negative control, no write lock
          Faults        \* subset of {"cut", "closeA", "closeB"} that may happen

Conns == {ConnOf[w] : w \in Writers}

VARIABLES wl,      \* holder of the write lock ("" = free)
          wpc,     \* writer -> "idle" | "locked" | "hdr" | "done" | "failed"
          wm, wk,  \* writer -> current message / chunk number
          trunk,   \* sequence of units on the wire: <<"H", frame>> or <<"P", frame>>
          rpc,     \* reader: "hdr" | "pay" | "stopped"
          rcur,    \* frame whose header the reader has parsed
          q,       \* conn -> queued frames
          rcvd,    \* conn -> frames handed to the consumer
          sent,    \* conn -> frames in the order their headers entered the trunk (ghost)
          cut, closedA, closedB, err,
          cerr     \* conn -> the consumer has been told about the failure

mvars == <<wl, wpc, wm, wk, trunk, rpc, rcur, q, rcvd, sent, cut, closedA, closedB, err, cerr>>

Frame(w) == <<w, wm[w], wk[w]>>

MInit ==
  /\ wl = "" /\ wpc = [w \in Writers |-> "idle"] /\ wm = [w \in Writers |-> 1] /\ wk = [w \in Writers |-> 1]
  /\ trunk = <<>> /\ rpc = "hdr" /\ rcur = <<>>
  /\ q = [c \in Conns |-> <<>>] /\ rcvd = [c \in Conns |-> <<>>] /\ sent = [c \in Conns |-> <<>>]
  /\ cut = FALSE /\ closedA = FALSE /\ closedB = FALSE /\ err = FALSE /\ cerr = [c \in Conns |-> FALSE]

Broken == cut \/ closedA \/ closedB

\* ----------------------------------------------------------------- writers --
WLock(w) ==
  /\ wpc[w] = "idle" /\ wm[w] <= Len(Msgs[w])
  /\ UseLock => wl = ""
  /\ wl' = IF UseLock THEN w ELSE wl
  /\ wpc' = [wpc EXCEPT ![w] = "locked"]
  /\ UNCHANGED <<wm, wk, trunk, rpc, rcur, q, rcvd, sent, cut, closedA, closedB, err, cerr>>

WHdr(w) ==
  /\ wpc[w] = "locked"
  /\ IF Broken
     THEN /\ wpc' = [wpc EXCEPT ![w] = "failed"] /\ wl' = IF wl = w THEN "" ELSE wl
          /\ UNCHANGED <<trunk, sent>>
     ELSE /\ trunk' = Append(trunk, <<"H", Frame(w)>>)
          /\ sent' = [sent EXCEPT ![ConnOf[w]] = Append(@, Frame(w))]
          /\ wpc' = [wpc EXCEPT ![w] = "hdr"] /\ UNCHANGED wl
  /\ UNCHANGED <<wm, wk, rpc, rcur, q, rcvd, cut, closedA, closedB, err, cerr>>

WPay(w) ==
  /\ wpc[w] = "hdr"
  /\ IF Broken
     THEN /\ wpc' = [wpc EXCEPT ![w] = "failed"] /\ wl' = IF wl = w THEN "" ELSE wl
          /\ UNCHANGED <<trunk, wm, wk>>
     ELSE /\ trunk' = Append(trunk, <<"P", Frame(w)>>)
          /\ IF wk[w] < Msgs[w][wm[w]]
             THEN wk' = [wk EXCEPT ![w] = @ + 1] /\ wpc' = [wpc EXCEPT ![w] = "locked"] /\ UNCHANGED <<wm, wl>>
             ELSE /\ wk' = [wk EXCEPT ![w] = 1] /\ wm' = [wm EXCEPT ![w] = @ + 1]
                  /\ wpc' = [wpc EXCEPT ![w] = "idle"] /\ wl' = IF wl = w THEN "" ELSE wl
  /\ UNCHANGED <<rpc, rcur, q, rcvd, sent, cut, closedA, closedB, err, cerr>>

\* ------------------------------------------------------------------ reader --
RHdr ==
  /\ rpc = "hdr" /\ ~closedB /\ Len(trunk) > 0
  /\ rcur' = Head(trunk)[2] /\ trunk' = Tail(trunk) /\ rpc' = "pay"
  /\ UNCHANGED <<wl, wpc, wm, wk, q, rcvd, sent, cut, closedA, closedB, err, cerr>>

RPay ==
  /\ rpc = "pay" /\ ~closedB /\ Len(trunk) > 0
  /\ trunk' = Tail(trunk)
  /\ LET c == ConnOf[rcur[1]] IN
     IF Len(q[c]) < QLen
     THEN q' = [q EXCEPT ![c] = Append(@, Head(trunk)[2])] /\ rpc' = "hdr" /\ UNCHANGED <<err, closedB>>
     ELSE err' = TRUE /\ closedB' = TRUE /\ rpc' = "stopped" /\ UNCHANGED q   \* overflow closes everything
  /\ UNCHANGED <<wl, wpc, wm, wk, rcur, rcvd, sent, cut, closedA, cerr>>

\* the trunk ends (cut, or the peer closed and everything was consumed): the reader stops
REof ==
  /\ rpc \in {"hdr", "pay"} /\ ~closedB /\ Len(trunk) = 0 /\ (cut \/ closedA)
  /\ closedB' = TRUE /\ rpc' = "stopped"
  /\ UNCHANGED <<wl, wpc, wm, wk, trunk, rcur, q, rcvd, sent, cut, closedA, err, cerr>>

\* --------------------------------------------------------------- consumers --
\* after a close a read returns a frame that was already queued, or the error
CRead(c) ==
  /\ Len(q[c]) > 0
  /\ rcvd' = [rcvd EXCEPT ![c] = Append(@, Head(q[c]))] /\ q' = [q EXCEPT ![c] = Tail(@)]
  /\ UNCHANGED <<wl, wpc, wm, wk, trunk, rpc, rcur, sent, cut, closedA, closedB, err, cerr>>

CError(c) ==
  /\ closedB /\ ~cerr[c]
  /\ cerr' = [cerr EXCEPT ![c] = TRUE]
  /\ UNCHANGED <<wl, wpc, wm, wk, trunk, rpc, rcur, q, rcvd, sent, cut, closedA, closedB, err>>

\* ------------------------------------------------------------------ faults --
Cut ==
  /\ "cut" \in Faults /\ ~cut
  /\ cut' = TRUE /\ \E n \in 0..Len(trunk) : trunk' = SubSeq(trunk, 1, n)   \* what was not yet delivered may be lost
  /\ UNCHANGED <<wl, wpc, wm, wk, rpc, rcur, q, rcvd, sent, closedA, closedB, err, cerr>>
CloseA ==
  /\ "closeA" \in Faults /\ ~closedA /\ closedA' = TRUE
  /\ UNCHANGED <<wl, wpc, wm, wk, trunk, rpc, rcur, q, rcvd, sent, cut, closedB, err, cerr>>
CloseB ==
  /\ "closeB" \in Faults /\ ~closedB /\ closedB' = TRUE /\ rpc' = "stopped"
  /\ UNCHANGED <<wl, wpc, wm, wk, trunk, rcur, q, rcvd, sent, cut, closedA, err, cerr>>

MNext == \/ \E w \in Writers : WLock(w) \/ WHdr(w) \/ WPay(w)
         \/ RHdr \/ RPay \/ REof
         \/ \E c \in Conns : CRead(c) \/ CError(c)
         \/ Cut \/ CloseA \/ CloseB

MSpec == MInit /\ [][MNext]_mvars
         /\ WF_mvars(RHdr \/ RPay \/ REof)
         /\ \A c \in Conns : WF_mvars(CRead(c)) /\ WF_mvars(CError(c))
         /\ \A w \in Writers : WF_mvars(WLock(w) \/ WHdr(w) \/ WPay(w))

\* -------------------------------------------------------------- properties --
\* every payload unit directly follows its own header
WellFormed ==
  \A i \in 1..Len(trunk) : trunk[i][1] = "P" =>
     \/ (i > 1 /\ trunk[i-1] = <<"H", trunk[i][2]>>)
     \/ (i = 1 /\ rpc \in {"pay", "stopped"} /\ rcur = trunk[i][2])
     \/ cut
\* what a consumer got plus what is queued for it is a prefix of what was sent on its connection
PrefixInv == \A c \in Conns : IsPrefix(rcvd[c] \o q[c], sent[c])
\* a frame the reader parsed belongs to the connection its header named
Isolated == \A c \in Conns : \A i \in DOMAIN q[c] : ConnOf[q[c][i][1]] = c
\* nothing is lost without a fault
Quiescent == /\ \A w \in Writers : wpc[w] = "idle" /\ wm[w] > Len(Msgs[w])
             /\ trunk = <<>> /\ \A c \in Conns : q[c] = <<>>
Complete == (Quiescent /\ ~Broken /\ ~err) => \A c \in Conns : rcvd[c] = sent[c]
\* each writer's frames reach the trunk in order, chunks of one message contiguous on their connection
ChunksContiguous ==
  \A c \in Conns : \A i \in 1..(Len(sent[c]) - 1) :
     LET f == sent[c][i]  g == sent[c][i+1] IN
     f[3] < Msgs[f[1]][f[2]] => (g[1] = f[1] /\ g[2] = f[2] /\ g[3] = f[3] + 1)
\* C11 liveness: after the receiving end is closed every consumer learns of it, writers do not stay blocked
AfterClose == \A c \in Conns : (closedB ~> cerr[c])
WritersEnd == \A w \in Writers : <>(wpc[w] \in {"idle", "failed"} /\ (wpc[w] = "idle" => wm[w] > Len(Msgs[w]) \/ Broken))

=============================================================================
