----------------------------- MODULE Gen_Legacy -----------------------------
(* X05 scenarios: every chain of up to MaxLen plugins over the behaviours (mode "chains"), every request shape with
   a chain of two (mode "requests"); the terminal state of each behaviour is printed with the expected outcome. *)
EXTENDS Legacy, Json

CONSTANTS Mode, MaxLen
VARIABLES req, emitted
gvars == <<cvars, req, emitted>>

Seqs(S, n) == UNION {[1..k -> S] : k \in 0..n}
ChainSet == IF Mode = "skel" THEN {<<>>} ELSE IF Mode = "chains" THEN Seqs(Behaviours \ {"hang"}, MaxLen) \cup {<<"hang">>, <<"ok", "hang", "ok">>}
            ELSE {<<"ok", "ok">>, <<"ok", "error">>}
Reqs == IF Mode = "skel" THEN {[kind |-> "skel", args |-> a, stdin |-> i, beh |-> b] : a \in SkelArgs, i \in SkelStdin, b \in SkelBeh}
        ELSE IF Mode = "chains" THEN {[state |-> "create", sandbox |-> "other", spec |-> "linux", pid |-> 42]}
        ELSE {[state |-> s, sandbox |-> sb, spec |-> k, pid |-> p] : s \in States, sb \in SandboxKinds, k \in SpecKinds, p \in {0, 42}}

GInit == /\ chain \in ChainSet /\ pos = 1 /\ acc = <<>> /\ seen = <<>>
         /\ outcome = IF Len(chain) = 0 THEN "ok" ELSE "running"
         /\ req \in Reqs /\ emitted = FALSE
GStep == ~emitted /\ Invoke /\ UNCHANGED <<req, emitted>>
GEmit == /\ ~emitted /\ outcome # "running"
         /\ PrintT(<<"CASE", ToJson([chain |-> chain, req |-> req, outcome |-> outcome, blamed |-> Blamed,
                                     returned |-> Returned, seen |-> seen])>>)
         /\ emitted' = TRUE /\ UNCHANGED <<cvars, req>>
GSpec == GInit /\ [][GStep \/ GEmit]_gvars /\ WF_gvars(GStep \/ GEmit)
Emitted == <>emitted
=============================================================================
