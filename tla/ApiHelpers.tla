------------------------------ MODULE ApiHelpers ------------------------------
(***************************************************************************)
(* X04 (beyond the listed properties): small exported helpers of pkg/api   *)
(* that plugins use: ParseEventMask with its shorthands, the removal       *)
(* marker functions, Mount.Cmp / LinuxDevice.Cmp, Hooks.Append / Hooks().  *)
(* A function table: Gen enumerates inputs, Trace_ApiHelpers compares the  *)
(* real results.  The Cmp functions are specified as their documentation   *)
(* says ("returns true if the ... are equal"); the code differs (findings).*)
(***************************************************************************)
EXTENDS Naturals, Sequences, FiniteSets, TLC, Json

Events == <<"RunPodSandbox", "StopPodSandbox", "RemovePodSandbox", "CreateContainer", "PostCreateContainer",
            "StartContainer", "PostStartContainer", "UpdateContainer", "PostUpdateContainer", "StopContainer",
            "RemoveContainer", "UpdatePodSandbox", "PostUpdatePodSandbox">>
EventSet == {Events[i] : i \in DOMAIN Events}
PodEvents == {"RunPodSandbox", "StopPodSandbox", "RemovePodSandbox", "UpdatePodSandbox", "PostUpdatePodSandbox"}
CtrEvents == EventSet \ PodEvents

\* ParseEventMask: a token is [w, style]; w is an event name, a shorthand (all / pod / podsandbox / container),
\* "" (an empty list element) or "bogus"; style is how it is spelt: lower, camel, upper, or padded with blanks.
\* Event names are looked up case-insensitively after trimming blanks; the shorthands are matched untrimmed.
Shorthands == {"all", "pod", "podsandbox", "container"}
Meaning(t) ==
  IF t.w \in Shorthands
  THEN IF t.style = "padded" THEN [ok |-> FALSE, ev |-> {}]           \* " all " is looked up as an event name: unknown
       ELSE [ok |-> TRUE, ev |-> CASE t.w = "all" -> EventSet [] t.w = "container" -> CtrEvents [] OTHER -> PodEvents]
  ELSE IF t.w \in EventSet THEN [ok |-> TRUE, ev |-> {t.w}]
  ELSE [ok |-> FALSE, ev |-> {}]                                      \* "" and anything else
ParseExp(toks) == IF \E i \in DOMAIN toks : ~Meaning(toks[i]).ok THEN [ok |-> FALSE, ev |-> {}]
                  ELSE [ok |-> TRUE, ev |-> UNION {Meaning(toks[i]).ev : i \in DOMAIN toks}]

\* removal markers
IsMarked(k) == Len(k) > 0 /\ SubSeq(k, 1, 1) = "-"
MarkExp(k) == [marked |-> IsMarked(k), key |-> IF IsMarked(k) THEN SubSeq(k, 2, Len(k)) ELSE k,
               mark |-> "-" \o k, clear |-> IF IsMarked(k) THEN SubSeq(k, 2, Len(k)) ELSE k]

\* Cmp as documented: equality (mount options as a multiset - the code sorts them before comparing)
Count(s, x) == Cardinality({i \in DOMAIN s : s[i] = x})
SameBag(a, b) == Len(a) = Len(b) /\ \A i \in DOMAIN a : Count(a, a[i]) = Count(b, a[i])
MountEq(m, v) == m.dest = v.dest /\ m.type = v.type /\ m.src = v.src /\ SameBag(m.opts, v.opts)
DeviceEq(d, v) == d.major = v.major /\ d.minor = v.minor

\* ParsePluginName (names of pre-installed plugins, C18; indices of external ones, C17): "<idx>-<base>", split at the
\* FIRST dash; the index is exactly two decimal digits; the base is whatever follows (it may be empty or contain dashes)
Digits == {"0", "1", "2", "3", "4", "5", "6", "7", "8", "9"}
IdxOK(i) == Len(i) = 2 /\ SubSeq(i, 1, 1) \in Digits /\ SubSeq(i, 2, 2) \in Digits
DashAt(n) == {i \in 1..Len(n) : SubSeq(n, i, i) = "-"}
Min(S) == CHOOSE x \in S : \A y \in S : x <= y
NameExp(n) ==
  IF DashAt(n) = {} THEN [ok |-> FALSE, idx |-> "", base |-> ""]
  ELSE LET d == Min(DashAt(n))  i == SubSeq(n, 1, d - 1) IN
       IF IdxOK(i) THEN [ok |-> TRUE, idx |-> i, base |-> SubSeq(n, d + 1, Len(n))] ELSE [ok |-> FALSE, idx |-> "", base |-> ""]

\* EventMask as a set of events: Set / Clear / IsSet, and PrettyString - the names in bit order (the order of Events),
\* comma separated, which ParseEventMask reads back to the same mask; a bit beyond the last event is printed as unknown(0x..)
\* and is not readable again.  Bit 14 is the position of the sentinel Event_LAST: not an event (ValidEvents ends at bit 13)
MaskExp(set, clr) == set \ clr
PrettyExp(m) == SelectSeq(Events, LAMBDA e : e \in m)

\* ---------------------------------------------------------------- scenarios --
CONSTANT Mode
VARIABLES sc, emitted

Tok(w, s) == [w |-> w, style |-> s]
Styles == {"lower", "camel", "upper", "padded"}
OneTok == {Tok(w, s) : w \in {"CreateContainer", "RunPodSandbox", "PostUpdatePodSandbox"} \cup Shorthands \cup {"", "bogus"}, s \in Styles}
\* one token; two tokens in one argument (comma separated) or in two arguments; three
ParseScen ==
     {[kind |-> "parse", toks |-> <<t>>, split |-> <<1>>] : t \in OneTok}
  \cup {[kind |-> "parse", toks |-> <<a, b>>, split |-> sp] :
          a \in {Tok("CreateContainer", "camel"), Tok("pod", "lower"), Tok("StopContainer", "padded")},
          b \in {Tok("RemoveContainer", "upper"), Tok("container", "upper"), Tok("", "lower"), Tok("bogus", "lower"), Tok("all", "lower")},
          sp \in {<<2>>, <<1, 1>>}}
  \cup {[kind |-> "parse", toks |-> <<>>, split |-> <<>>]}
MarkScen == {[kind |-> "marker", key |-> k] : k \in {"", "-", "-k", "k", "--k", "k-", "-a/b"}}
Mnt(d, t, s, o) == [dest |-> d, type |-> t, src |-> s, opts |-> o]
Mounts == {Mnt("/m", "bind", "/s", <<"ro", "rbind">>), Mnt("/m", "bind", "/s", <<"rbind", "ro">>), Mnt("/m", "bind", "/s", <<"rw", "rbind">>),
           Mnt("/m", "bind", "/s", <<"ro">>), Mnt("/m", "tmpfs", "/s", <<"ro", "rbind">>), Mnt("/x", "bind", "/s", <<"ro", "rbind">>),
           Mnt("/m", "bind", "/s", <<"ro", "ro">>), Mnt("/m", "bind", "/s", <<>>)}
CmpMountScen == {[kind |-> "cmp-mount", a |-> a, b |-> b] : a \in Mounts, b \in Mounts}
Dev(mj, mn) == [major |-> mj, minor |-> mn]
Devs == {Dev(1, 3), Dev(1, 5), Dev(8, 3), Dev(0, 0)}
CmpDevScen == {[kind |-> "cmp-device", a |-> a, b |-> b] : a \in Devs, b \in Devs}
HookSets == {<<>>, <<"h1">>, <<"h2", "h3">>}
HooksScen == {[kind |-> "hooks", a |-> [prestart |-> x, poststop |-> y], b |-> [prestart |-> u, poststop |-> v]] :
                x \in HookSets, y \in {<<>>, <<"h9">>}, u \in HookSets, v \in {<<>>, <<"h8">>}}

NameScen == {[kind |-> "plugin-name", key |-> k] :
               k \in {"00-a", "99-logger", "10-a-b", "05-", "5-a", "005-a", "a5-x", "5a-x", "-5-a", "10", "10_a", "", "-", "--", "1 -a", "10--a",
                      "10-a/b", "ARABIC-a", "10-a.b"}}   \* ARABIC-a: the driver spells the index with two Arabic-Indic digits
MaskSubsets == {{}, {"RunPodSandbox"}, {"PostUpdatePodSandbox"}, {"CreateContainer", "StopContainer"}, PodEvents, CtrEvents, EventSet,
                EventSet \ {"UpdateContainer"}}
MaskScen == {[kind |-> "mask", set |-> PrettyExp(a), clr |-> PrettyExp(b), extra |-> x] :
               a \in MaskSubsets, b \in MaskSubsets, x \in {"none", "b20", "b14"}}
Scenarios == CASE Mode = "parse" -> ParseScen [] Mode = "misc" -> MarkScen \cup CmpDevScen \cup HooksScen \cup NameScen
               [] Mode = "mask" -> MaskScen
               [] Mode = "mounts" -> CmpMountScen
GInit == sc \in Scenarios /\ emitted = FALSE
GEmit == ~emitted /\ PrintT(<<"CASE", ToJson(sc)>>) /\ emitted' = TRUE /\ UNCHANGED sc
GSpec == GInit /\ [][GEmit]_<<sc, emitted>>

\* design-level facts
ShorthandsPartition == PodEvents \cup CtrEvents = EventSet /\ PodEvents \cap CtrEvents = {}
CmpIsEquivalence == \A a, b \in Mounts : MountEq(a, b) = MountEq(b, a)
\* PrettyString and ParseEventMask are inverse on valid masks (in the model: the names parse, one by one, to the same set)
PrettyParses == \A m \in MaskSubsets : ParseExp([i \in DOMAIN PrettyExp(m) |-> Tok(PrettyExp(m)[i], "camel")]) = [ok |-> TRUE, ev |-> m]
NameSplitsBack == \A s \in NameScen : NameExp(s.key).ok => NameExp(s.key).idx \o "-" \o NameExp(s.key).base = s.key
=============================================================================
