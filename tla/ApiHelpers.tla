------------------------------ MODULE ApiHelpers ------------------------------
(***************************************************************************)
(* X04 (beyond the listed properties): small exported helpers of pkg/api   *)
(* that plugins use: ParseEventMask with its shorthands, the removal       *)
(* marker functions, Mount.Cmp / LinuxDevice.Cmp, Hooks.Append / Hooks().  *)
(* A function table: Gen enumerates inputs, Trace_ApiHelpers compares the  *)
(* real results.  The Cmp functions are specified as their documentation   *)
(* says ("returns true if the ... are equal"); the code differs (findings).*)
(***************************************************************************)
EXTENDS Naturals, Sequences, FiniteSets, TLC, Json

Events == <<"RunPodSandbox", "StopPodSandbox", "RemovePodSandbox", "CreateContainer", "PostCreateContainer",
            "StartContainer", "PostStartContainer", "UpdateContainer", "PostUpdateContainer", "StopContainer",
            "RemoveContainer", "UpdatePodSandbox", "PostUpdatePodSandbox">>
EventSet == {Events[i] : i \in DOMAIN Events}
PodEvents == {"RunPodSandbox", "StopPodSandbox", "RemovePodSandbox", "UpdatePodSandbox", "PostUpdatePodSandbox"}
CtrEvents == EventSet \ PodEvents

\* ParseEventMask: a token is [w, style]; w is an event name, a shorthand (all / pod / podsandbox / container),
\* "" (an empty list element) or "bogus"; style is how it is spelt: lower, camel, upper, or padded with blanks.
\* Event names are looked up case-insensitively after trimming blanks; the shorthands are matched untrimmed.
Shorthands == {"all", "pod", "podsandbox", "container"}
Meaning(t) ==
  IF t.w \in Shorthands
  THEN IF t.style = "padded" THEN [ok |-> FALSE, ev |-> {}]           \* " all " is looked up as an event name: unknown
       ELSE [ok |-> TRUE, ev |-> CASE t.w = "all" -> EventSet [] t.w = "container" -> CtrEvents [] OTHER -> PodEvents]
  ELSE IF t.w \in EventSet THEN [ok |-> TRUE, ev |-> {t.w}]
  ELSE [ok |-> FALSE, ev |-> {}]                                      \* "" and anything else
ParseExp(toks) == IF \E i \in DOMAIN toks : ~Meaning(toks[i]).ok THEN [ok |-> FALSE, ev |-> {}]
                  ELSE [ok |-> TRUE, ev |-> UNION {Meaning(toks[i]).ev : i \in DOMAIN toks}]

\* removal markers
IsMarked(k) == Len(k) > 0 /\ SubSeq(k, 1, 1) = "-"
MarkExp(k) == [marked |-> IsMarked(k), key |-> IF IsMarked(k) THEN SubSeq(k, 2, Len(k)) ELSE k,
               mark |-> "-" \o k, clear |-> IF IsMarked(k) THEN SubSeq(k, 2, Len(k)) ELSE k]

\* Cmp as documented: equality (mount options as a multiset - the code sorts them before comparing)
Count(s, x) == Cardinality({i \in DOMAIN s : s[i] = x})
SameBag(a, b) == Len(a) = Len(b) /\ \A i \in DOMAIN a : Count(a, a[i]) = Count(b, a[i])
MountEq(m, v) == m.dest = v.dest /\ m.type = v.type /\ m.src = v.src /\ SameBag(m.opts, v.opts)
DeviceEq(d, v) == d.major = v.major /\ d.minor = v.minor

\* ---------------------------------------------------------------- scenarios --
CONSTANT Mode
VARIABLES sc, emitted

Tok(w, s) == [w |-> w, style |-> s]
Styles == {"lower", "camel", "upper", "padded"}
OneTok == {Tok(w, s) : w \in {"CreateContainer", "RunPodSandbox", "PostUpdatePodSandbox"} \cup Shorthands \cup {"", "bogus"}, s \in Styles}
\* one token; two tokens in one argument (comma separated) or in two arguments; three
ParseScen ==
     {[kind |-> "parse", toks |-> <<t>>, split |-> <<1>>] : t \in OneTok}
  \cup {[kind |-> "parse", toks |-> <<a, b>>, split |-> sp] :
          a \in {Tok("CreateContainer", "camel"), Tok("pod", "lower"), Tok("StopContainer", "padded")},
          b \in {Tok("RemoveContainer", "upper"), Tok("container", "upper"), Tok("", "lower"), Tok("bogus", "lower"), Tok("all", "lower")},
          sp \in {<<2>>, <<1, 1>>}}
  \cup {[kind |-> "parse", toks |-> <<>>, split |-> <<>>]}
MarkScen == {[kind |-> "marker", key |-> k] : k \in {"", "-", "-k", "k", "--k", "k-", "-a/b"}}
Mnt(d, t, s, o) == [dest |-> d, type |-> t, src |-> s, opts |-> o]
Mounts == {Mnt("/m", "bind", "/s", <<"ro", "rbind">>), Mnt("/m", "bind", "/s", <<"rbind", "ro">>), Mnt("/m", "bind", "/s", <<"rw", "rbind">>),
           Mnt("/m", "bind", "/s", <<"ro">>), Mnt("/m", "tmpfs", "/s", <<"ro", "rbind">>), Mnt("/x", "bind", "/s", <<"ro", "rbind">>),
           Mnt("/m", "bind", "/s", <<"ro", "ro">>), Mnt("/m", "bind", "/s", <<>>)}
CmpMountScen == {[kind |-> "cmp-mount", a |-> a, b |-> b] : a \in Mounts, b \in Mounts}
Dev(mj, mn) == [major |-> mj, minor |-> mn]
Devs == {Dev(1, 3), Dev(1, 5), Dev(8, 3), Dev(0, 0)}
CmpDevScen == {[kind |-> "cmp-device", a |-> a, b |-> b] : a \in Devs, b \in Devs}
HookSets == {<<>>, <<"h1">>, <<"h2", "h3">>}
HooksScen == {[kind |-> "hooks", a |-> [prestart |-> x, poststop |-> y], b |-> [prestart |-> u, poststop |-> v]] :
                x \in HookSets, y \in {<<>>, <<"h9">>}, u \in HookSets, v \in {<<>>, <<"h8">>}}

Scenarios == CASE Mode = "parse" -> ParseScen [] Mode = "misc" -> MarkScen \cup CmpDevScen \cup HooksScen
               [] Mode = "mounts" -> CmpMountScen
GInit == sc \in Scenarios /\ emitted = FALSE
GEmit == ~emitted /\ PrintT(<<"CASE", ToJson(sc)>>) /\ emitted' = TRUE /\ UNCHANGED sc
GSpec == GInit /\ [][GEmit]_<<sc, emitted>>

\* design-level facts
ShorthandsPartition == PodEvents \cup CtrEvents = EventSet /\ PodEvents \cap CtrEvents = {}
CmpIsEquivalence == \A a, b \in Mounts : MountEq(a, b) = MountEq(b, a)
=============================================================================
