---------------------------- MODULE Trace_Legacy ----------------------------
(***************************************************************************)
(* Trace validation for X05: the executions recorded by the plugin         *)
(* processes themselves ("invoked", in the order they ran) and the         *)
(* caller's return are consumed by the actions of Legacy.tla: an           *)
(* "invoked" line must be the Invoke step of the plugin the chain is at    *)
(* and show that plugin its own configuration, the request and the         *)
(* results collected so far; the return must be the outcome the chain      *)
(* reached (a plugin whose executable is missing fails without a line).    *)
(***************************************************************************)
EXTENDS Legacy, Json

CONSTANT TraceFile
Tr == ndJsonDeserialize(TraceFile)
VARIABLES l, bad, stats, req
tvars == <<l, bad, stats, req, cvars>>
Ev == Tr[l]
SetOf(x) == {x[i] : i \in DOMAIN x}
Pairs(x) == {<<x[i][1], x[i][2]>> : i \in DOMAIN x}
ConfVersion == "0.1-verif"
HangBudget == 5000      \* ms: context deadline 400 ms + killing and reaping the process

TraceInit == /\ l = 1 /\ bad = <<>> /\ stats = [scenarios |-> 0, invocations |-> 0, rejected |-> 0]
             /\ chain = <<>> /\ pos = 1 /\ acc = <<>> /\ seen = <<>> /\ outcome = "ok" /\ req = [state |-> "", sandbox |-> "none", spec |-> "none", pid |-> 0]
Bump(c) == [stats EXCEPT ![c] = @ + 1]
Reject(label, detail) ==
  /\ bad' = Append(bad, [scn |-> Ev.scn, line |-> l, labels |-> {label}, detail |-> detail])
  /\ l' = Ev.nb /\ stats' = Bump("rejected") /\ UNCHANGED <<req, cvars>>

IsSkel == "kind" \in DOMAIN Ev.scenario.req
TBegin == /\ chain' = Ev.scenario.chain /\ pos' = 1 /\ acc' = <<>> /\ seen' = <<>>
          /\ outcome' = IF Len(Ev.scenario.chain) = 0 THEN "ok" ELSE "running"
          /\ req' = (IF IsSkel THEN [state |-> "", sandbox |-> "none", spec |-> "none", pid |-> 0] ELSE Ev.scenario.req)
          /\ l' = l + 1 /\ stats' = Bump("scenarios") /\ UNCHANGED bad

\* the request as every plugin must see it
RequestOK ==
  LET v == SpecView(req.spec) IN
  /\ Ev.state = req.state /\ Ev.id = "task-1" /\ Ev.pid = req.pid /\ Ev.version = ConfVersion
  /\ Ev.sandbox = SandboxID(req.sandbox, "task-1")
  /\ Ev.issandbox = (req.sandbox = "same")
  /\ Pairs(Ev.labels) = (IF req.sandbox = "none" THEN {} ELSE {<<"l", "1">>})
  /\ Ev.hasspec /\ Ev.cgroups = v.cgroups /\ Pairs(Ev.namespaces) = v.namespaces
  /\ Pairs(Ev.annotations) = v.annotations /\ Ev.resources = v.resources

TInvoked ==
  IF outcome # "running" THEN Reject("X05-invoked-after-the-end", <<Ev.plugin, outcome, pos>>)
  ELSE IF Ev.plugin # pos \/ ~Runs(chain[pos]) THEN Reject("X05-order", <<Ev.plugin, pos>>)
  ELSE IF Ev.conf # pos THEN Reject("X05-configuration", <<Ev.plugin, Ev.conf>>)
  ELSE IF Ev.results # acc \/ \E i \in DOMAIN Ev.rversions : Ev.rversions[i] # ConfVersion
       THEN Reject("X05-results-shown", <<Ev.plugin, Ev.results, acc>>)
  ELSE IF ~RequestOK THEN Reject("X05-request", <<Ev.plugin, req>>)
  ELSE /\ Invoke /\ seen'[Len(seen')] = [plugin |-> Ev.plugin, results |-> Ev.results]
       /\ l' = l + 1 /\ stats' = Bump("invocations") /\ UNCHANGED <<bad, req>>

\* the return: a missing executable fails the chain without having been seen
AtMissing == outcome = "running" /\ pos <= Len(chain) /\ chain[pos] = "missing"
FinalOutcome == IF AtMissing THEN "failed" ELSE outcome
FinalReturned == IF FinalOutcome = "ok" THEN acc ELSE <<>>
TReturn ==
  IF FinalOutcome = "running" THEN Reject("X05-plugin-not-invoked", <<pos, Ev.err, Ev.errtext>>)
  ELSE IF Ev.err # (FinalOutcome = "failed") THEN Reject("X05-outcome", <<FinalOutcome, Ev.err, Ev.errtext>>)
  ELSE IF Ev.results # FinalReturned THEN Reject(IF Ev.err THEN "X05-partial-results" ELSE "X05-results", <<Ev.results, FinalReturned>>)
  ELSE IF \E i \in DOMAIN Ev.results : Ev.versions[i] # ConfVersion \/ Ev.meta[i] # "meta-" \o ToString(Ev.results[i])
       THEN Reject("X05-results", <<Ev.versions, Ev.meta>>)
  ELSE IF FinalOutcome = "failed" /\ Ev.blamed # pos THEN Reject("X05-blame", <<pos, Ev.blamed, Ev.errtext>>)
  ELSE IF Ev.ms > HangBudget THEN Reject("X05-latency", <<Ev.ms>>)
  ELSE /\ (IF AtMissing THEN Invoke ELSE UNCHANGED cvars)
       /\ l' = l + 1 /\ UNCHANGED <<bad, stats, req>>

\* skel.Run as a program: exit status and output against SkelOutcome
TSkel ==
  LET want == SkelOutcome(Ev.args, Ev.stdin, Ev.beh) IN
  IF Ev.panicked THEN Reject("X05-skel-panic", <<Ev.args, Ev.stdin>>)
  ELSE IF Ev.zero # want.zero \/ Ev.out # want.out THEN Reject("X05-skel-outcome", <<Ev.args, Ev.stdin, Ev.beh, Ev.zero, Ev.out>>)
  ELSE IF want.out = "error-result" /\ Ev.errtext # (IF Len(Ev.args) > 0 /\ Ev.args[1] = "invoke"
                                                      THEN (IF Ev.beh = "error" THEN "boom-1" ELSE "set-by-1")
                                                      ELSE "invalid arg " \o (IF Len(Ev.args) > 0 THEN Ev.args[1] ELSE ""))
       THEN Reject("X05-skel-error-text", <<Ev.args, Ev.errtext>>)
  ELSE l' = l + 1 /\ stats' = Bump("invocations") /\ UNCHANGED <<bad, req, cvars>>

Skip == l' = l + 1 /\ UNCHANGED <<bad, stats, req, cvars>>
TraceNext ==
  /\ l <= Len(Tr)
  /\ CASE Ev.ev = "Begin"   -> TBegin
       [] Ev.ev = "invoked" -> TInvoked
       [] Ev.ev = "return"  -> TReturn
       [] Ev.ev = "skel"    -> TSkel
       [] OTHER             -> Skip
TraceSpec == TraceInit /\ [][TraceNext]_tvars
\* the design-level properties hold in every state the recorded executions drive the specification through
TraceInvs == InOrderOnce /\ SeesEarlier /\ FailFast /\ NoPartial /\ (outcome = "ok" => Returned = Upto(Len(chain)))
NotStuck == (l <= Len(Tr)) => ENABLED TraceNext
Done == l > Len(Tr)
ReportInv ==
  Done => /\ PrintT(<<"STATS", ToJson(stats)>>)
          /\ \A i \in DOMAIN bad : PrintT(<<"BAD", ToJson(bad[i])>>)
          /\ PrintT(<<"CONSUMED", l - 1>>)
=============================================================================
