---------------------------- MODULE Gen_AdaptLife ----------------------------
(***************************************************************************)
(* X02 schedules: every maximal behaviour of AdaptLife up to MaxSteps      *)
(* steps, as a sequence of named steps the driver performs on a real       *)
(* Adaptation (plugins are interchangeable: the least idle one connects).  *)
(***************************************************************************)
EXTENDS AdaptLife, Json

CONSTANT MaxSteps
VARIABLES sched, emitted
gvars == <<lvars, sched, emitted>>

St(a, p) == [a |-> a, p |-> p]
Do(a, p, A) == A /\ sched' = Append(sched, St(a, p))
\* plugins in a fixed order for symmetry breaking
Ord == CHOOSE f \in [Plugins -> 1..Cardinality(Plugins)] : \A p, q \in Plugins : p # q => f[p] # f[q]
Least(p) == \A q \in Plugins : pst[q] = "idle" => Ord[p] <= Ord[q]

GInit == LInit /\ sched = <<>> /\ emitted = FALSE
GStep == /\ ~emitted /\ Len(sched) < MaxSteps
         /\ \/ Do("Start", "", Start) \/ Do("Stop", "", Stop) \/ Do("Request", "", Request)
            \/ \E p \in Plugins : \/ (Least(p) /\ Do("Accept", p, Accept(p)))
                                  \/ Do("Excl", p, Excl(p)) \/ Do("Sync", p, Sync(p)) \/ Do("Activate", p, Activate(p))
         /\ UNCHANGED emitted
GEmit == /\ ~emitted /\ Len(sched) > 0 /\ (Len(sched) = MaxSteps \/ ~ENABLED LNext)
         /\ PrintT(<<"CASE", ToJson([plugins |-> [i \in 1..Cardinality(Plugins) |-> CHOOSE p \in Plugins : Ord[p] = i],
                                     sched |-> sched])>>)
         /\ emitted' = TRUE /\ UNCHANGED <<lvars, sched>>
GSpec == GInit /\ [][GStep \/ GEmit]_gvars
=============================================================================
