----------------------------- MODULE SyncOnceInd -----------------------------
(***************************************************************************)
(* C08, unbounded: "a registering plugin learns of each container exactly  *)
(* once" for ONE registering plugin and ONE container among ANY number of  *)
(* other callers holding sync blocks (a counter, unbounded) - the locking  *)
(* discipline of Relay.tla (WantSync / GotSync / Snapshot / Activate /     *)
(* FinishSync, Block / Unblock) reduced to what the argument needs.        *)
(* The container is created by a caller that does its bookkeeping          *)
(* (StoreAdd) and the creation request (Deliver: to the plugins active at  *)
(* that moment) inside a sync block, as the property requires.             *)
(* IndInv is inductive; it implies HeldBlocksSync (no plugin is inside     *)
(* its exclusive section while any block is held) and ExactlyOnce (once    *)
(* the plugin is synchronized and the container created, the container is  *)
(* either in the snapshot or was delivered as a creation request: never    *)
(* both, never neither).                                                   *)
(* Negative control: a grant of the exclusive lock that ignores the        *)
(* creator's block.                                                        *)
(***************************************************************************)
EXTENDS Integers

VARIABLES
  \* @type: Int;
  readers,    \* sync blocks held by other callers
  \* @type: Bool;
  myblock,    \* the creator of the container holds its block
  \* @type: Bool;
  swriter,    \* the plugin is inside the exclusive section
  \* @type: Str;
  cstate,     \* "none" | "stored" (runtime bookkeeping done) | "delivered" (creation request relayed)
  \* @type: Str;
  pst,        \* "idle" | "syncwait" | "exclusive" | "synced" | "active"
  \* @type: Bool;
  insnap,     \* the snapshot handed to the plugin contained the container
  \* @type: Bool;
  gotevent    \* the plugin received the container's creation request

Init == /\ readers = 0 /\ myblock = FALSE /\ swriter = FALSE /\ cstate = "none" /\ pst = "idle"
        /\ insnap = FALSE /\ gotevent = FALSE

OtherBlock   == /\ ~swriter /\ readers' = readers + 1
                /\ UNCHANGED <<myblock, swriter, cstate, pst, insnap, gotevent>>
OtherUnblock == /\ readers > 0 /\ readers' = readers - 1
                /\ UNCHANGED <<myblock, swriter, cstate, pst, insnap, gotevent>>
MyBlock   == /\ ~myblock /\ ~swriter /\ cstate = "none" /\ myblock' = TRUE
             /\ UNCHANGED <<readers, swriter, cstate, pst, insnap, gotevent>>
StoreAdd  == /\ myblock /\ cstate = "none" /\ cstate' = "stored"
             /\ UNCHANGED <<readers, myblock, swriter, pst, insnap, gotevent>>
Deliver   == /\ myblock /\ cstate = "stored" /\ cstate' = "delivered"
             /\ gotevent' = (pst = "active")
             /\ UNCHANGED <<readers, myblock, swriter, pst, insnap>>
MyUnblock == /\ myblock /\ cstate = "delivered" /\ myblock' = FALSE
             /\ UNCHANGED <<readers, swriter, cstate, pst, insnap, gotevent>>

WantSync   == /\ pst = "idle" /\ pst' = "syncwait"
              /\ UNCHANGED <<readers, myblock, swriter, cstate, insnap, gotevent>>
GotSync    == /\ pst = "syncwait" /\ readers = 0 /\ ~myblock /\ ~swriter
              /\ swriter' = TRUE /\ pst' = "exclusive"
              /\ UNCHANGED <<readers, myblock, cstate, insnap, gotevent>>
Snapshot   == /\ pst = "exclusive" /\ pst' = "synced" /\ insnap' = (cstate # "none")
              /\ UNCHANGED <<readers, myblock, swriter, cstate, gotevent>>
Activate   == /\ pst = "synced" /\ pst' = "active"
              /\ UNCHANGED <<readers, myblock, swriter, cstate, insnap, gotevent>>
FinishSync == /\ pst = "active" /\ swriter /\ swriter' = FALSE
              /\ UNCHANGED <<readers, myblock, cstate, pst, insnap, gotevent>>

Next == \/ OtherBlock \/ OtherUnblock \/ MyBlock \/ StoreAdd \/ Deliver \/ MyUnblock
        \/ WantSync \/ GotSync \/ Snapshot \/ Activate \/ FinishSync

HeldBlocksSync == swriter => (readers = 0 /\ ~myblock)
ExactlyOnce == (pst \in {"synced", "active"} /\ cstate = "delivered") => (insnap # gotevent)

IndInv ==
  /\ readers >= 0
  /\ cstate \in {"none", "stored", "delivered"}
  /\ pst \in {"idle", "syncwait", "exclusive", "synced", "active"}
  /\ HeldBlocksSync
  /\ pst \in {"exclusive", "synced"} => swriter
  /\ swriter => pst \in {"exclusive", "synced", "active"}
  /\ ~myblock => cstate \in {"none", "delivered"}
  /\ gotevent => (pst = "active" /\ cstate = "delivered" /\ ~insnap)
  /\ insnap => (pst \in {"synced", "active"} /\ cstate = "delivered")
  /\ ExactlyOnce
IndInit == /\ readers \in Int /\ myblock \in BOOLEAN /\ swriter \in BOOLEAN
           /\ cstate \in {"none", "stored", "delivered"}
           /\ pst \in {"idle", "syncwait", "exclusive", "synced", "active"}
           /\ insnap \in BOOLEAN /\ gotevent \in BOOLEAN
           /\ IndInv
=============================================================================
