---------------------------- MODULE StubDispatch ----------------------------
(***************************************************************************)
(* C15: what a plugin built on the stub is subscribed to, and how the      *)
(* stub dispatches (pkg/stub/stub.go setupHandlers, Configure, the         *)
(* per-event handlers).                                                    *)
(*   impl   - the events for which the plugin implements a handler         *)
(*   hascfg - it implements Configure, which answers with the mask cfg     *)
(***************************************************************************)
EXTENDS Naturals, FiniteSets, Sequences, TLC, Json

Events == <<"RunPodSandbox", "StopPodSandbox", "RemovePodSandbox", "CreateContainer", "PostCreateContainer",
            "StartContainer", "PostStartContainer", "UpdateContainer", "PostUpdateContainer", "StopContainer",
            "RemoveContainer", "UpdatePodSandbox", "PostUpdatePodSandbox">>
EventSet == {Events[i] : i \in DOMAIN Events}

\* the subscription; not ok when the plugin asks for something it cannot handle
Subscription(impl, hascfg, cfg) ==
  IF ~hascfg \/ cfg = {} THEN [ok |-> TRUE, ev |-> impl]
  ELSE IF cfg \subseteq impl THEN [ok |-> TRUE, ev |-> cfg] ELSE [ok |-> FALSE, ev |-> {}]

\* a message for event e reaches exactly the handler for e, if there is one
Dispatch(impl, e) == IF e \in impl THEN <<e>> ELSE <<>>

\* which messages carry an adjustment / updates back
AdjustOf(e, ctr) == IF e = "CreateContainer" THEN "CreateContainer/" \o ctr ELSE ""
\* the handlers answer with an update of another container and one (ignore-failure, cpu shares 77) of the request's own
UpdatesOf(e) == IF e \in {"CreateContainer", "UpdateContainer", "StopContainer"}
                THEN <<"upd-of-" \o e, "ctr-" \o e \o "!:77">> ELSE <<>>

\* ---------------------------------------------------------------- scenarios --
CONSTANTS Masks,     \* the handler subsets to generate, as sets of event names (a set of sets)
          Thorough

Bit(e) == CHOOSE i \in DOMAIN Events : Events[i] = e
Pow2(n) == LET F[i \in 0..n] == IF i = 0 THEN 1 ELSE 2 * F[i-1] IN F[n]
MaskInt(S) == LET Idx == {Bit(e) : e \in S}
                  F[i \in 0..Len(Events)] == IF i = 0 THEN 0 ELSE F[i-1] + (IF i \in Idx THEN Pow2(i-1) ELSE 0)
              IN F[Len(Events)]

VARIABLES sc, emitted

CfgChoices(impl) ==
  LET some == IF impl = {} THEN {} ELSE {CHOOSE e \in impl : TRUE}
      miss == IF impl = EventSet THEN {} ELSE {CHOOSE e \in EventSet \ impl : TRUE}
  IN {{}, impl, some} \cup (IF miss = {} THEN {} ELSE {impl \cup miss, miss})

Scenarios ==
  UNION {
       {[impl |-> MaskInt(m), hascfg |-> FALSE, cfg |-> 0, cfgerr |-> FALSE, errev |-> ""]}
  \cup {[impl |-> MaskInt(m), hascfg |-> TRUE, cfg |-> MaskInt(c), cfgerr |-> FALSE, errev |-> ""] : c \in CfgChoices(m)}
  \cup {[impl |-> MaskInt(m), hascfg |-> TRUE, cfg |-> MaskInt(m) + 8192, cfgerr |-> FALSE, errev |-> ""]}   \* a foreign bit
  \cup {[impl |-> MaskInt(m), hascfg |-> TRUE, cfg |-> 0, cfgerr |-> TRUE, errev |-> ""]}
  \cup (IF Thorough \/ Cardinality(m) <= 2 \/ Cardinality(m) >= 12
        THEN {[impl |-> MaskInt(m), hascfg |-> FALSE, cfg |-> 0, cfgerr |-> FALSE, errev |-> e] : e \in m}
        ELSE {[impl |-> MaskInt(m), hascfg |-> FALSE, cfg |-> 0, cfgerr |-> FALSE, errev |-> CHOOSE e \in m : TRUE]})
  : m \in Masks}

GInit == sc \in Scenarios /\ emitted = FALSE
GEmit == ~emitted /\ PrintT(<<"CASE", ToJson(sc)>>) /\ emitted' = TRUE /\ UNCHANGED sc
GSpec == GInit /\ [][GEmit]_<<sc, emitted>>

\* design-level facts about the subscription rule, over every generated mask
NeverUnhandled ==
  \A m \in Masks : \A c \in CfgChoices(m) : \A h \in BOOLEAN :
     LET s == Subscription(m, h, c) IN s.ok => s.ev \subseteq m
ExactWhenSilent == \A m \in Masks : Subscription(m, FALSE, {}).ev = m /\ Subscription(m, TRUE, {}).ev = m
=============================================================================
