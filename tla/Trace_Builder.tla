---------------------------- MODULE Trace_Builder ----------------------------
(***************************************************************************)
(* Trace validation for X01: every recorded sequence of builder calls on a *)
(* real ContainerAdjustment / ContainerUpdate is stepped through           *)
(* Builder.BApply / UApply; the projected value after every call must be   *)
(* the specification's.                                                    *)
(***************************************************************************)
EXTENDS Builder

CONSTANT TraceFile
Tr == ndJsonDeserialize(TraceFile)

VARIABLES l, bad, stats
tvars == <<l, bad, stats, calls, emitted>>
E == Tr[l]

TraceInit == l = 1 /\ bad = <<>> /\ stats = [scenarios |-> 0, calls |-> 0, rejected |-> 0] /\ calls = <<>> /\ emitted = FALSE

AFields == DOMAIN EmptyAdjust
UFields == DOMAIN EmptyUpdate
Core(x, F) == [f \in F |-> x[f]]

\* expected value after each call
ExpA(cs) == [i \in DOMAIN cs |-> BFold(SubSeq(cs, 1, i))]
ExpU(cs) == [i \in DOMAIN cs |-> UFold(SubSeq(cs, 1, i))]

WrongAt ==
  LET cs == E.calls IN
  IF E.target = "adjust"
  THEN {i \in DOMAIN cs : Core(E.states[i], AFields) # ExpA(cs)[i]}
  ELSE {i \in DOMAIN cs : Core(E.states[i], UFields) # ExpU(cs)[i]}
FirstWrong == CHOOSE i \in WrongAt : \A j \in WrongAt : i <= j

Labels ==
     (IF Len(E.states) # Len(E.calls) THEN {"X01-call-failed"} ELSE
      IF WrongAt # {} THEN {IF E.target = "adjust" THEN "X01-adjust-builder" ELSE "X01-update-builder"} ELSE {})
  \cup (IF \E i \in DOMAIN E.alias : E.alias[i] THEN {"X01-args-aliased"} ELSE {})

Detail ==
  IF Len(E.states) # Len(E.calls) THEN <<"panic", E.err>>
  ELSE IF WrongAt # {}
  THEN LET i == FirstWrong
           exp == IF E.target = "adjust" THEN ExpA(E.calls)[i] ELSE ExpU(E.calls)[i]
           F == IF E.target = "adjust" THEN AFields ELSE UFields
       IN <<E.calls[i].op, {f \in F : E.states[i][f] # exp[f]}, i>>
  ELSE <<"alias">>

TBuild ==
  /\ l <= Len(Tr)
  /\ E.ev = "Build"
  /\ l' = l + 1 /\ UNCHANGED <<calls, emitted>>
  /\ IF Labels # {}
     THEN /\ bad' = Append(bad, [scn |-> E.scn, line |-> l, labels |-> Labels, detail |-> Detail])
          /\ stats' = [stats EXCEPT !.scenarios = @ + 1, !.calls = @ + Len(E.calls), !.rejected = @ + 1]
     ELSE /\ bad' = bad /\ stats' = [stats EXCEPT !.scenarios = @ + 1, !.calls = @ + Len(E.calls)]

TraceSpec == TraceInit /\ [][TBuild]_tvars
NotStuck == (l <= Len(Tr)) => ENABLED TBuild
Done == l > Len(Tr)
ReportInv ==
  Done => /\ PrintT(<<"STATS", ToJson(stats)>>)
          /\ \A i \in DOMAIN bad : PrintT(<<"BAD", ToJson(bad[i])>>)
          /\ PrintT(<<"CONSUMED", l - 1>>)
=============================================================================
