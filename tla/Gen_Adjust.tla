----------------------------- MODULE Gen_Adjust -----------------------------
(***************************************************************************)
(* Small-scope model checking of Adjust and scenario emission in one run:  *)
(* TLC enumerates every scenario of the chosen alphabet (Mode), runs it    *)
(* through Begin / Apply* and checks the design-level invariants in every  *)
(* state; at the end of each scenario it prints the scenario as JSON for   *)
(* replay against the real code.                                           *)
(***************************************************************************)
EXTENDS Adjust, Json

CONSTANTS Mode,     \* which alphabet
          NP,       \* number of plugins
          NK,       \* number of keys per keyed family (1 or 2)
          Fields    \* scalar fields used by the scalar / update alphabets

VARIABLES scn, pc, emitted
gvars == <<avars, scn, pc, emitted>>

PName(i) == "p" \o ToString(i)
Num(i)   == ToString(100 + i)

\* ------------------------------------------------ removable keyed families --
KeySeq2(fam) == CASE fam = "ann" -> <<"k1", "k2">>
                  [] fam = "env" -> <<"E1", "E2">>
                  [] fam = "mnt" -> <<"/m1", "/m1/sub">>
                  [] fam = "dev" -> <<"/dev/d1", "/dev/d2">>
KeySeq(fam) == SubSeq(KeySeq2(fam), 1, NK)
Keys(fam) == SeqRange(KeySeq(fam))
KVal(fam, i) == CASE fam = "ann" -> "v" \o ToString(i)
                  [] fam = "env" -> "v=" \o ToString(i) \o "="      \* values with "=" in them: a name ends at the FIRST "="
                  [] fam = "mnt" -> "/s/v" \o ToString(i) \o "|bind|ro"
                  [] fam = "dev" -> "c|1|" \o Num(i)
OVal(fam)    == CASE fam = "ann" -> "o"
                  [] fam = "env" -> "o=x=="
                  [] fam = "mnt" -> "/s/o|bind|rw"
                  [] fam = "dev" -> "c|1|3"
MapOps  == {"none", "set", "rm", "rmset"}
ListOps == {"none", "set", "rm", "rmset", "setrm"}

Entries(k, op, v) ==
  CASE op = "none"  -> <<>>
    [] op = "set"   -> <<[k |-> k, v |-> v]>>
    [] op = "rm"    -> <<[k |-> Mark(k), v |-> ""]>>
    [] op = "rmset" -> <<[k |-> Mark(k), v |-> ""], [k |-> k, v |-> v]>>
    [] op = "setrm" -> <<[k |-> k, v |-> v], [k |-> Mark(k), v |-> ""]>>

ListOf(fam, f, i) ==
  LET ks == KeySeq(fam)
      L[j \in 0..Len(ks)] == IF j = 0 THEN <<>> ELSE L[j-1] \o Entries(ks[j], f[ks[j]], KVal(fam, i))
  IN L[Len(ks)]
AnnOf(f, i) ==
  LET sets == {k \in DOMAIN f : f[k] \in {"set", "rmset"}}
      rms  == {Mark(k) : k \in {x \in DOMAIN f : f[x] \in {"rm", "rmset"}}}
  IN [k \in sets \cup rms |-> IF k \in sets THEN KVal("ann", i) ELSE ""]

AdjFam(fam, f, i) ==
  CASE fam = "ann" -> [EmptyAdjust EXCEPT !.ann = AnnOf(f, i)]
    [] fam = "env" -> [EmptyAdjust EXCEPT !.env = ListOf("env", f, i)]
    [] fam = "mnt" -> [EmptyAdjust EXCEPT !.mnt = ListOf("mnt", f, i)]
    [] fam = "dev" -> [EmptyAdjust EXCEPT !.dev = ListOf("dev", f, i)]

\* the first key is present in the original container, the second is not
OrigFam(fam) ==
  LET m == [k \in {KeySeq(fam)[1]} |-> OVal(fam)]
  IN CASE fam = "ann" -> [EmptyContainer EXCEPT !.ann = m]
       [] fam = "env" -> [EmptyContainer EXCEPT !.env = m]
       [] fam = "mnt" -> [EmptyContainer EXCEPT !.mnt = m]
       [] fam = "dev" -> [EmptyContainer EXCEPT !.dev = m]

NoUpd == <<>>
R(adj) == [adj |-> adj, upd |-> NoUpd]
Req(k, o, rr) == [kind |-> k, own |-> "c0", orig |-> o, reqres |-> rr]

FamChoices(fam, i) ==
  LET ops == IF fam = "ann" THEN MapOps ELSE ListOps
  IN {R(AdjFam(fam, f, i)) : f \in [Keys(fam) -> ops]}
FamReqs(fam) == {Req("create", OrigFam(fam), EmptyRes)}

\* --------------------------------------------------------------------- args --
ArgOps == {"none", "set", "rm", "rmset"}
ArgsOf(op, i) == CASE op = "none"  -> <<>>
                   [] op = "set"   -> <<"a" \o ToString(i), "b">>
                   [] op = "rm"    -> <<"">>
                   [] op = "rmset" -> <<"", "a" \o ToString(i)>>
ArgsChoices(i) == {R([EmptyAdjust EXCEPT !.args = ArgsOf(op, i)]) : op \in ArgOps}
ArgsReqs == {Req("create", [EmptyContainer EXCEPT !.args = o], EmptyRes) : o \in {<<>>, <<"orig", "x">>}}

\* ------------------------------------------------------------------ scalars --
BoolFields == {"mem.disableoom", "mem.usehierarchy"}
SVal(f, i) == IF f \in BoolFields THEN (IF i % 2 = 1 THEN "true" ELSE "false")
              ELSE IF f = "cgpath" THEN "/cg/" \o Num(i)
              ELSE Num(i)
SOrig(f)   == IF f \in BoolFields THEN "true" ELSE IF f = "cgpath" THEN "/cg/0" ELSE "50"
ResOf(S, i) == [f \in S |-> SVal(f, i)]
ScalarChoices(i) == {R([EmptyAdjust EXCEPT !.res = ResOf(S, i)]) : S \in SUBSET Fields}
ScalarReqs == {Req("create", [EmptyContainer EXCEPT !.res = [f \in pre |-> SOrig(f)]], EmptyRes) :
                 pre \in {{}, Fields}}

\* --------------------------------------- non-removable keyed families + hooks --
K2all(fam) == CASE fam = "rlim" -> <<"RLIMIT_NOFILE", "RLIMIT_CORE">>
                [] fam = "cdi"  -> <<"vendor.com/dev=a", "vendor.com/dev=b">>
                [] fam = "hp"   -> <<"2MB", "1GB">>
                [] fam = "uni"  -> <<"memory.high", "cpu.weight">>
K2(fam) == SubSeq(K2all(fam), 1, NK)
KeyedAdj(fam, S, i) ==
  LET ks == K2(fam)
      sel == SelectSeq(ks, LAMBDA k : k \in S)
  IN CASE fam = "rlim" -> [EmptyAdjust EXCEPT !.rlim = [j \in DOMAIN sel |-> [k |-> sel[j], v |-> Num(i) \o ":" \o ToString(i)]]]
       [] fam = "cdi"  -> [EmptyAdjust EXCEPT !.cdi = sel]
       [] fam = "hp"   -> [EmptyAdjust EXCEPT !.hp = [j \in DOMAIN sel |-> [k |-> sel[j], v |-> Num(i)]]]
       [] fam = "uni"  -> [EmptyAdjust EXCEPT !.uni = [k \in S |-> Num(i)]]
KeyedOrig(fam) ==
  LET k1 == K2(fam)[1]
  IN CASE fam = "rlim" -> [EmptyContainer EXCEPT !.rlim = <<[k |-> "RLIMIT_AS", v |-> "9:9"]>>]
       [] fam = "cdi"  -> EmptyContainer
       [] fam = "hp"   -> [EmptyContainer EXCEPT !.hp = [k \in {k1} |-> "7"]]
       [] fam = "uni"  -> [EmptyContainer EXCEPT !.uni = [k \in {k1} |-> "7"]]
KeyedChoices(fam, i) == {R(KeyedAdj(fam, S, i)) : S \in SUBSET SeqRange(K2(fam))}
KeyedReqs(fam) == {Req("create", KeyedOrig(fam), EmptyRes)}

HookAdj(S, i) == [EmptyAdjust EXCEPT !.hooks =
                    [s \in Stages |-> IF s \in S THEN <<"h" \o ToString(i) \o s>> ELSE <<>>]]
HookChoices(i) == {R(HookAdj(S, i)) : S \in {{}, {"prestart"}, {"poststop", "createRuntime"}, Stages}}
HookReqs == {Req("create", [EmptyContainer EXCEPT !.hooks = [NoHooks EXCEPT !["prestart"] = <<"h0">>]], EmptyRes)}

\* ------------------------------------------------------------------ updates --
(* each plugin requests at most one update: target, subset of Fields,      *)
(* ignore flag; all request kinds; update requests empty or pre-populated. *)
Targets == {"c0", "t1", "t2"}
U(us) == [adj |-> EmptyAdjust, upd |-> us]
UpdChoices(i) ==
  {U(<<>>)} \cup
  {U(<<[target |-> t, res |-> ResOf(S, i), hp |-> <<>>, uni |-> EmptyMap, ignore |-> ig, hasres |-> TRUE]>>) :
      t \in Targets, S \in (SUBSET Fields) \ {{}}, ig \in BOOLEAN}
UpdReqs == {Req(k, EmptyContainer, [EmptyRes EXCEPT !.res = [f \in pre |-> SOrig(f)]]) :
              k \in {"create", "update", "stop"}, pre \in {{}, Fields}}

\* two updates by one plugin (repeated and distinct targets)
Upd2Choices(i) ==
  {U(<<[target |-> t1, res |-> ResOf({f1}, i), hp |-> <<>>, uni |-> EmptyMap, ignore |-> ig, hasres |-> TRUE],
       [target |-> t2, res |-> ResOf({f2}, i), hp |-> <<>>, uni |-> EmptyMap, ignore |-> FALSE, hasres |-> TRUE]>>) :
      t1 \in Targets, t2 \in Targets, f1 \in Fields, f2 \in Fields, ig \in BOOLEAN}
Upd2Reqs == {Req(k, EmptyContainer, EmptyRes) : k \in {"update", "stop"}}

\* hugepages / unified in updates, and updates without resources
UpdKeyedChoices(i) ==
  {U(<<>>)} \cup
  {U(<<[target |-> t, res |-> EmptyMap,
        hp |-> IF h THEN <<[k |-> "2MB", v |-> Num(i)]>> ELSE <<>>,
        uni |-> IF u THEN [k \in {"memory.high"} |-> Num(i)] ELSE EmptyMap,
        ignore |-> ig, hasres |-> h \/ u]>>) :
      t \in {"c0", "t1"}, h \in BOOLEAN, u \in BOOLEAN, ig \in BOOLEAN}
UpdKeyedReqs ==
  {Req(k, EmptyContainer,
       IF pre THEN [res |-> EmptyMap, hp |-> [x \in {"2MB"} |-> "7"], uni |-> [x \in {"memory.high"} |-> "7"]]
       ELSE EmptyRes) : k \in {"create", "update", "stop"}, pre \in BOOLEAN}

Choices(i) ==
  CASE Mode \in {"ann", "env", "mnt", "dev"}  -> FamChoices(Mode, i)
    [] Mode = "args"                          -> ArgsChoices(i)
    [] Mode = "scalar"                        -> ScalarChoices(i)
    [] Mode \in {"rlim", "cdi", "hp", "uni"}  -> KeyedChoices(Mode, i)
    [] Mode = "hooks"                         -> HookChoices(i)
    [] Mode = "upd"                           -> UpdChoices(i)
    [] Mode = "upd2"                          -> Upd2Choices(i)
    [] Mode = "updkeyed"                      -> UpdKeyedChoices(i)
Reqs ==
  CASE Mode \in {"ann", "env", "mnt", "dev"}  -> FamReqs(Mode)
    [] Mode = "args"                          -> ArgsReqs
    [] Mode = "scalar"                        -> ScalarReqs
    [] Mode \in {"rlim", "cdi", "hp", "uni"}  -> KeyedReqs(Mode)
    [] Mode = "hooks"                         -> HookReqs
    [] Mode = "upd"                           -> UpdReqs
    [] Mode = "upd2"                          -> Upd2Reqs
    [] Mode = "updkeyed"                      -> UpdKeyedReqs

\* ---------------------------------------------------------------- behaviour --
(* The responses are chosen one plugin at a time, so scenarios share their  *)
(* prefixes in the state graph; the history `applied` identifies a scenario.*)
GInit ==
  /\ scn \in Reqs
  /\ pc = 0 /\ emitted = FALSE
  /\ kind = scn.kind /\ ownid = scn.own /\ orig = scn.orig /\ reqres = scn.reqres
  /\ cont = scn.orig /\ rres = scn.reqres /\ owner = NoOwner /\ taint = {}
  /\ comb = EmptyAdjust /\ upd = [t \in {} |-> EmptyRes] /\ ownch = FALSE
  /\ applied = <<>> /\ err = "" /\ errd = {}

GApply ==
  /\ pc < NP /\ err = "" /\ ~emitted
  /\ \E r \in Choices(pc + 1) : Apply(PName(pc + 1), r.adj, r.upd)
  /\ pc' = pc + 1
  /\ UNCHANGED <<scn, emitted>>

\* every prefix is a scenario of its own (fewer plugins)
GEmit ==
  /\ ~emitted
  /\ PrintT(<<"CASE", ToJson([kind |-> scn.kind, own |-> scn.own, orig |-> scn.orig,
                              reqres |-> scn.reqres,
                              resps |-> [i \in DOMAIN applied |-> [adj |-> applied[i][2], upd |-> applied[i][3]]],
                              experr |-> err])>>)
  /\ emitted' = TRUE
  /\ UNCHANGED <<avars, scn, pc>>

GNext == GApply \/ GEmit
GSpec == GInit /\ [][GNext]_gvars

\* update-side soundness: every owned update item shows in the collected entry
UpdLedger ==
  \A it \in DOMAIN owner :
     (it[2] \in {"res", "hp", "uni"} /\ ~(kind = "create" /\ it[1] = ownid)) =>
        LET e == IF kind = "update" /\ it[1] = ownid THEN rres ELSE upd[it[1]]
        IN it[3] \in DOMAIN e[it[2]]

=============================================================================
