----------------------------- MODULE Trace_Stub -----------------------------
(***************************************************************************)
(* Trace validation for C16: the results of Start/Stop/Wait on a real stub *)
(* against a scripted runtime end are compared with the life cycle of      *)
(* StubLife.tla, reduced to what is observable at the API: whether each    *)
(* operation returned (and in bounded time), whether Start succeeded,      *)
(* whether a new Start dialled a fresh connection, whether the current     *)
(* session works, how often the close notification fired.                  *)
(***************************************************************************)
EXTENDS Naturals, Sequences, FiniteSets, TLC, Json

CONSTANT TraceFile
Tr == ndJsonDeserialize(TraceFile)

VARIABLES l, bad, stats,
          s   \* what the specification knows of the stub (see Fresh)

tvars == <<l, bad, stats, s>>
E == Tr[l]
\* notified: "no" | "yes" | "maybe" - a close notification seen while the connection is lost belongs to the current
\* session, or (maybe) to an earlier attempt that failed after its connection was up (such an attempt may notify, late)
Fresh == [started |-> FALSE, lost |-> FALSE, notified |-> "no", dials |-> 0, mark |-> 0, est |-> 0, failed |-> 0,
          arg |-> "", closes |-> 0, owed |-> 0, cfgsent |-> FALSE]

TraceInit == l = 1 /\ bad = <<>> /\ s = Fresh
             /\ stats = [scenarios |-> 0, ops |-> 0, starts |-> 0, probes |-> 0, rejected |-> 0]
Bump(c) == [stats EXCEPT ![c] = @ + 1]
Reject(label, detail) ==
  /\ bad' = Append(bad, [scn |-> E.scn, line |-> l, labels |-> {label}, detail |-> detail])
  /\ l' = E.nb /\ stats' = Bump("rejected") /\ UNCHANGED s
Go(c, n) == l' = l + 1 /\ stats' = Bump(c) /\ s' = n /\ UNCHANGED bad
Skip == l' = l + 1 /\ UNCHANGED <<bad, stats, s>>

\* the stub believes it is started until it has been told (or told itself) otherwise
Believes == s.started /\ ~(s.lost /\ s.notified = "yes")
Unsure == s.started /\ s.lost /\ s.notified = "maybe"   \* the stub may or may not have been told yet
Running == s.started /\ ~s.lost
MustFail == {"unreachable", "refuse", "drop-connect", "drop-register", "drop-after-register",
             "configure-rejected", "configure-badmask", "drop-in-configure"}
Healthy == {"healthy", "slow-configure"}

TBegin == Go("scenarios", Fresh)
\* the connection is lost from the moment the driver starts dropping it
TOp == Go("ops", [s EXCEPT !.mark = s.dials, !.arg = E.arg, !.cfgsent = FALSE,
                           !.lost = IF E.op = "PeerDrop" THEN s.started ELSE @])
TDial == Go("ops", [s EXCEPT !.dials = @ + 1])
\* the close notification has been processed by the stub when the callback runs
TOnClose ==
  IF s.started /\ s.lost /\ s.notified # "yes"
  THEN IF s.owed > 0 /\ s.notified = "no"
       THEN Go("ops", [s EXCEPT !.closes = @ + 1, !.notified = "maybe"])                 \* this one, or a stale one
       ELSE Go("ops", [s EXCEPT !.closes = @ + 1, !.notified = "yes", !.owed = IF s.notified = "maybe" /\ @ > 0 THEN @ - 1 ELSE @])
  ELSE Go("ops", [s EXCEPT !.closes = @ + 1, !.owed = IF @ > 0 THEN @ - 1 ELSE 0])

TRes ==
  IF E.class = "hung" /\ E.op = "Wait" /\ Believes THEN Skip      \* waiting for a running stub blocks by design
  ELSE IF E.class = "hung" THEN Reject("C16-" \o E.op \o "-hung", <<s.arg, E.ms>>)
  ELSE IF E.op = "Start"
  THEN IF Believes /\ ~(Unsure /\ s.dials # s.mark)
       THEN IF E.class = "ok" THEN Reject("C16-second-start-succeeds", <<>>) ELSE Skip
       ELSE IF s.dials = s.mark THEN Reject("C16-stale-connection", <<s.arg, E.errtext>>)   \* no fresh connection dialled
       ELSE IF s.arg \in Healthy
            THEN IF E.class # "ok" THEN Reject("C16-start-failed", <<E.errtext>>)
                 \* Start succeeds once the plugin is configured - not before the runtime even sent the configuration
                 ELSE IF s.arg = "slow-configure" /\ ~s.cfgsent THEN Reject("C16-start-before-configured", <<E.ms>>)
                 ELSE Go("starts", [s EXCEPT !.started = TRUE, !.lost = FALSE, !.notified = "no", !.est = @ + 1])
            ELSE IF s.arg \in MustFail /\ E.class = "ok" THEN Reject("C16-start-succeeded-unexpectedly", <<s.arg>>)
            ELSE IF E.class = "ok"     \* a cut late in the handshake: the session got established, and is lost
                 THEN Go("starts", [s EXCEPT !.started = TRUE, !.lost = TRUE, !.notified = "no", !.est = @ + 1])
                 ELSE Go("starts", [s EXCEPT !.started = FALSE, !.lost = FALSE, !.notified = "no", !.failed = @ + 1, !.owed = @ + 1])
  ELSE IF E.op = "Stop"
  THEN Go("ops", [s EXCEPT !.started = FALSE, !.lost = FALSE, !.notified = "no"])
  ELSE Skip

\* the current session works iff the stub is running on a live connection
TWorks ==
  IF s.arg \in {"cut-read", "cut-write"} /\ s.started /\ s.lost THEN Go("probes", s)   \* cut exactly at the end of the handshake
  ELSE IF E.ok # Running THEN Reject(IF Running THEN "C16-session-broken" ELSE "C16-works-unexpectedly", <<>>)
  ELSE Go("probes", s)

\* every established session has ended by now and notified exactly once; failed attempts may add at most one each
TEnd ==
  IF E.aborted THEN Skip
  ELSE IF E.closes < s.est THEN Reject("C16-close-notification-missing", <<E.closes, s.est>>)
  ELSE IF E.closes > s.est + s.failed THEN Reject("C16-close-notification-repeated", <<E.closes, s.est, s.failed>>)
  ELSE Skip

TraceNext ==
  /\ l <= Len(Tr)
  /\ CASE E.ev = "Begin"   -> TBegin
       [] E.ev = "op"      -> TOp
       [] E.ev = "dial"    -> TDial
       [] E.ev = "res"     -> TRes
       [] E.ev = "onclose" -> TOnClose
       [] E.ev = "configure.sent" -> Go("ops", [s EXCEPT !.cfgsent = TRUE])
       [] E.ev = "works"   -> TWorks
       [] E.ev = "End"     -> TEnd
       [] OTHER            -> Skip
TraceSpec == TraceInit /\ [][TraceNext]_tvars
NotStuck == (l <= Len(Tr)) => ENABLED TraceNext
Done == l > Len(Tr)
ReportInv ==
  Done => /\ PrintT(<<"STATS", ToJson(stats)>>)
          /\ \A i \in DOMAIN bad : PrintT(<<"BAD", ToJson(bad[i])>>)
          /\ PrintT(<<"CONSUMED", l - 1>>)
=============================================================================
