---------------------------- MODULE Gen_MuxTable ----------------------------
(* operation sequences on one multiplexer end, from MuxTable; reads only where they return *)
EXTENDS MuxTable, Json
CONSTANT MaxOps
VARIABLES ops, emitted, initblocked
gvarsM == <<tvarsM, ops, emitted, initblocked>>
Op(o, x) == [op |-> o, x |-> x]
Do(o, x, A) == A /\ ops' = Append(ops, Op(o, x))
GInit == TInit /\ ops = <<>> /\ emitted = FALSE /\ initblocked = blocked
GStep == /\ ~emitted /\ Len(ops) < MaxOps
         /\ \/ \E i \in Ids : Do("Open", i, Open(i)) \/ Do("Send", i, Send(i))
            \/ \E h \in Handles : \/ Do("Close", h, CloseH(h))
                                  \/ (CanRead(h) /\ Do("Read", h, IF inbox[h] # <<>> THEN ReadData(h) ELSE ReadErr(h)))
            \/ Do("MClose", 0, MClose) \/ Do("Unblock", 0, Unblock)
            \* right after the close, once: an Open that must be refused
            \/ \E i \in Ids : ops # <<>> /\ ops[Len(ops)].op = "MClose" /\ Do("OpenLate", i, OpenRefused(i))
         /\ UNCHANGED <<emitted, initblocked>>
GEmit == /\ ~emitted /\ Len(ops) > 0 /\ (Len(ops) = MaxOps \/ mclosed)
         /\ PrintT(<<"CASE", ToJson([ops |-> ops, blocked |-> initblocked])>>)
         /\ emitted' = TRUE /\ UNCHANGED <<tvarsM, ops, initblocked>>
GSpec == GInit /\ [][GStep \/ GEmit]_gvarsM
=============================================================================
