--------------------------- MODULE Trace_MuxTable ---------------------------
(***************************************************************************)
(* Trace validation for the connection table (C10/C11): operation          *)
(* sequences performed on a real multiplexer end, one line per operation   *)
(* with what was observed (which handle Open returned, whether the reader  *)
(* routed the frame, what Read returned), stepped through MuxTable.        *)
(***************************************************************************)
EXTENDS MuxTable, Json

CONSTANT TraceFile
Tr == ndJsonDeserialize(TraceFile)

VARIABLES l, bad, stats
tv == <<l, bad, stats, tvarsM>>
E == Tr[l]

TraceInit == l = 1 /\ bad = <<>> /\ stats = [scenarios |-> 0, ops |-> 0, rejected |-> 0] /\ TInit
Bump(c) == [stats EXCEPT ![c] = @ + 1]
Reject(label, detail) ==
  /\ bad' = Append(bad, [scn |-> E.scn, line |-> l, labels |-> {label}, detail |-> detail])
  /\ l' = E.nb /\ stats' = Bump("rejected") /\ UNCHANGED tvarsM
Go(A) == A /\ l' = l + 1 /\ stats' = Bump("ops") /\ UNCHANGED bad

TBegin == /\ l' = l + 1 /\ stats' = Bump("scenarios") /\ UNCHANGED bad
          /\ table' = [i \in Ids |-> 0] /\ nh' = 0 /\ hid' = <<>> /\ hst' = <<>> /\ inbox' = <<>>
          /\ sent' = 0 /\ mclosed' = FALSE /\ blocked' = E.blocked

TOp ==
  LET x == E.x IN
  IF E.r = "nohandle" THEN Reject("C11-handles", <<E.op, x, nh>>) ELSE
  CASE E.op = "Open" ->
         IF ~E.same THEN Reject("C10-concurrent-open-different-connections", <<x>>)
         ELSE IF E.h # OpenResult(x) THEN Reject("C11-reopen-handle", <<x, E.h, OpenResult(x)>>) ELSE Go(Open(x))
    [] E.op = "OpenLate" -> IF E.r # "refused" THEN Reject("C11-open-after-close", <<x, E.r>>) ELSE Go(OpenRefused(x))
    [] E.op = "Close" -> Go(CloseH(x))
    [] E.op = "Send" ->
         IF E.r = "lost" THEN Reject("C10-frame-lost", <<x>>)
         ELSE IF Routed(x) /\ E.r # "routed" THEN Reject("C10-open-connection-not-routed", <<x, table[x]>>)
         ELSE IF ~Routed(x) /\ E.r = "routed" THEN Reject("C10-frame-for-unregistered-id-queued", <<x>>)
         ELSE Go(Send(x))
    [] E.op = "Read" ->
         IF E.r = "blocked" THEN Reject("C11-read-hung", <<x, hst[x], Len(inbox[x])>>)
         ELSE IF E.r = "data"
              THEN IF inbox[x] # <<>> /\ Head(inbox[x]) = E.n THEN Go(ReadData(x))
                   ELSE Reject("C10-read-wrong-data", <<x, E.n, inbox[x]>>)
         ELSE IF hst[x] = "closed" THEN Go(ReadErr(x))
              ELSE Reject("C11-read-error-on-open-connection", <<x>>)
    [] E.op = "MClose" -> IF E.r = "hung" THEN Reject("C11-close-hangs", <<blocked>>) ELSE Go(MClose)
    [] E.op = "Unblock" -> IF blocked THEN Go(Unblock) ELSE Go(UNCHANGED tvarsM)

\* after the multiplexer is closed every read returns at once (queued data or an error)
FinalBad == {h \in Handles : \/ E.final[h].r = "blocked"
                             \/ (E.final[h].r = "data" /\ (inbox[h] = <<>> \/ Head(inbox[h]) # E.final[h].n))}
TEnd ==
  IF Len(E.final) # nh THEN Reject("C11-handles", <<Len(E.final), nh>>)
  ELSE IF FinalBad # {} THEN Reject("C11-read-hung-after-close", <<FinalBad, [h \in FinalBad |-> hst[h]]>>)
  ELSE l' = l + 1 /\ UNCHANGED <<bad, stats, tvarsM>>

TraceNext ==
  /\ l <= Len(Tr)
  /\ CASE E.ev = "Begin" -> TBegin
       [] E.ev = "Op"    -> TOp
       [] E.ev = "crash" -> Reject("C11-panic", <<E.text>>)
       [] E.ev = "End"   -> TEnd
       [] E.ev = "skipped" -> l' = E.nb /\ UNCHANGED <<bad, stats, tvarsM>>   \* not replayed: Close hung in five scenarios before
TraceSpec == TraceInit /\ [][TraceNext]_tv
NotStuck == (l <= Len(Tr)) => ENABLED TraceNext
Done == l > Len(Tr)
ReportInv ==
  Done => /\ PrintT(<<"STATS", ToJson(stats)>>)
          /\ \A i \in DOMAIN bad : PrintT(<<"BAD", ToJson(bad[i])>>)
          /\ PrintT(<<"CONSUMED", l - 1>>)
=============================================================================
