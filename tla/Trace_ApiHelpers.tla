--------------------------- MODULE Trace_ApiHelpers ---------------------------
(* Trace validation for X04: the real results of the pkg/api helpers against ApiHelpers.tla. *)
EXTENDS ApiHelpers

CONSTANT TraceFile
Tr == ndJsonDeserialize(TraceFile)
VARIABLES l, bad, stats
tv == <<l, bad, stats, sc, emitted>>
E == Tr[l]
S == E.scenario
ToSet(s) == {s[i] : i \in DOMAIN s}
TraceInit == l = 1 /\ bad = <<>> /\ stats = [scenarios |-> 0, rejected |-> 0] /\ sc = 0 /\ emitted = FALSE

Labels ==
  CASE S.kind = "parse" ->
         LET want == ParseExp(S.toks) IN
         (IF want.ok # (E.err = "") THEN {"X04-parse-result"} ELSE {})
         \cup (IF want.ok /\ E.err = "" /\ ToSet(E.names) # want.ev THEN {"X04-parse-mask"} ELSE {})
         \cup (IF ~want.ok /\ E.mustpanic = FALSE THEN {"X04-mustparse-no-panic"} ELSE {})
    [] S.kind = "marker" ->
         LET w == MarkExp(S.key) IN
         IF E.marked # w.marked \/ E.key # w.key \/ E.mark # w.mark \/ E.clear # w.clear THEN {"X04-marker"} ELSE {}
    [] S.kind = "plugin-name" ->
         LET w == NameExp(S.key) IN
         (IF w.ok # (E.err = "") THEN {"X04-plugin-name-result"} ELSE {})
         \cup (IF w.ok /\ E.err = "" /\ (E.idx # w.idx \/ E.base # w.base) THEN {"X04-plugin-name-split"} ELSE {})
         \cup (IF E.idxok # IdxOK(S.key) THEN {"X04-plugin-index"} ELSE {})
    [] S.kind = "mask" ->
         LET m == MaskExp(ToSet(S.set), ToSet(S.clr)) IN
         (IF ToSet(E.names) # m THEN {"X04-mask-set-clear"} ELSE {})
         \cup (IF ToSet(E.isset) # m THEN {"X04-mask-isset"} ELSE {})
         \cup (IF S.extra # "b14" /\ E.pretty # PrettyExp(m) \o (IF S.extra = "b20" THEN <<"unknown(0x80000)">> ELSE <<>>) THEN {"X04-mask-pretty"} ELSE {})
         \cup (IF S.extra = "b14" /\ E.pretty # PrettyExp(m) \o <<"unknown(0x2000)">> THEN {"X04-mask-pretty-sentinel"} ELSE {})
         \cup (IF S.extra = "none" /\ m # {} /\ (E.reparse_err # "" \/ ToSet(E.reparsed) # m) THEN {"X04-mask-roundtrip"} ELSE {})
         \* the empty mask prints as "", which ParseEventMask refuses like any other empty list element (Meaning)
         \cup (IF S.extra = "none" /\ m = {} /\ E.reparse_err = "" THEN {"X04-mask-empty-parsed"} ELSE {})
         \cup (IF S.extra # "none" /\ E.reparse_err = "" THEN {"X04-mask-unknown-parsed"} ELSE {})
    [] S.kind = "cmp-mount" -> IF E.eq # MountEq(S.a, S.b) THEN {"X04-mount-cmp"} ELSE {}
    [] S.kind = "cmp-device" -> IF E.eq # DeviceEq(S.a, S.b) THEN {"X04-device-cmp"} ELSE {}
    [] S.kind = "hooks" ->
         (IF E.prestart # S.a.prestart \o S.b.prestart \/ E.poststop # S.a.poststop \o S.b.poststop THEN {"X04-hooks-append"} ELSE {})
         \cup (IF E.nonnil # (Len(S.a.prestart) + Len(S.a.poststop) > 0) THEN {"X04-hooks-nil"} ELSE {})
Detail == IF S.kind = "parse" THEN <<S.toks, E.err, E.names>> ELSE <<S>>

TStep ==
  /\ l <= Len(Tr) /\ l' = l + 1 /\ UNCHANGED <<sc, emitted>>
  /\ IF Labels # {}
     THEN /\ bad' = Append(bad, [scn |-> E.scn, line |-> l, labels |-> Labels, detail |-> Detail])
          /\ stats' = [stats EXCEPT !.scenarios = @ + 1, !.rejected = @ + 1]
     ELSE /\ bad' = bad /\ stats' = [stats EXCEPT !.scenarios = @ + 1]
TraceSpec == TraceInit /\ [][TStep]_tv
NotStuck == (l <= Len(Tr)) => ENABLED TStep
Done == l > Len(Tr)
ReportInv ==
  Done => /\ PrintT(<<"STATS", ToJson(stats)>>)
          /\ \A i \in DOMAIN bad : PrintT(<<"BAD", ToJson(bad[i])>>)
          /\ PrintT(<<"CONSUMED", l - 1>>)
=============================================================================
