------------------------------- MODULE Gen_Mux -------------------------------
(***************************************************************************)
(* C11 fault placements for the multiplexer driver.  In Mux.tla the faults *)
(* are the actions Cut, CloseA, CloseB (enabled at any moment) and the     *)
(* overflow branch of RPay; this module enumerates their concrete          *)
(* placements over a fixed small traffic script: the trunk cut after every *)
(* byte offset of the first frames in either direction, a close of either  *)
(* end after every number of frames with 1..8 concurrent closers, and an   *)
(* overflow at every position for queue lengths 1 and 2.                   *)
(***************************************************************************)
EXTENDS Naturals, Sequences, TLC, Json

CONSTANTS CutStep      \* 1 = every byte offset

VARIABLES sc, emitted

WritersScript == <<[end |-> "A", conn |-> 1, msgs |-> <<20, 40>>],
                   [end |-> "B", conn |-> 1, msgs |-> <<30, 12>>],
                   [end |-> "A", conn |-> 2, msgs |-> <<15>>]>>
BytesAB == (8 + 20) + (8 + 40) + (8 + 15)
BytesBA == (8 + 30) + (8 + 12)
Frames == 5

Base(f, at, n, q, st) == [qlen |-> q, conns |-> <<1, 2>>, writers |-> WritersScript, fault |-> f,
                          at |-> at, closers |-> n, stall |-> st]

Scenarios ==
       {Base("cutAB", k, 0, 16, 0) : k \in {x \in 0..(BytesAB - 1) : x % CutStep = 0}}
  \cup {Base("cutBA", k, 0, 16, 0) : k \in {x \in 0..(BytesBA - 1) : x % CutStep = 0}}
  \* the trunk fails in the write direction only, strictly inside a frame (at a frame boundary nothing is damaged)
  \cup {Base("halfAB", k, 0, 16, 0) : k \in {x \in 1..(BytesAB - 1) : x % CutStep = 1} \ {28, 76}}
  \cup {Base("halfBA", k, 0, 16, 0) : k \in {x \in 1..(BytesBA - 1) : x % CutStep = 1} \ {38}}
  \cup {Base(f, j, n, 16, 0) : f \in {"closeA", "closeB"}, j \in 0..Frames, n \in {1, 2, 8}}
  \cup {[Base("overflow", 0, 0, q, 1) EXCEPT !.writers =
           <<[end |-> "A", conn |-> 1, msgs |-> [i \in 1..n |-> 10 + i]],
             [end |-> "A", conn |-> 2, msgs |-> <<15, 16>>]>>] : q \in {1, 2}, n \in 2..5}
  \cup {Base("none", 0, 0, 16, 0)}

GInit == sc \in Scenarios /\ emitted = FALSE
GEmit == ~emitted /\ PrintT(<<"CASE", ToJson(sc)>>) /\ emitted' = TRUE /\ UNCHANGED sc
GSpec == GInit /\ [][GEmit]_<<sc, emitted>>
=============================================================================
