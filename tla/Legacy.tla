------------------------------- MODULE Legacy -------------------------------
(***************************************************************************)
(* X05 (beyond the listed properties): the v0.1.0 plugin chain             *)
(* (client.go Client.InvokeWithSandbox / invokePlugin / createSpec,        *)
(* skel/skel.go Run, types/v1).                                            *)
(*                                                                         *)
(* The configuration list names plugin executables; for one request they   *)
(* are executed one after the other ("<type> invoke", request as JSON on   *)
(* standard input, result as JSON on standard output).  Every plugin gets  *)
(* its own configuration and the results of all earlier plugins; the first *)
(* failure ends the chain and the caller gets an error naming the plugin   *)
(* and no results.  One action per plugin execution.                       *)
(*                                                                         *)
(* Named deviation (what the code does, found by reading invokePlugin):    *)
(* the exit status is only reported inside an error message - a plugin     *)
(* that prints a well-formed result without an error and exits with a      *)
(* non-zero status counts as successful (ExitStatusIgnored).               *)
(***************************************************************************)
EXTENDS Naturals, Sequences, FiniteSets, TLC

\* how one plugin execution ends
Behaviours == {"ok",            \* skel: Invoke returns a result
               "error",         \* skel: Invoke returns an error -> result with the error text
               "result-error",  \* skel: Invoke returns a result whose Error field is set
               "garbage",       \* prints something that is not JSON, exits 0
               "empty",         \* prints nothing, exits 0
               "exit3-silent",  \* prints nothing, exits 3
               "exit3-result",  \* prints a well-formed result without error, exits 3
               "exit3-error",   \* prints a result with an error, exits 3
               "missing",       \* the executable does not exist
               "hang"}          \* never answers: killed when the caller's context expires
Succeeds(b) == b \in {"ok", "exit3-result"}
Runs(b) == b # "missing"        \* the plugin process gets to see the request

CONSTANT Chains                 \* the set of plugin chains explored (sequences of behaviours)
VARIABLES chain,     \* the configured chain of this behaviour
          pos,       \* the plugin executed next
          acc,       \* results collected so far (plugin positions)
          seen,      \* what the executed plugins were shown: <<[plugin, results]>>
          outcome    \* "running" | "ok" | "failed"
cvars == <<chain, pos, acc, seen, outcome>>

CInit == /\ chain \in Chains /\ pos = 1 /\ acc = <<>> /\ seen = <<>>
         /\ outcome = IF Len(chain) = 0 THEN "ok" ELSE "running"

Invoke == /\ outcome = "running" /\ pos <= Len(chain)
          /\ LET b == chain[pos] IN
             /\ seen' = IF Runs(b) THEN Append(seen, [plugin |-> pos, results |-> acc]) ELSE seen
             /\ IF Succeeds(b)
                THEN /\ acc' = Append(acc, pos) /\ pos' = pos + 1
                     /\ outcome' = IF pos = Len(chain) THEN "ok" ELSE "running"
                ELSE /\ acc' = acc /\ pos' = pos /\ outcome' = "failed"
          /\ UNCHANGED chain
CNext == Invoke
CSpec == CInit /\ [][CNext]_cvars /\ WF_cvars(CNext)

\* what the caller gets: all results, or nothing and an error blaming plugin `pos`
Returned == IF outcome = "ok" THEN acc ELSE <<>>
Blamed == IF outcome = "failed" THEN pos ELSE 0

\* ------------------------------------------------------------- properties --
Upto(n) == [i \in 1..n |-> i]
\* plugins run in the configured order, each at most once, and none after a failure
InOrderOnce == \A i \in DOMAIN seen : seen[i].plugin >= i /\ (i > 1 => seen[i].plugin > seen[i-1].plugin)
\* every plugin is shown exactly the results of all plugins before it
SeesEarlier == \A i \in DOMAIN seen : seen[i].results = Upto(seen[i].plugin - 1)
\* nothing runs behind a failed plugin; every plugin before it succeeded
FailFast == outcome = "failed" => /\ \A i \in DOMAIN seen : seen[i].plugin <= pos
                                  /\ ~Succeeds(chain[pos]) /\ \A j \in 1..(pos - 1) : Succeeds(chain[j])
Complete == outcome = "ok" => Returned = Upto(Len(chain)) /\ \A j \in DOMAIN chain : Succeeds(chain[j])
NoPartial == outcome # "ok" => Returned = <<>>
\* the deviation
ExitStatusIgnored == \E b \in Behaviours : Succeeds(b) /\ b = "exit3-result"
Terminates == <>(outcome # "running")

\* ----------------------------------------------------------- the request --
\* what a plugin is shown of the task and the sandbox (createSpec + Request)
SpecKinds == {"linux", "linux-bare", "windows", "none"}
SpecView(k) ==
  CASE k = "linux"      -> [cgroups |-> "/cg/x", namespaces |-> {<<"network", "/proc/7/ns/net">>, <<"pid", "">>},
                            annotations |-> {<<"a", "1">>}, resources |-> "json"]
    [] k = "linux-bare" -> [cgroups |-> "", namespaces |-> {}, annotations |-> {}, resources |-> "null"]
    [] k = "windows"    -> [cgroups |-> "", namespaces |-> {}, annotations |-> {<<"w", "1">>}, resources |-> "json"]
    [] k = "none"       -> [cgroups |-> "", namespaces |-> {}, annotations |-> {}, resources |-> "null"]
SandboxKinds == {"none", "same", "other"}
States == {"create", "delete", "update", "pause", "resume"}
SandboxID(k, id) == CASE k = "none" -> "" [] k = "same" -> id [] k = "other" -> "sb-1"

\* ------------------------------------------------- skel.Run as a program --
\* the arguments after the program name, what is on standard input, what the plugin's Invoke does
SkelArgs == {<<>>, <<"invoke">>, <<"bogus">>, <<"invoke", "more">>, <<"">>}
SkelStdin == {"request", "garbage", "empty"}
SkelBeh == {"ok", "error", "result-error"}
\* exit status (zero or not) and what is on standard output: nothing, a result, a result carrying an error
\* (a request that cannot be read is the only failure of the program itself; anything but "invoke" is answered
\*  with an error result - including no argument at all, which the code answers with a Go panic: finding)
SkelOutcome(args, stdin, beh) ==
  IF stdin # "request" THEN [zero |-> FALSE, out |-> "none"]
  ELSE IF Len(args) > 0 /\ args[1] = "invoke" THEN [zero |-> TRUE, out |-> IF beh = "ok" THEN "result" ELSE "error-result"]
  ELSE [zero |-> TRUE, out |-> "error-result"]
\* whatever happens, a plugin that exits with status zero has printed a result
SkelAnswers == \A a \in SkelArgs, i \in SkelStdin, b \in SkelBeh : SkelOutcome(a, i, b).zero => SkelOutcome(a, i, b).out # "none"
=============================================================================
