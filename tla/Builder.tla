------------------------------- MODULE Builder -------------------------------
(***************************************************************************)
(* X01 (beyond the listed properties): the plugin-facing builder API of    *)
(* pkg/api/adjustment.go and pkg/api/update.go.  Every plugin - and the    *)
(* runtime adaptation itself when it combines responses - builds its       *)
(* ContainerAdjustment / ContainerUpdate through these methods.            *)
(*                                                                         *)
(* State: the adjustment (update) built so far, in the wire shape of       *)
(* Container.tla.  One action per builder method.  The design-level        *)
(* question TLC answers: when is the adjustment built by a sequence of     *)
(* calls, applied as a whole (NriApply), the same as performing the calls  *)
(* one after another?  Answer (invariant IntentKept): whenever no key is   *)
(* removed after it was added within the same adjustment; the code's       *)
(* documented "implicit ordering assumption" (a removal after an addition  *)
(* of the same key is ineffective - the set wins) is the named deviation   *)
(* RemovalAfterAddIneffective.                                             *)
(***************************************************************************)
EXTENDS Container, Json

\* a call is [op, k, v, l]: l = argument list (args, hook ids)
Call(op, k, v, l) == [op |-> op, k |-> k, v |-> v, l |-> l]

\* which scalar field each SetLinux* method writes
SetterField ==
  [SetLinuxMemoryLimit |-> "mem.limit", SetLinuxMemoryReservation |-> "mem.reservation",
   SetLinuxMemorySwap |-> "mem.swap", SetLinuxMemoryKernel |-> "mem.kernel",
   SetLinuxMemoryKernelTCP |-> "mem.kerneltcp", SetLinuxMemorySwappiness |-> "mem.swappiness",
   SetLinuxMemoryDisableOomKiller |-> "mem.disableoom", SetLinuxMemoryUseHierarchy |-> "mem.usehierarchy",
   SetLinuxCPUShares |-> "cpu.shares", SetLinuxCPUQuota |-> "cpu.quota", SetLinuxCPUPeriod |-> "cpu.period",
   SetLinuxCPURealtimeRuntime |-> "cpu.rtruntime", SetLinuxCPURealtimePeriod |-> "cpu.rtperiod",
   SetLinuxCPUSetCPUs |-> "cpu.cpus", SetLinuxCPUSetMems |-> "cpu.mems", SetLinuxPidLimits |-> "pids",
   SetLinuxBlockIOClass |-> "blockio", SetLinuxRDTClass |-> "rdt",
   SetLinuxCgroupsPath |-> "cgpath", SetLinuxOomScoreAdj |-> "oom"]
Setters == DOMAIN SetterField
AdjustOnly == {"SetLinuxCgroupsPath", "SetLinuxOomScoreAdj"}
\* string fields for which the empty string is "unset" on the wire
EmptyIsUnset == {"cpu.cpus", "cpu.mems", "cgpath"}
\* the two argument-less setters record "true"
Flag == {"SetLinuxMemoryDisableOomKiller", "SetLinuxMemoryUseHierarchy"}

SetScalar(res, f, v) == IF f \in EmptyIsUnset /\ v = "" THEN MapDel(res, {f}) ELSE MapPut(res, [x \in {f} |-> v])

HookStages(k) == IF k = "all" THEN Stages ELSE {k}

\* ------------------------------------------------------- adjustment builder --
BApply(a, c) ==
  LET op == c.op IN
  CASE op = "AddAnnotation"    -> [a EXCEPT !.ann = MapPut(@, [x \in {c.k} |-> c.v])]
    [] op = "RemoveAnnotation" -> [a EXCEPT !.ann = MapPut(@, [x \in {Mark(c.k)} |-> ""])]
    [] op = "AddEnv"           -> [a EXCEPT !.env = Append(@, [k |-> c.k, v |-> c.v])]
    [] op = "RemoveEnv"        -> [a EXCEPT !.env = Append(@, [k |-> Mark(c.k), v |-> ""])]
    [] op = "AddMount"         -> [a EXCEPT !.mnt = Append(@, [k |-> c.k, v |-> c.v])]
    [] op = "RemoveMount"      -> [a EXCEPT !.mnt = Append(@, [k |-> Mark(c.k), v |-> ""])]
    [] op = "AddDevice"        -> [a EXCEPT !.dev = Append(@, [k |-> c.k, v |-> c.v])]
    [] op = "RemoveDevice"     -> [a EXCEPT !.dev = Append(@, [k |-> Mark(c.k), v |-> ""])]
    [] op = "SetArgs"          -> [a EXCEPT !.args = c.l]
    [] op = "UpdateArgs"       -> [a EXCEPT !.args = <<"">> \o c.l]
    [] op = "AddHooks"         -> [a EXCEPT !.hooks = [s \in Stages |-> IF s \in HookStages(c.k) THEN @[s] \o c.l ELSE @[s]]]
    [] op = "AddRlimit"        -> [a EXCEPT !.rlim = Append(@, [k |-> c.k, v |-> c.v])]
    [] op = "AddCDIDevice"     -> [a EXCEPT !.cdi = Append(@, c.k)]
    [] op = "AddLinuxHugepageLimit" -> [a EXCEPT !.hp = Append(@, [k |-> c.k, v |-> c.v])]
    [] op = "AddLinuxUnified"  -> [a EXCEPT !.uni = MapPut(@, [x \in {c.k} |-> c.v])]
    [] op = "SetLinuxOomScoreAdj" -> IF c.v = "nil" THEN [a EXCEPT !.res = MapDel(@, {"oom"})]
                                     ELSE [a EXCEPT !.res = SetScalar(@, "oom", c.v)]
    [] op \in Setters \ {"SetLinuxOomScoreAdj"} ->
         [a EXCEPT !.res = SetScalar(@, SetterField[op], IF op \in Flag THEN "true" ELSE c.v)]

BFold(calls) == LET F[i \in 0..Len(calls)] == IF i = 0 THEN EmptyAdjust ELSE BApply(F[i-1], calls[i]) IN F[Len(calls)]

\* ----------------------------------------------------------- update builder --
EmptyUpdate == [target |-> "", res |-> EmptyMap, hp |-> <<>>, uni |-> EmptyMap, ignore |-> FALSE]
UApply(u, c) ==
  LET op == c.op IN
  CASE op = "SetContainerId"   -> [u EXCEPT !.target = c.k]
    [] op = "SetIgnoreFailure" -> [u EXCEPT !.ignore = TRUE]
    [] op = "AddLinuxHugepageLimit" -> [u EXCEPT !.hp = Append(@, [k |-> c.k, v |-> c.v])]
    [] op = "AddLinuxUnified"  -> [u EXCEPT !.uni = MapPut(@, [x \in {c.k} |-> c.v])]
    [] op \in Setters \ AdjustOnly ->
         [u EXCEPT !.res = SetScalar(@, SetterField[op], IF op \in Flag THEN "true" ELSE c.v)]
UFold(calls) == LET F[i \in 0..Len(calls)] == IF i = 0 THEN EmptyUpdate ELSE UApply(F[i-1], calls[i]) IN F[Len(calls)]

\* ------------------------------------------------ intent versus built value --
\* performing the calls one after another, each as an adjustment of its own
Intent(c, calls) ==
  LET F[i \in 0..Len(calls)] == IF i = 0 THEN c ELSE NriApply(F[i-1], BApply(EmptyAdjust, calls[i])) IN F[Len(calls)]
Family(op) == CASE op \in {"AddAnnotation", "RemoveAnnotation"} -> "ann"
                [] op \in {"AddEnv", "RemoveEnv"} -> "env"
                [] op \in {"AddMount", "RemoveMount"} -> "mnt"
                [] op \in {"AddDevice", "RemoveDevice"} -> "dev"
                [] OTHER -> "other"
IsRemove(op) == op \in {"RemoveAnnotation", "RemoveEnv", "RemoveMount", "RemoveDevice"}
IsAdd(op) == op \in {"AddAnnotation", "AddEnv", "AddMount", "AddDevice"}
RemoveAfterAdd(calls) ==
  \E i, j \in DOMAIN calls : /\ i < j /\ IsAdd(calls[i].op) /\ IsRemove(calls[j].op)
                             /\ Family(calls[i].op) = Family(calls[j].op) /\ calls[i].k = calls[j].k

ArgsOps == {"SetArgs", "UpdateArgs"}
\* single-valued slots a call overwrites: the command line, or one scalar field
Slot(c) == IF c.op \in ArgsOps THEN "args" ELSE IF c.op \in Setters THEN SetterField[c.op] ELSE "none"
\* a call that, as an adjustment of its own, changes nothing (empty command line, "" for a string field, nil)
Blank(c) == LET a == BApply(EmptyAdjust, c) IN a.res = EmptyMap /\ ~ArgsSets(a.args)
\* a blank call on a slot written before: the earlier value is silently withdrawn
Withdrawn(cs) ==
  \E i, j \in DOMAIN cs : i < j /\ Slot(cs[i]) # "none" /\ Slot(cs[i]) = Slot(cs[j]) /\ ~Blank(cs[i]) /\ Blank(cs[j])

\* ---------------------------------------------------------------- scenarios --
CONSTANTS Mode, MaxLen
VARIABLES calls, emitted

Keys == {"k1", "k2"}
Vals == {"v1", "v2"}
KeyedCalls(add, rm) == {Call(add, k, v, <<>>) : k \in Keys, v \in Vals} \cup {Call(rm, k, "", <<>>) : k \in Keys}
MntVals == {"/s1|bind|ro", "/s2|tmpfs|"}
DevVals == {"c|1|3", "b|8|0|420|0|0"}
ScalarVal(op) ==
  CASE op \in {"SetLinuxMemoryLimit", "SetLinuxMemoryReservation", "SetLinuxMemorySwap", "SetLinuxMemoryKernel",
               "SetLinuxMemoryKernelTCP", "SetLinuxCPUQuota", "SetLinuxCPURealtimeRuntime", "SetLinuxPidLimits"}
         -> {"0", "-1", "4096"}
    [] op \in {"SetLinuxMemorySwappiness", "SetLinuxCPUShares", "SetLinuxCPUPeriod", "SetLinuxCPURealtimePeriod"} -> {"0", "7"}
    [] op \in Flag -> {"true"}
    [] op \in {"SetLinuxCPUSetCPUs", "SetLinuxCPUSetMems"} -> {"", "0-3"}
    [] op \in {"SetLinuxBlockIOClass", "SetLinuxRDTClass"} -> {"", "cls"}
    [] op = "SetLinuxCgroupsPath" -> {"", "/cg/x"}
    [] op = "SetLinuxOomScoreAdj" -> {"nil", "0", "-999"}
ScalarCalls(S) == UNION {{Call(op, "", v, <<>>) : v \in ScalarVal(op)} : op \in S}

Alphabet ==
  CASE Mode = "ann" -> KeyedCalls("AddAnnotation", "RemoveAnnotation")
    [] Mode = "env" -> KeyedCalls("AddEnv", "RemoveEnv")
    [] Mode = "mnt" -> {Call("AddMount", k, v, <<>>) : k \in {"/m1", "/m2"}, v \in MntVals}
                       \cup {Call("RemoveMount", k, "", <<>>) : k \in {"/m1", "/m2"}}
    [] Mode = "dev" -> {Call("AddDevice", k, v, <<>>) : k \in {"/dev/a", "/dev/b"}, v \in DevVals}
                       \cup {Call("RemoveDevice", k, "", <<>>) : k \in {"/dev/a", "/dev/b"}}
    [] Mode = "mixed" -> {Call("AddAnnotation", "k1", "v1", <<>>), Call("RemoveAnnotation", "k1", "", <<>>),
                          Call("AddEnv", "k1", "v1", <<>>), Call("RemoveEnv", "k1", "", <<>>),
                          Call("AddMount", "/m1", "/s1|bind|ro", <<>>), Call("RemoveMount", "/m1", "", <<>>),
                          Call("AddDevice", "/dev/a", "c|1|3", <<>>), Call("RemoveDevice", "/dev/a", "", <<>>),
                          Call("SetArgs", "", "", <<"a", "b">>), Call("SetLinuxCPUShares", "", "7", <<>>),
                          Call("AddLinuxUnified", "k1", "v1", <<>>)}
    [] Mode = "misc" -> {Call("SetArgs", "", "", l) : l \in {<<>>, <<"a">>, <<"a", "b">>, <<"", "x">>}}
                        \cup {Call("UpdateArgs", "", "", l) : l \in {<<>>, <<"c">>}}
                        \cup {Call("AddHooks", s, "", l) : s \in Stages \cup {"all"}, l \in {<<"h1">>, <<"h2", "h3">>}}
                        \cup {Call("AddHooks", "prestart", "", <<>>)}
                        \cup {Call("AddRlimit", t, v, <<>>) : t \in {"RLIMIT_NOFILE", "RLIMIT_CORE"}, v \in {"10:5", "0:0"}}
                        \cup {Call("AddCDIDevice", n, "", <<>>) : n \in {"vendor.com/dev=a", "vendor.com/dev=b"}}
    [] Mode = "scalar" -> ScalarCalls(Setters)
                        \cup {Call("AddLinuxHugepageLimit", k, v, <<>>) : k \in {"2MB", "1GB"}, v \in {"0", "5"}}
                        \cup {Call("AddLinuxUnified", k, v, <<>>) : k \in Keys, v \in Vals}
    [] Mode = "update" -> ScalarCalls(Setters \ AdjustOnly)
                        \cup {Call("AddLinuxHugepageLimit", k, v, <<>>) : k \in {"2MB"}, v \in {"0", "5"}}
                        \cup {Call("AddLinuxUnified", k, v, <<>>) : k \in {"k1"}, v \in Vals}
                        \cup {Call("SetContainerId", k, "", <<>>) : k \in {"c0", "c1"}}
                        \cup {Call("SetIgnoreFailure", "", "", <<>>)}
Target == IF Mode = "update" THEN "update" ELSE "adjust"

GInit == calls = <<>> /\ emitted = FALSE
GEmit == /\ ~emitted /\ Len(calls) > 0
         /\ PrintT(<<"CASE", ToJson([target |-> Target, calls |-> calls])>>)
         /\ emitted' = TRUE /\ UNCHANGED calls
GCall == /\ (emitted \/ calls = <<>>) /\ Len(calls) < MaxLen
         /\ \E c \in Alphabet : calls' = Append(calls, c)
         /\ emitted' = FALSE
GSpec == GInit /\ [][GEmit \/ GCall]_<<calls, emitted>>

\* --------------------------------------------------------------- properties --
\* a container with one key of every keyed family present
Probe == [EmptyContainer EXCEPT !.ann = [x \in {"k1"} |-> "orig"], !.env = [x \in {"k1"} |-> "orig"],
                                !.mnt = [x \in {"/m1"} |-> "orig"], !.dev = [x \in {"/dev/a"} |-> "orig"],
                                !.args = <<"orig">>]
Containers == {EmptyContainer, Probe}

IntentKept == (Target = "adjust" /\ ~RemoveAfterAdd(calls) /\ ~Withdrawn(calls)) =>
                 \A c \in Containers : NriApply(c, BFold(calls)) = Intent(c, calls)
\* the named deviation: the removal is lost, the earlier addition survives
RemovalAfterAddIneffective ==
  (Target = "adjust" /\ Len(calls) = 2 /\ IsAdd(calls[1].op) /\ IsRemove(calls[2].op)
   /\ Family(calls[1].op) = Family(calls[2].op) /\ calls[1].k = calls[2].k) =>
      LET f == Family(calls[1].op) IN
      /\ calls[1].k \in DOMAIN NriApply(Probe, BFold(calls))[f]
      /\ calls[1].k \notin DOMAIN Intent(Probe, calls)[f]
\* the second named deviation: a blank call silently withdraws the earlier value of its slot
BlankWithdraws ==
  (Target = "adjust" /\ Len(calls) = 2 /\ Withdrawn(calls)) =>
      /\ NriApply(Probe, BFold(calls)) = Probe
      /\ Intent(Probe, calls) # Probe
\* updates: every field holds the value of the last call that wrote it
LastWriter == Target = "update" =>
   \A i \in DOMAIN calls : calls[i].op \in Setters \ AdjustOnly =>
      LET f == SetterField[calls[i].op]
          later == \E j \in DOMAIN calls : j > i /\ calls[j].op = calls[i].op
          v == IF calls[i].op \in Flag THEN "true" ELSE calls[i].v
      IN later \/ (IF f \in EmptyIsUnset /\ v = "" THEN f \notin DOMAIN UFold(calls).res
                   ELSE f \in DOMAIN UFold(calls).res /\ UFold(calls).res[f] = v)
=============================================================================
