------------------------------- MODULE Gen_Reg -------------------------------
(***************************************************************************)
(* C17 registration scenarios: every class of identity, subscription mask  *)
(* and handshake stall, alone and as "k bad plugins ahead of a good one"   *)
(* (the accept loop is sequential).  Well-formedness itself is decided by  *)
(* the trace specification from the raw strings (Trace_Relay.WellFormed).  *)
(***************************************************************************)
EXTENDS Naturals, Sequences, TLC, Json

CONSTANTS MaxBad      \* longest prefix of bad plugins ahead of a good one

VARIABLES sc, emitted

Names  == {"ok", "empty"}
Idxs   == {"ok", "empty", "one", "three", "alpha", "mixed", "sign", "space", "unicode", "fullwidth",
           "arabic1", "persian1", "nko1", "latin1", "plus", "dot", "hex", "exp", "newline"}
Masks  == {"zero", "subset", "all", "foreign", "high", "sign", "cfgerror"}
Stalls == {"none", "noregister", "noconfigure", "lateregister"}   \* lateregister: after the registration timeout, within the (longer) request timeout

Att(n, i, m, s) == [name |-> n, idx |-> i, mask |-> m, stall |-> s]
Good == Att("ok", "ok", "subset", "none")
\* every class combination that does not stall (cheap), and each stall with a few identities
Single == {Att(n, i, m, "none") : n \in Names, i \in Idxs, m \in Masks}
     \cup {Att(n, i, "zero", s) : n \in Names, i \in {"ok", "alpha"}, s \in Stalls \ {"none"}}
Bads == {Att("ok", "ok", "cfgerror", "none"), Att("empty", "ok", "zero", "none"), Att("ok", "three", "zero", "none"), Att("ok", "ok", "foreign", "none"),
         Att("ok", "ok", "sign", "none"), Att("ok", "ok", "zero", "noregister"), Att("ok", "ok", "zero", "noconfigure")}

Scenarios ==
       {[attempts |-> <<a, Good>>] : a \in Single}
  \cup UNION {{[attempts |-> bs \o <<Good>>] : bs \in [1..k -> Bads]} : k \in 2..MaxBad}
  \cup {[attempts |-> <<Good, Att("ok", "ok", "zero", "none"), Att("ok", "ok", "all", "none")>>]}

GInit == sc \in Scenarios /\ emitted = FALSE
GEmit == ~emitted /\ PrintT(<<"CASE", ToJson(sc)>>) /\ emitted' = TRUE /\ UNCHANGED sc
GSpec == GInit /\ [][GEmit]_<<sc, emitted>>
=============================================================================
