---------------------------- MODULE Trace_Convert ----------------------------
(***************************************************************************)
(* Trace validation for C14: every logged call of the exported conversion, *)
(* copy, optional and event-mask functions is compared with Convert.tla.   *)
(***************************************************************************)
EXTENDS Convert

CONSTANT TraceFile
Tr == ndJsonDeserialize(TraceFile)

VARIABLES l, bad, stats
tvars == <<l, bad, stats, sc, emitted>>
E == Tr[l]

TraceInit == l = 1 /\ bad = <<>> /\ stats = [scenarios |-> 0, rejected |-> 0] /\ sc = 0 /\ emitted = FALSE

Same3(o, w) == o.res = w.res /\ o.hpl = w.hpl /\ o.uni = w.uni
Same4(o, w) == Same3(o, w) /\ o.devc = w.devc
DiffR(o, w) == {f \in {"res", "hpl", "uni"} : o[f] # w[f]} \cup (IF "devc" \in DOMAIN w /\ o.devc # w.devc THEN {"devc"} ELSE {})

FirstEq(x) == LET F[i \in 0..Len(x)] == IF i = 0 THEN 0 ELSE IF F[i-1] # 0 THEN F[i-1] ELSE IF SubSeq(x, i, i) = "=" THEN i ELSE 0
              IN F[Len(x)]

Labels ==
  LET k == E.kind  in == E["in"] IN
  CASE k = "res" ->
         (IF ~Same4(E.tooci, ConvRes(in)) \/ E.tooci.nil THEN {"C14-resources-to-oci"} ELSE {})
    \cup (IF ~Same4(E.back, ConvRes(in)) \/ E.back.nil THEN {"C14-resources-from-oci"} ELSE {})
    \cup (IF ~E.niltooci THEN {"C14-nil-resources"} ELSE {})
    [] k = "copy" ->
         (IF ~Same3(E.copy, CopyRes(in)) THEN {"C14-copy-differs"} ELSE {})
    \cup (IF ~Same3(E.other, E.before) THEN {"C14-copy-shares-state"} ELSE {})
    [] k = "mount" ->
         (IF E.tooci # [x \in {in.k} |-> in.v] \/ E.toociq # [x \in {in.k} |-> in.v] THEN {"C14-mount-to-oci"} ELSE {})
    \cup (IF E.back # [x \in {in.k} |-> in.v] THEN {"C14-mount-from-oci"} ELSE {})
    \cup (IF E.alias THEN {"C14-mount-shares-state"} ELSE {})
    [] k = "device" ->
         (IF E.tooci # [x \in {in.k} |-> in.v] THEN {"C14-device-to-oci"} ELSE {})
    \cup (IF E.back # [x \in {in.k} |-> in.v] THEN {"C14-device-from-oci"} ELSE {})
    [] k = "hook" ->
         (IF E.tooci # in.hook THEN {"C14-hook-to-oci"} ELSE {})
    \cup (IF E.back # in.hook \/ E.stages # <<in.k>> THEN {"C14-hook-from-oci"} ELSE {})
    \cup (IF E.alias THEN {"C14-hook-shares-state"} ELSE {})
    [] k = "env" ->
         LET p == FirstEq(in.v) IN
         (IF p = 0 \/ E.key # SubSeq(in.v, 1, p - 1) \/ E.val # SubSeq(in.v, p + 1, Len(in.v)) THEN {"C14-env-from-oci"} ELSE {})
    \cup (IF E.back # in.v THEN {"C14-env-to-oci"} ELSE {})
    [] k = "optional" ->
         IF in.arg \in NilArgs
         THEN (IF ~E.out.nil THEN {"C14-optional-nil"} ELSE {})
         ELSE (IF E.out.nil \/ E.out.val # in.val THEN {"C14-optional-value"} ELSE {})
    [] k = "mask" ->
         (IF E.names # NamesOf(in.mask) THEN {"C14-mask-print"} ELSE {})
    \cup (IF E.perr \/ E.parsed # in.mask THEN {"C14-mask-parse"} ELSE {})
    \cup (IF E.isset # [j \in DOMAIN BitsOf(in.mask) |-> ToString(BitsOf(in.mask)[j])] THEN {"C14-mask-isset"} ELSE {})

Detail ==
  LET k == E.kind  in == E["in"] IN
  IF k = "res" THEN <<DiffR(E.tooci, ConvRes(in)), DiffR(E.back, ConvRes(in))>>
  ELSE IF k = "copy" THEN <<DiffR(E.copy, CopyRes(in)), DiffR(E.other, E.before), in.mut, in.side>>
  ELSE IF k = "optional" THEN <<in.ctor, in.arg, in.val, E.out>>
  ELSE IF k = "mask" THEN <<in.mask, E.printed, E.parsed>>
  ELSE <<k>>

TConv ==
  /\ l <= Len(Tr)
  /\ l' = l + 1 /\ UNCHANGED <<sc, emitted>>
  /\ IF Labels # {}
     THEN /\ bad' = Append(bad, [scn |-> E.scn, line |-> l, labels |-> Labels, detail |-> Detail])
          /\ stats' = [stats EXCEPT !.scenarios = @ + 1, !.rejected = @ + 1]
     ELSE /\ bad' = bad /\ stats' = [stats EXCEPT !.scenarios = @ + 1]

TraceSpec == TraceInit /\ [][TConv]_tvars
NotStuck == (l <= Len(Tr)) => ENABLED TConv
Done == l > Len(Tr)
ReportInv ==
  Done => /\ PrintT(<<"STATS", ToJson(stats)>>)
          /\ \A i \in DOMAIN bad : PrintT(<<"BAD", ToJson(bad[i])>>)
          /\ PrintT(<<"CONSUMED", l - 1>>)
=============================================================================
