----------------------------- MODULE MuxSplitInd -----------------------------
(***************************************************************************)
(* C10, unbounded: the frame-splitting loop of mux.write() for a payload   *)
(* of ANY length N and any positive maximum frame payload Max (integers    *)
(* unbounded).  IndInv is inductive; it implies that the loop writes every *)
(* byte exactly once, in order (sent + rem = N, the frames are consecutive *)
(* slices), that no frame exceeds Max, that an empty payload is one empty  *)
(* frame, and (Variant) that every iteration but the last one of an empty  *)
(* payload makes progress.                                                 *)
(***************************************************************************)
EXTENDS Integers

CONSTANTS
  \* @type: Int;
  N,
  \* @type: Int;
  Max

VARIABLES
  \* @type: Int;
  rem,      \* len(data): bytes not yet written
  \* @type: Int;
  size,     \* the variable `size` at the head of the loop
  \* @type: Int;
  sent,     \* bytes written so far (offset of the next frame in the payload)
  \* @type: Int;
  last,     \* size of the frame written last
  \* @type: Int;
  frames,
  \* @type: Str;
  pc

Min(a, b) == IF a < b THEN a ELSE b

ConstInit == N \in Nat /\ Max \in Nat /\ Max > 0

Init == rem = N /\ size = N /\ sent = 0 /\ last = 0 /\ frames = 0 /\ pc = "head"

Iter ==
  /\ pc = "head"
  /\ LET s == Min(size, Max) IN
       /\ last' = s /\ sent' = sent + s /\ frames' = frames + 1
       /\ rem' = rem - s
       /\ size' = Min(s, rem - s)
       /\ pc' = IF Min(s, rem - s) = 0 THEN "done" ELSE "head"
Next == Iter

IndInv ==
  /\ pc \in {"head", "done"}
  /\ N >= 0 /\ Max > 0
  /\ rem >= 0 /\ sent >= 0 /\ sent + rem = N
  /\ 0 <= last /\ last <= Max
  /\ frames >= 0
  /\ pc = "head" => (size = rem \/ (size = Max /\ rem > Max))
  /\ pc = "head" => (frames = 0 => (sent = 0 /\ rem = N))
  /\ pc = "head" => (frames > 0 => size > 0)
  /\ pc = "done" => (rem = 0 /\ sent = N /\ frames >= 1)
IndInit == /\ rem \in Int /\ size \in Int /\ sent \in Int /\ last \in Int /\ frames \in Int /\ pc \in {"head", "done"}
           /\ IndInv

\* every iteration writes something, except the single empty frame of an empty payload
Variant == (pc = "head" /\ N > 0) => (rem' < rem)
=============================================================================
