------------------------------ MODULE SyncChunk ------------------------------
(***************************************************************************)
(* C09: synchronising a plugin with a state that may exceed the transport's *)
(* message size limit (pkg/adaptation/plugin.go synchronize(),              *)
(* recalcObjsPerSyncMsg(); pkg/stub/stub.go collectSync()/deliverSync()).   *)
(*                                                                          *)
(* Sender: sends pp pods and cp containers per message; an oversized        *)
(* message is not transmitted and makes the sender shrink the counts; a     *)
(* message that fits is accumulated by the receiver, the last one delivers  *)
(* the whole state to the plugin's handler.  The policy written here is the *)
(* intended one: counts are always clamped to what remains and a non-final  *)
(* message always carries something.                                        *)
(***************************************************************************)
EXTENDS Naturals, Sequences, FiniteSets, TLC, Json

CONSTANTS L,          \* message size limit (units)
          MinObjs,    \* below this many objects per message the sender gives up
          MaxPods, MaxCtrs, PodSizes, CtrSizes,
          AsIs        \* TRUE: transcription of the policy before the repair (negative control)

VARIABLES pods, ctrs,   \* sizes of the runtime's pods / containers (object i is identified by its position)
          sp, sc,       \* objects already transmitted
          pp, cp,       \* objects per message
          acc,          \* receiver: <<number of pods, number of containers>> accumulated
          calls,        \* invocations of the plugin's handler
          delivered,    \* what the handler was given
          sends,        \* messages attempted
          pc,           \* "send" | "ok" | "fail"
          emitted

svars == <<pods, ctrs, sp, sc, pp, cp, acc, calls, delivered, sends, pc, emitted>>

Min(a, b) == IF a < b THEN a ELSE b
Sum(s, a, b) == LET F[i \in (a-1)..b] == IF i < a THEN 0 ELSE F[i-1] + s[i] IN F[b]
RemP == Len(pods) - sp
RemC == Len(ctrs) - sc
MsgSize == Sum(pods, sp + 1, sp + pp) + Sum(ctrs, sc + 1, sc + cp)
More == pp < RemP \/ cp < RemC

\* clamp to what is left; never 0 + 0 while something is left
Clamp(p, c, rp, rc) ==
  LET p1 == Min(p, rp)  c1 == Min(c, rc)
  IN IF p1 + c1 = 0 /\ rp + rc > 0 THEN (IF rp > 0 THEN <<1, 0>> ELSE <<0, 1>>) ELSE <<p1, c1>>

SInit ==
  /\ \E np \in 0..MaxPods, nc \in 0..MaxCtrs, ps \in PodSizes, cs \in CtrSizes :
        pods = [i \in 1..np |-> ps] /\ ctrs = [i \in 1..nc |-> cs]
  /\ sp = 0 /\ sc = 0 /\ pp = Len(pods) /\ cp = Len(ctrs)
  /\ acc = <<0, 0>> /\ calls = 0 /\ delivered = <<>> /\ sends = 0 /\ pc = "send" /\ emitted = FALSE

\* a profile is emitted together with what the policy specified here makes of it
Emit ==
  /\ ~emitted /\ pc \in {"ok", "fail"} /\ emitted' = TRUE
  /\ PrintT(<<"CASE", ToJson([pods |-> pods, ctrs |-> ctrs, expect |-> pc])>>)
  /\ UNCHANGED <<pods, ctrs, sp, sc, pp, cp, acc, calls, delivered, sends, pc>>

\* the message fits: transmitted, collected or delivered
SendOK ==
  /\ pc = "send" /\ MsgSize <= L
  /\ sends' = sends + 1
  /\ IF More
     THEN /\ acc' = <<acc[1] + pp, acc[2] + cp>>
          /\ sp' = sp + pp /\ sc' = sc + cp
          /\ LET c == IF AsIs THEN <<Min(pp, RemP - pp), Min(cp, RemC - cp)>>
                       ELSE Clamp(pp, cp, RemP - pp, RemC - cp) IN pp' = c[1] /\ cp' = c[2]
          /\ UNCHANGED <<calls, delivered, pc>>
     ELSE /\ delivered' = <<acc[1] + pp, acc[2] + cp>> /\ calls' = calls + 1 /\ pc' = "ok"
          /\ sp' = sp + pp /\ sc' = sc + cp
          /\ UNCHANGED <<acc, pp, cp>>
  /\ UNCHANGED <<pods, ctrs, emitted>>

\* the message is too big: nothing is transmitted, shrink or give up
Oversize ==
  /\ pc = "send" /\ MsgSize > L
  /\ sends' = sends + 1
  /\ IF pp + cp <= MinObjs
     THEN pc' = "fail" /\ UNCHANGED <<pp, cp>>
     ELSE LET np0 == IF L * 10 > MsgSize * 9 THEN (pp * 9) \div 10 ELSE (pp * L) \div MsgSize
              nc0 == IF L * 10 > MsgSize * 9 THEN (cp * 9) \div 10 ELSE (cp * L) \div MsgSize
              np1 == IF np0 + nc0 < MinObjs THEN MinObjs \div 2 ELSE np0
              nc1 == IF np0 + nc0 < MinObjs THEN MinObjs \div 2 ELSE nc0
              c   == IF AsIs THEN <<np1, nc1>> ELSE Clamp(np1, nc1, RemP, RemC)
          IN pp' = c[1] /\ cp' = c[2] /\ UNCHANGED pc
  /\ UNCHANGED <<pods, ctrs, sp, sc, acc, calls, delivered, emitted>>

SNext == Emit \/ SendOK \/ Oversize
GSpec == SInit /\ [][SNext]_svars /\ WF_svars(SNext)

\* -------------------------------------------------------------- properties --
InBounds == pc = "send" => pp <= RemP /\ cp <= RemC      \* the slice expressions of synchronize() cannot panic
Progress == (pc = "send" /\ RemP + RemC > 0) => pp + cp > 0   \* a message always carries something
ExactDelivery == pc = "ok" => delivered = <<Len(pods), Len(ctrs)>> /\ calls = 1
CleanFailure == pc = "fail" => calls = 0
\* giving up is legitimate only at the minimum chunk size
JustifiedFailure == pc = "fail" => pp + cp <= MinObjs /\ MsgSize > L
BoundedSends == sends <= 4 * (Len(pods) + Len(ctrs)) + 4
Terminates == <>(pc \in {"ok", "fail"} /\ emitted)

=============================================================================
