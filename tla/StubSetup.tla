------------------------------ MODULE StubSetup ------------------------------
(***************************************************************************)
(* X03 (beyond the listed properties): how a plugin stub obtains its       *)
(* identity and its connection (pkg/stub/stub.go New, WithPluginName,      *)
(* WithPluginIdx, ensureIdentity, connect; pkg/api/plugin.go               *)
(* ParsePluginName).                                                       *)
(*                                                                         *)
(* Identity: the environment (NRI_PLUGIN_NAME / NRI_PLUGIN_IDX, set for    *)
(* pre-installed plugins) is read first; the options refuse to overwrite   *)
(* what is already set; what is still missing comes from the name of the   *)
(* executable "NN-name".  Named deviation found by TLC (GivenNameKept      *)
(* fails without its antecedent "an index is given"): without an index the *)
(* executable's name is parsed and replaces a *given* name too             *)
(* (NameReplacedByExecutable).                                             *)
(* Connection: a connection given by option, else the pre-connected socket *)
(* named in NRI_PLUGIN_SOCKET, else the dialer.                            *)
(***************************************************************************)
EXTENDS Naturals, Sequences, FiniteSets, TLC, Json

NONE == "<none>"      \* option not used / variable not set is "" for the environment

Digits == {"0", "1", "2", "3", "4", "5", "6", "7", "8", "9"}
IdxOK(x) == Len(x) = 2 /\ SubSeq(x, 1, 1) \in Digits /\ SubSeq(x, 2, 2) \in Digits
FirstDash(x) == LET F[i \in 0..Len(x)] == IF i = 0 THEN 0 ELSE IF F[i-1] # 0 THEN F[i-1]
                                          ELSE IF SubSeq(x, i, i) = "-" THEN i ELSE 0
                IN F[Len(x)]
\* ParsePluginName
Parse(bin) == LET d == FirstDash(bin) IN
              IF d = 0 THEN [ok |-> FALSE, idx |-> "", name |-> ""]
              ELSE IF ~IdxOK(SubSeq(bin, 1, d - 1)) THEN [ok |-> FALSE, idx |-> "", name |-> ""]
              ELSE [ok |-> TRUE, idx |-> SubSeq(bin, 1, d - 1), name |-> SubSeq(bin, d + 1, Len(bin))]

Err(w) == [ok |-> FALSE, err |-> w, name |-> "", idx |-> ""]
Identity(envName, envIdx, optName, optIdx, bin) ==
  IF optName # NONE /\ envName # "" THEN Err("name-already-set")
  ELSE IF optIdx # NONE /\ envIdx # "" THEN Err("idx-already-set")
  ELSE LET n == IF optName # NONE THEN optName ELSE envName
           i == IF optIdx # NONE THEN optIdx ELSE envIdx
       IN IF i # "" /\ n # "" THEN [ok |-> TRUE, err |-> "", name |-> n, idx |-> i]
          ELSE IF i # "" THEN [ok |-> TRUE, err |-> "", name |-> bin, idx |-> i]
          ELSE IF Parse(bin).ok THEN [ok |-> TRUE, err |-> "", name |-> Parse(bin).name, idx |-> Parse(bin).idx]
          ELSE Err("executable-name")

\* where the connection comes from; an unusable NRI_PLUGIN_SOCKET fails Start
ConnSource(given, envSock) ==
  IF given THEN "given" ELSE IF envSock = "" THEN "dial" ELSE IF envSock = "3" THEN "env" ELSE "error"

\* ---------------------------------------------------------------- scenarios --
CONSTANT Mode
VARIABLES sc, emitted

EnvNames == {"", "envname"}
EnvIdxs  == {"", "07"}
OptNames == {NONE, "optname", ""}
OptIdxs  == {NONE, "42", "", "4x"}
Bins     == {"10-foo", "foo", "10-foo-bar", "1-foo", "ab-foo", "10-", "-foo", "99"}

IdScenarios == {[kind |-> "identity", envname |-> en, envidx |-> ei, optname |-> on, optidx |-> oi, bin |-> b,
                 given |-> FALSE, envsock |-> ""] :
                   en \in EnvNames, ei \in EnvIdxs, on \in OptNames, oi \in OptIdxs, b \in Bins}
ConnScenarios == {[kind |-> "conn", envname |-> "", envidx |-> "", optname |-> "p", optidx |-> "10", bin |-> "driver",
                   given |-> g, envsock |-> es] : g \in BOOLEAN, es \in {"", "3", "abc", "999"}}
Scenarios == IF Mode = "identity" THEN IdScenarios ELSE ConnScenarios

GInit == sc \in Scenarios /\ emitted = FALSE
GEmit == ~emitted /\ PrintT(<<"CASE", ToJson(sc)>>) /\ emitted' = TRUE /\ UNCHANGED sc
GSpec == GInit /\ [][GEmit]_<<sc, emitted>>

\* --------------------------------------------------------------- properties --
Res(s) == Identity(s.envname, s.envidx, s.optname, s.optidx, s.bin)
Given(s) == IF s.optname # NONE THEN s.optname ELSE s.envname
GivenIdx(s) == IF s.optidx # NONE THEN s.optidx ELSE s.envidx
\* a stub that could be created has an index, and it is the given one if one was given
HasIndex == \A s \in IdScenarios : Res(s).ok => (Res(s).idx # "" /\ (GivenIdx(s) # "" => Res(s).idx = GivenIdx(s)))
\* a given name is kept - provided an index is given as well
GivenNameKept == \A s \in IdScenarios : (Res(s).ok /\ Given(s) # "" /\ GivenIdx(s) # "") => Res(s).name = Given(s)
\* the deviation: without an index, the executable's name replaces a given name
NameReplacedByExecutable ==
  \E s \in IdScenarios : Res(s).ok /\ Given(s) # "" /\ GivenIdx(s) = "" /\ Res(s).name # Given(s)
\* environment and option never silently override each other
NoSilentOverride == \A s \in IdScenarios : (s.optname # NONE /\ s.envname # "") => ~Res(s).ok
=============================================================================
