------------------------------- MODULE Gen_Oci -------------------------------
(***************************************************************************)
(* C13: the spec generator.  OciApply (Container.tla) is the specification *)
(* of Generator.Adjust.  This module enumerates (spec, adjustment) pairs,   *)
(* checks the theorems the property states about OciApply in every state   *)
(* (SetWins: the order of entries inside one adjustment is irrelevant;     *)
(* Frame: keys that are not named stay as they were) and emits each pair   *)
(* for replay on the real generator.                                       *)
(***************************************************************************)
EXTENDS Container, Json, FiniteSetsExt, SequencesExt

CONSTANTS Mode, MaxLen

VARIABLES orig, adj, emitted
gvars == <<orig, adj, emitted>>

\* ------------------------------------------------------------ alphabets --
KeysOf(fam) == CASE fam = "ann" -> <<"k1", "k2">>
                 [] fam = "env" -> <<"E1", "E2">>
                 [] fam = "mnt" -> <<"/m1", "/m2">>
                 [] fam = "dev" -> <<"/dev/d1", "/dev/d2">>
NewVal(fam, k) == CASE fam = "ann" -> "new-" \o k
                    [] fam = "env" -> "new-" \o k
                    [] fam = "mnt" -> "/s/new|bind|rbind,rprivate,ro,nosuid"
                    [] fam = "dev" -> IF k = "/dev/d1" THEN "c|7|9" ELSE "b|8|16|432"    \* every device its own numbers
OldVal(fam) == CASE fam = "ann" -> "old"
                 [] fam = "env" -> "old"
                 [] fam = "mnt" -> "/s/old|tmpfs|rw"
                 [] fam = "dev" -> "b|1|2|420"

\* atoms of a keyed adjustment: set k / remove k
Atoms(fam) == {[k |-> k, v |-> NewVal(fam, k)] : k \in SeqRange(KeysOf(fam))}
         \cup {[k |-> Mark(k), v |-> ""] : k \in SeqRange(KeysOf(fam))}
\* all sequences of distinct atoms up to MaxLen, in every order
AtomSeqs(fam) ==
  UNION {{s \in [1..n -> Atoms(fam)] : \A i, j \in 1..n : i # j => s[i] # s[j]} : n \in 0..MaxLen}

OrigsFam(fam) ==
  {[k \in S |-> OldVal(fam)] : S \in SUBSET SeqRange(KeysOf(fam))}

WithFam(rec, fam, val) ==
  CASE fam = "ann" -> [rec EXCEPT !.ann = val]
    [] fam = "env" -> [rec EXCEPT !.env = val]
    [] fam = "mnt" -> [rec EXCEPT !.mnt = val]
    [] fam = "dev" -> [rec EXCEPT !.dev = val]

SeqToMap(s) == [k \in {s[i].k : i \in DOMAIN s} |-> (CHOOSE i \in DOMAIN s : s[i].k = k) \in DOMAIN s /\ TRUE]
AnnAdjs == {[k \in S |-> IF IsMarked(k) THEN "" ELSE NewVal("ann", k)] :
              S \in SUBSET {"k1", "k2", "-k1", "-k2"}}

FamPairs(fam) ==
  IF fam = "ann"
  THEN {<<WithFam(EmptyContainer, fam, o), [EmptyAdjust EXCEPT !.ann = a]>> : o \in OrigsFam(fam), a \in AnnAdjs}
  ELSE {<<WithFam(EmptyContainer, fam, o), WithFam(EmptyAdjust, fam, a)>> : o \in OrigsFam(fam), a \in AtomSeqs(fam)}

\* mounts over a small directory tree, every subset in every order
Tree == {"/a", "/a/b", "/a/b/c", "/d"}
TreeSeqs == UNION {{s \in [1..n -> Tree] : \A i, j \in 1..n : i # j => s[i] # s[j]} : n \in 0..Cardinality(Tree)}
TreeOrigs == {EmptyMap, [k \in {"/a/b", "/z"} |-> "/s/old|bind|rw"], [k \in {"/a/b/c/e", "/a"} |-> "/s/old|bind|rw"]}
TreePairs ==
  {<<[EmptyContainer EXCEPT !.mnt = o],
     [EmptyAdjust EXCEPT !.mnt = [i \in DOMAIN s |-> [k |-> s[i], v |-> "/s/new|bind|ro"]]]>> :
     o \in TreeOrigs, s \in TreeSeqs}

\* args
ArgsPairs ==
  {<<[EmptyContainer EXCEPT !.args = o], [EmptyAdjust EXCEPT !.args = a]>> :
     o \in {<<>>, <<"orig", "x">>}, a \in {<<>>, <<"new", "y">>, <<"", "new">>, <<"">>, <<"", "new", "">>}}

\* scalars: every field alone (absent / present in the spec; special values), and all at once
AllScalars == {"mem.limit", "mem.reservation", "mem.swap", "mem.kernel", "mem.kerneltcp", "mem.swappiness",
               "mem.disableoom", "mem.usehierarchy", "cpu.shares", "cpu.quota", "cpu.period",
               "cpu.rtruntime", "cpu.rtperiod", "cpu.cpus", "cpu.mems", "pids", "blockio", "rdt", "cgpath", "oom"}
BoolF == {"mem.disableoom", "mem.usehierarchy"}
SV(f, n) == IF f \in BoolF THEN (IF n = "0" THEN "false" ELSE "true")
            ELSE IF f \in {"cpu.cpus", "cpu.mems", "cgpath", "blockio", "rdt"} THEN "s" \o n
            ELSE n
Vals(f) == IF f \in BoolF THEN {"true", "false"}
           ELSE IF f \in {"blockio", "rdt"} THEN {"cls1", ""}
           ELSE IF f \in {"cpu.cpus", "cpu.mems", "cgpath"} THEN {"s7"}
           ELSE IF f \in {"cpu.quota", "cpu.rtruntime", "oom", "mem.limit", "pids"} THEN {"7", "0", "-1"}
           ELSE {"7", "0"}
OrigAll == [f \in AllScalars |-> SV(f, "3")]
ScalarPairs ==
  {<<[EmptyContainer EXCEPT !.res = o], [EmptyAdjust EXCEPT !.res = [x \in {f} |-> v]]>> :
     o \in {EmptyMap, OrigAll}, f \in AllScalars, v \in UNION {Vals(g) : g \in AllScalars}}
ScalarPairsOK == {p \in ScalarPairs : \A f \in DOMAIN p[2].res : p[2].res[f] \in Vals(f)}
ScalarAll ==
  {<<[EmptyContainer EXCEPT !.res = o], [EmptyAdjust EXCEPT !.res = [f \in AllScalars |-> SV(f, "9")]]>> :
     o \in {EmptyMap, OrigAll}}

\* hooks, rlimits, CDI, hugepages, unified
MiscPairs ==
  LET o1 == [EmptyContainer EXCEPT !.hooks = [NoHooks EXCEPT !["prestart"] = <<"h0">>, !["poststop"] = <<"h9">>],
                                   !.rlim = <<[k |-> "RLIMIT_AS", v |-> "9:9"]>>,
                                   !.hp = [k \in {"2MB"} |-> "3"], !.uni = [k \in {"memory.high"} |-> "3"]]
      adjs == {[EmptyAdjust EXCEPT !.hooks = [s \in Stages |-> IF s \in S THEN <<"hA" \o s, "hB" \o s>> ELSE <<>>]] : S \in SUBSET Stages}
         \cup {[EmptyAdjust EXCEPT !.rlim = r] : r \in {<<[k |-> "RLIMIT_NOFILE", v |-> "10:5"]>>,
                                                        <<[k |-> "RLIMIT_CORE", v |-> "0:0"], [k |-> "RLIMIT_NOFILE", v |-> "10:5"]>>}}
         \cup {[EmptyAdjust EXCEPT !.cdi = c] : c \in {<<"vendor.com/dev=a">>, <<"vendor.com/dev=b", "vendor.com/dev=a">>}}
         \cup {[EmptyAdjust EXCEPT !.hp = h] : h \in {<<[k |-> "2MB", v |-> "8"]>>, <<[k |-> "1GB", v |-> "1"], [k |-> "2MB", v |-> "8"]>>}}
         \cup {[EmptyAdjust EXCEPT !.uni = [k \in S |-> "8"]] : S \in (SUBSET {"memory.high", "cpu.weight"}) \ {{}}}
  IN {<<o, a>> : o \in {EmptyContainer, o1}, a \in adjs}

Pairs ==
  CASE Mode \in {"ann", "env", "mnt", "dev"} -> FamPairs(Mode)
    [] Mode = "tree"   -> TreePairs
    [] Mode = "args"   -> ArgsPairs
    [] Mode = "scalar" -> ScalarPairsOK \cup ScalarAll
    [] Mode = "misc"   -> MiscPairs

\* ------------------------------------------------------------ behaviour --
GInit == /\ \E p \in Pairs : orig = p[1] /\ adj = p[2]
         /\ emitted = FALSE
GEmit == /\ ~emitted
         /\ PrintT(<<"CASE", ToJson([orig |-> orig, adj |-> adj])>>)
         /\ emitted' = TRUE
         /\ UNCHANGED <<orig, adj>>
GSpec == GInit /\ [][GEmit]_gvars

\* ------------------------------------------------------------- theorems --
Result == OciApply(ToOci(orig), adj)

Perms(s) == {[i \in DOMAIN s |-> s[p[i]]] : p \in {q \in [DOMAIN s -> DOMAIN s] : \A i, j \in DOMAIN s : i # j => q[i] # q[j]}}

\* a set wins over a removal of the same key whatever the list order
SetWins ==
  /\ \A e \in Perms(adj.env) : OciApply(ToOci(orig), [adj EXCEPT !.env = e]).env = Result.env
  /\ \A m \in Perms(adj.mnt) : OciApply(ToOci(orig), [adj EXCEPT !.mnt = m]).mnt = Result.mnt
  /\ \A d \in Perms(adj.dev) : OciApply(ToOci(orig), [adj EXCEPT !.dev = d]).dev = Result.dev
  /\ \A k \in LSetKeys(adj.env) : k \in DOMAIN Result.env /\ Result.env[k] = LSet(adj.env)[k]
  /\ \A k \in LSetKeys(adj.mnt) : k \in DOMAIN Result.mnt
  /\ \A k \in LSetKeys(adj.dev) : k \in DOMAIN Result.dev
  /\ \A k \in DOMAIN MSet(adj.ann) : k \in DOMAIN Result.ann /\ Result.ann[k] = adj.ann[k]

\* removals take effect unless the key is set again
Removes ==
  /\ \A k \in LRm(adj.env) \ LSetKeys(adj.env) : k \notin DOMAIN Result.env
  /\ \A k \in LRm(adj.mnt) \ LSetKeys(adj.mnt) : k \notin DOMAIN Result.mnt
  /\ \A k \in LRm(adj.dev) \ LSetKeys(adj.dev) : k \notin DOMAIN Result.dev
  /\ \A k \in MRm(adj.ann) \ DOMAIN MSet(adj.ann) : k \notin DOMAIN Result.ann

\* everything that is not named stays
Untouched(o, r, named) == \A k \in (DOMAIN o \cup DOMAIN r) \ named :
                             k \in DOMAIN o /\ k \in DOMAIN r /\ o[k] = r[k]
Frame ==
  /\ Untouched(orig.env, Result.env, LRm(adj.env) \cup LSetKeys(adj.env))
  /\ Untouched(orig.mnt, Result.mnt, LRm(adj.mnt) \cup LSetKeys(adj.mnt))
  /\ Untouched(orig.dev, Result.dev, LRm(adj.dev) \cup LSetKeys(adj.dev))
  /\ Untouched(orig.ann, Result.ann, MRm(adj.ann) \cup DOMAIN MSet(adj.ann))
  /\ Untouched(orig.res, Result.res,
               DOMAIN adj.res \cup (IF "mem.limit" \in DOMAIN adj.res THEN {"mem.swap"} ELSE {}))
  /\ Untouched(orig.hp, Result.hp, LSetKeys(adj.hp))
  /\ Untouched(orig.uni, Result.uni, DOMAIN adj.uni)
  /\ (~ArgsSets(adj.args)) => Result.args = orig.args
  /\ \A s \in Stages : IsPrefix(orig.hooks[s], Result.hooks[s])
  /\ IsPrefix(orig.rlim, Result.rlim)

=============================================================================
