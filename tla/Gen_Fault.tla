------------------------------ MODULE Gen_Fault ------------------------------
(***************************************************************************)
(* C07 fault placements.  In Relay.tla a plugin failure is the action      *)
(* PluginClosed(p), enabled at any moment (MC_Relay explores every such    *)
(* moment relative to every other step).  This module enumerates the       *)
(* concrete ways the driver realises that action on the real code: which   *)
(* plugin of the chain, which request kind, and where the fault falls      *)
(* (before the request, after k bytes of the request, inside the handler,  *)
(* after k bytes of the response, after the response, handler hanging past *)
(* the timeout, garbage on the wire) - plus the deliberate handler error.  *)
(***************************************************************************)
EXTENDS Naturals, Sequences, TLC, Json

CONSTANTS OffSet,    \* byte offsets for the cut faults, or {} = every offset up to OffHi
          OffHi,
          Slow       \* TRUE: include the faults that cost one timeout each for every position / request kind

VARIABLES sc, emitted

Offsets == IF OffSet = {} THEN 0..OffHi ELSE OffSet
Positions == 0..2
Reqs == {"CreateContainer", "UpdateContainer", "StopContainer", "StartContainer", "UpdatePodSandbox",
         "RemoveContainer", "RemovePodSandbox", "StopPodSandbox", "PostCreateContainer"}
FastFaults == {"none", "close-before", "deaf-before", "close-during", "handler-error", "handler-error-deadline", "close-after", "wrong-frame"}
SlowFaults == {"hang", "hang-ctx", "garbage"}

Scenarios ==
       {[pos |-> p, req |-> r, fault |-> f, k |-> 0] : p \in Positions, r \in Reqs, f \in FastFaults}
  \cup {[pos |-> p, req |-> r, fault |-> f, k |-> k] :
           p \in Positions, r \in Reqs, f \in {"cut-request", "cut-response"}, k \in Offsets}
  \cup (IF Slow
        THEN {[pos |-> p, req |-> r, fault |-> f, k |-> 0] : p \in Positions, r \in Reqs, f \in SlowFaults}
        \* quick: a hang ahead of and between healthy plugins for every request kind, the rest once
        ELSE {[pos |-> 1, req |-> "CreateContainer", fault |-> f, k |-> 0] : f \in SlowFaults}
             \cup {[pos |-> p, req |-> r, fault |-> "hang", k |-> 0] : p \in {0, 1}, r \in Reqs}
             \cup {[pos |-> 0, req |-> r, fault |-> "hang-ctx", k |-> 0] : r \in Reqs}
             \cup {[pos |-> 2, req |-> "UpdateContainer", fault |-> "hang-ctx", k |-> 0]})

GInit == sc \in Scenarios /\ emitted = FALSE
GEmit == ~emitted /\ PrintT(<<"CASE", ToJson(sc)>>) /\ emitted' = TRUE /\ UNCHANGED sc
GSpec == GInit /\ [][GEmit]_<<sc, emitted>>
=============================================================================
