------------------------------ MODULE Container ------------------------------
(***************************************************************************)
(* Shared abstract vocabulary of the NRI specification.                    *)
(*                                                                         *)
(* A *container* (what a plugin is shown, what the runtime submitted) is a *)
(* record                                                                  *)
(*   [ann, env, mnt, dev : map key -> value,   args : Seq(Str),            *)
(*    hooks : map stage -> Seq(hook id),  rlim : Seq([k, v]),              *)
(*    res : map scalar-field -> value,  hp, uni : map key -> value]        *)
(* An *adjustment* (one plugin response, or the combined result) has the   *)
(* wire shape: keys may carry the removal marker "-",                      *)
(*   [ann : map rawkey -> value, env, mnt, dev : Seq([k, v]),              *)
(*    args : Seq(Str) (leading "" = removal marker),                       *)
(*    hooks, rlim, cdi : Seq(Str), res, hp : Seq([k, v]), uni]             *)
(* An *update* is [target, res, hp, uni, ignore, hasres].                  *)
(* All values are strings (numbers are logged as strings; "unset" is key   *)
(* absence).  The spec interprets the raw wire keys itself (IsMarked).     *)
(***************************************************************************)
EXTENDS Naturals, Sequences, FiniteSets, TLC

\* ------------------------------------------------------------------ maps --
EmptyMap == [k \in {} |-> ""]
MapDel(f, S) == [k \in (DOMAIN f) \ S |-> f[k]]
\* The generator writes a new memory limit to the swap limit as well.  The property (C13) names the memory limit among
\* the changes and says everything else is left untouched: a generator that leaves the swap limit alone satisfies
\* its text too.  Results are therefore compared without the swap limit, which may be either (SwapOK).
NoSwap(x) == [x EXCEPT !.res = MapDel(@, {"mem.swap"})]
SwapOf(r) == IF "mem.swap" \in DOMAIN r THEN r["mem.swap"] ELSE "<none>"
SwapOK(got, exp, orig) == SwapOf(got.res) \in {SwapOf(exp.res), SwapOf(orig.res)}
MapPut(f, g) == [k \in (DOMAIN f) \cup (DOMAIN g) |->
                    IF k \in DOMAIN g THEN g[k] ELSE f[k]]
MapOnly(f, S) == [k \in (DOMAIN f) \cap S |-> f[k]]
SeqRange(s) == {s[i] : i \in DOMAIN s}
SeqFilter(s, Keep(_)) ==
    LET F[i \in 0..Len(s)] ==
          IF i = 0 THEN <<>>
          ELSE IF Keep(s[i]) THEN Append(F[i-1], s[i]) ELSE F[i-1]
    IN F[Len(s)]

\* -------------------------------------------------------- removal markers --
IsMarked(k) == Len(k) > 0 /\ SubSeq(k, 1, 1) = "-"
Unmark(k)   == SubSeq(k, 2, Len(k))
Mark(k)     == "-" \o k

\* list-shaped keyed adjustments: Seq([k |-> rawkey, v |-> value])
LRm(l)      == {Unmark(l[i].k) : i \in {j \in DOMAIN l : IsMarked(l[j].k)}}
LSetKeys(l) == {l[i].k : i \in {j \in DOMAIN l : ~IsMarked(l[j].k)}}
LastIdx(l, key) == CHOOSE i \in DOMAIN l :
                      /\ l[i].k = key
                      /\ \A j \in DOMAIN l : l[j].k = key => j <= i
LSet(l)     == [key \in LSetKeys(l) |-> l[LastIdx(l, key)].v]
\* a key written more than once inside one list (outside the generated domain)
LDup(l)     == \E i, j \in DOMAIN l : i < j /\ ~IsMarked(l[i].k) /\ l[i].k = l[j].k
\* map-shaped keyed adjustments (annotations): rawkey -> value
MRm(m)      == {Unmark(k) : k \in {x \in DOMAIN m : IsMarked(x)}}
MSet(m)     == [k \in {x \in DOMAIN m : ~IsMarked(x)} |-> m[k]]

\* removals first, then sets: a set wins over a removal of the same key
KApply(V, R, S) == MapPut(MapDel(V, R), S)

\* ------------------------------------------------------------------ args --
ArgsRemoves(a) == Len(a) > 0 /\ a[1] = ""
ArgsPayload(a) == IF ArgsRemoves(a) THEN Tail(a) ELSE a
ArgsSets(a)    == Len(ArgsPayload(a)) > 0
ArgsApply(cur, a) == IF ArgsSets(a) THEN ArgsPayload(a) ELSE cur

\* ----------------------------------------------------------------- hooks --
Stages == {"prestart", "createRuntime", "createContainer", "startContainer",
           "poststart", "poststop"}
NoHooks == [s \in Stages |-> <<>>]
HooksCat(h, g) == [s \in Stages |-> h[s] \o g[s]]

\* ------------------------------------------------------------- constants --
EmptyContainer ==
  [ann |-> EmptyMap, env |-> EmptyMap, mnt |-> EmptyMap, dev |-> EmptyMap,
   args |-> <<>>, hooks |-> NoHooks, rlim |-> <<>>,
   res |-> EmptyMap, hp |-> EmptyMap, uni |-> EmptyMap]

EmptyAdjust ==
  [ann |-> EmptyMap, env |-> <<>>, mnt |-> <<>>, dev |-> <<>>, args |-> <<>>,
   hooks |-> NoHooks, rlim |-> <<>>, cdi |-> <<>>,
   res |-> EmptyMap, hp |-> <<>>, uni |-> EmptyMap]

EmptyRes == [res |-> EmptyMap, hp |-> EmptyMap, uni |-> EmptyMap]

\* ------------------------------------------------- NRI-level application --
(* The meaning properties C03/C04 appeal to: removals first, then sets;    *)
(* hooks and rlimits appended; every resource field that is set overrides. *)
NriApply(c, a) ==
  [ann   |-> KApply(c.ann, MRm(a.ann), MSet(a.ann)),
   env   |-> KApply(c.env, LRm(a.env), LSet(a.env)),
   mnt   |-> KApply(c.mnt, LRm(a.mnt), LSet(a.mnt)),
   dev   |-> KApply(c.dev, LRm(a.dev), LSet(a.dev)),
   args  |-> ArgsApply(c.args, a.args),
   hooks |-> HooksCat(c.hooks, a.hooks),
   rlim  |-> c.rlim \o a.rlim,
   res   |-> MapPut(c.res, a.res),
   hp    |-> MapPut(c.hp, LSet(a.hp)),
   uni   |-> MapPut(c.uni, a.uni)]

\* overlay of an update's resources on a resource view
ResOverlay(r, u) ==
  [res |-> MapPut(r.res, u.res),
   hp  |-> MapPut(r.hp, LSet(u.hp)),
   uni |-> MapPut(r.uni, u.uni)]

\* ------------------------------------------------- OCI-level application --
(* What the project's spec generator is specified to do (C13), on the OCI  *)
(* projection  [ann, env, mnt, dev, args, hooks, rlim, cdi, res, hp, uni]. *)
(* Only these scalar fields are implemented by the generator:              *)
OciScalars == {"cpu.period", "cpu.quota", "cpu.shares", "cpu.cpus", "cpu.mems",
               "cpu.rtruntime", "cpu.rtperiod", "pids", "cgpath", "oom"}
OciClasses == {"blockio", "rdt"}

OciRes(r, a) ==
  LET plain == MapPut(r, MapOnly(a, OciScalars))
      \* memory: only the limit, when non-zero, written to limit and swap
      mem   == IF "mem.limit" \in DOMAIN a /\ a["mem.limit"] # "0"
               THEN MapPut(plain, [k \in {"mem.limit", "mem.swap"} |-> a["mem.limit"]])
               ELSE plain
      \* classes: "" clears, anything else is resolved and set
      clr   == {k \in OciClasses \cap DOMAIN a : a[k] = ""}
      set   == {k \in OciClasses \cap DOMAIN a : a[k] # ""}
  IN MapPut(MapDel(mem, clr), MapOnly(a, set))

OciApply(s, a) ==
  [ann   |-> KApply(s.ann, MRm(a.ann), MSet(a.ann)),
   env   |-> KApply(s.env, LRm(a.env), LSet(a.env)),
   mnt   |-> KApply(s.mnt, LRm(a.mnt), LSet(a.mnt)),
   dev   |-> KApply(s.dev, LRm(a.dev), LSet(a.dev)),
   args  |-> ArgsApply(s.args, a.args),
   hooks |-> HooksCat(s.hooks, a.hooks),
   rlim  |-> s.rlim \o a.rlim,
   cdi   |-> s.cdi \o a.cdi,
   res   |-> OciRes(s.res, a.res),
   hp    |-> MapPut(s.hp, LSet(a.hp)),
   uni   |-> MapPut(s.uni, a.uni)]

OciFold(s, adjs) ==
  LET F[i \in 0..Len(adjs)] == IF i = 0 THEN s ELSE OciApply(F[i-1], adjs[i])
  IN F[Len(adjs)]

\* OCI projection of a container as submitted by the runtime
ToOci(c) == [ann |-> c.ann, env |-> c.env, mnt |-> c.mnt, dev |-> c.dev,
             args |-> c.args, hooks |-> c.hooks, rlim |-> c.rlim, cdi |-> <<>>,
             res |-> c.res, hp |-> c.hp, uni |-> c.uni]

\* mount ordering: every mount comes after all mounts of its parent directories
IsAncestor(a, b) == \/ (a = "/" /\ b # "/")
                    \/ (Len(a) < Len(b) /\ SubSeq(b, 1, Len(a) + 1) = a \o "/")
ParentsFirst(ord) == \A i, j \in DOMAIN ord : i < j => ~IsAncestor(ord[j], ord[i])

=============================================================================
