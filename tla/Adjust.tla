------------------------------- MODULE Adjust -------------------------------
(***************************************************************************)
(* The request-scoped merge engine of NRI (pkg/adaptation/result.go):      *)
(* while one CreateContainer / UpdateContainer / StopContainer request is  *)
(* relayed through the plugin chain, each plugin's response is applied to  *)
(*   - the ownership ledger     (owner)   C01, C02                         *)
(*   - the combined adjustment  (comb)    C03                              *)
(*   - the view shown to the next plugin (cont / rres)   C04               *)
(*   - the collected updates    (upd, order)             C05               *)
(* One action per critical section: Apply(p, a) is the whole of            *)
(* result.apply() for one plugin, which the code runs under the adaptation *)
(* lock.  The module describes the behaviour the properties require.       *)
(***************************************************************************)
EXTENDS Container

VARIABLES
  kind,     \* "create" | "update" | "stop"
  ownid,    \* id of the container the request is about
  orig,     \* container as submitted by the runtime (create)
  reqres,   \* resources requested by the runtime (update)
  cont,     \* create: the container as shown to the next plugin
  rres,     \* update: the resources as shown to the next plugin
  owner,    \* ledger: <<target, family, key>> -> plugin that set it
  taint,    \* items claimed by an update that was dropped (ignore-failure)
  comb,     \* combined adjustment handed to the runtime (wire shape)
  upd,      \* target -> collected resources
  ownch,    \* update request: some plugin changed the request's own container
  applied,  \* sequence of <<plugin, adjustment, updates>> applied so far (history)
  err,      \* "" | "conflict" | "updconflict" | "selfupdate" | "undetermined"
  errd      \* the items in conflict (diagnostics)

avars == <<kind, ownid, orig, reqres, cont, rres, owner, taint, comb, upd,
           ownch, applied, err, errd>>

NoOwner == [it \in {} |-> ""]

Begin(k, id, o, rr) ==
  /\ kind' = k /\ ownid' = id /\ orig' = o /\ reqres' = rr
  /\ cont' = o /\ rres' = rr
  /\ owner' = NoOwner /\ taint' = {}
  /\ comb' = EmptyAdjust
  /\ upd' = [t \in {} |-> EmptyRes]
  /\ ownch' = FALSE
  /\ applied' = <<>> /\ err' = "" /\ errd' = {}

\* ---------------------------------------------------------------- ledger --
Item(t, fam, k) == <<t, fam, k>>
Owned(o, it) == it \in DOMAIN o

\* items an adjustment sets / releases on the container being created
AdjSets(a) ==
       {Item(ownid, "ann", k) : k \in DOMAIN MSet(a.ann)}
  \cup {Item(ownid, "env", k) : k \in LSetKeys(a.env)}
  \cup {Item(ownid, "mnt", k) : k \in LSetKeys(a.mnt)}
  \cup {Item(ownid, "dev", k) : k \in LSetKeys(a.dev)}
  \cup (IF ArgsSets(a.args) THEN {Item(ownid, "args", "")} ELSE {})
  \cup {Item(ownid, "res", k) : k \in DOMAIN a.res}
  \cup {Item(ownid, "hp", k) : k \in LSetKeys(a.hp)}
  \cup {Item(ownid, "uni", k) : k \in DOMAIN a.uni}
  \cup {Item(ownid, "rlim", a.rlim[i].k) : i \in DOMAIN a.rlim}
  \cup {Item(ownid, "cdi", a.cdi[i]) : i \in DOMAIN a.cdi}

AdjReleases(a) ==
       {Item(ownid, "ann", k) : k \in MRm(a.ann)}
  \cup {Item(ownid, "env", k) : k \in LRm(a.env)}
  \cup {Item(ownid, "mnt", k) : k \in LRm(a.mnt)}
  \cup {Item(ownid, "dev", k) : k \in LRm(a.dev)}
  \cup (IF ArgsRemoves(a.args) THEN {Item(ownid, "args", "")} ELSE {})

\* the same plugin writing one item twice in one response: outside the domain
AdjSelfDup(a) ==
  \/ LDup(a.env) \/ LDup(a.mnt) \/ LDup(a.dev) \/ LDup(a.hp) \/ LDup(a.rlim)
  \/ \E i, j \in DOMAIN a.cdi : i < j /\ a.cdi[i] = a.cdi[j]

\* ------------------------------------------------- the combined adjustment --
CombList(cl, al) ==
  LET R == LRm(al)  S == LSetKeys(al)
  IN  SeqFilter(cl, LAMBDA e : IsMarked(e.k) \/ e.k \notin R)
      \o SeqFilter(al, LAMBDA e : ~IsMarked(e.k))
      \o SeqFilter(al, LAMBDA e : IsMarked(e.k) /\ Unmark(e.k) \notin S)

CombAnn(ca, aa) ==
  LET R == MRm(aa)
      kept == MapDel(ca, R)                       \* stale values of removed keys go
      marks == [k \in {Mark(x) : x \in R} |-> ""]
  IN MapPut(MapPut(kept, marks), MSet(aa))

CombAdd(c, a) ==
  [ann   |-> CombAnn(c.ann, a.ann),
   env   |-> CombList(c.env, a.env),
   mnt   |-> CombList(c.mnt, a.mnt),
   dev   |-> CombList(c.dev, a.dev),
   args  |-> IF ArgsSets(a.args) THEN ArgsPayload(a.args) ELSE c.args,
   hooks |-> HooksCat(c.hooks, a.hooks),
   rlim  |-> c.rlim \o a.rlim,
   cdi   |-> c.cdi \o a.cdi,
   res   |-> MapPut(c.res, a.res),
   hp    |-> c.hp \o a.hp,
   uni   |-> MapPut(c.uni, a.uni)]

\* ---------------------------------------------------------------- updates --
UpdItems(u) ==
       {Item(u.target, "res", k) : k \in DOMAIN u.res}
  \cup {Item(u.target, "hp", k) : k \in LSetKeys(u.hp)}
  \cup {Item(u.target, "uni", k) : k \in DOMAIN u.uni}

IsOwnOfUpdate(t) == kind = "update" /\ t = ownid

\* state threaded through the update list of one response
UpdState == [owner |-> owner, taint |-> taint, upd |-> upd, rres |-> rres,
             ownch |-> ownch, err |-> err, errd |-> {}]

UpdStep(st, u, p) ==
  IF st.err # "" THEN st
  ELSE IF kind = "create" /\ u.target = ownid
       THEN [st EXCEPT !.err = "selfupdate"]
  ELSE
    LET t      == u.target
        items  == UpdItems(u)
        clash  == {it \in items : Owned(st.owner, it)}
        maybe  == items \cap st.taint
        known  == t \in DOMAIN st.upd
        base   == IF IsOwnOfUpdate(t) THEN st.rres
                  ELSE IF known THEN st.upd[t] ELSE EmptyRes
        \* the entry exists from now on, whatever happens to this update
        upd0   == IF known THEN st.upd
                  ELSE [x \in DOMAIN st.upd \cup {t} |->
                          IF x = t THEN EmptyRes ELSE st.upd[x]]
    IN IF LDup(u.hp) THEN [st EXCEPT !.err = "undetermined"]
       ELSE IF clash # {}
       THEN IF u.ignore
            THEN \* dropped in its entirety; claims it made on the way are doubtful
                 [st EXCEPT !.upd = upd0, !.taint = st.taint \cup (items \ clash)]
            ELSE [st EXCEPT !.err = "updconflict", !.errd = clash]
       ELSE IF maybe # {} THEN [st EXCEPT !.err = "undetermined"]
       ELSE IF ~u.hasres THEN [st EXCEPT !.upd = upd0]
       ELSE LET new == ResOverlay(base, u)
            IN [st EXCEPT
                  !.owner = [it \in DOMAIN st.owner \cup items |->
                               IF it \in items THEN p ELSE st.owner[it]],
                  !.upd   = [x \in DOMAIN upd0 |-> IF x = t THEN new ELSE upd0[x]],
                  !.rres  = IF IsOwnOfUpdate(t) THEN new ELSE st.rres,
                  !.ownch = st.ownch \/ IsOwnOfUpdate(t)]

UpdFold(st, us, p) ==
  LET F[i \in 0..Len(us)] == IF i = 0 THEN st ELSE UpdStep(F[i-1], us[i], p)
  IN F[Len(us)]

\* ------------------------------------------------------------------ Apply --
(* The critical section of result.apply(): the adjustment part (creation   *)
(* requests only), then the updates in list order.                         *)
Apply(p, a, us) ==
  LET adjusting == kind = "create"
      rel    == IF adjusting THEN AdjReleases(a) ELSE {}
      sets   == IF adjusting THEN AdjSets(a) ELSE {}
      own1   == [it \in (DOMAIN owner) \ rel |-> owner[it]]   \* removals release first
      clash  == {it \in sets : Owned(own1, it)}
      own2   == [it \in DOMAIN own1 \cup sets |-> IF it \in sets THEN p ELSE own1[it]]
      st0    == [UpdState EXCEPT !.owner = own2]
      st     == UpdFold(st0, us, p)
  IN /\ err = ""
     /\ applied' = Append(applied, <<p, a, us>>)
     /\ IF adjusting /\ AdjSelfDup(a)
        THEN /\ err' = "undetermined" /\ errd' = {}
             /\ UNCHANGED <<cont, rres, owner, taint, comb, upd, ownch>>
        ELSE IF clash # {}
        THEN /\ err' = "conflict" /\ errd' = clash
             /\ UNCHANGED <<cont, rres, owner, taint, comb, upd, ownch>>
        ELSE /\ err' = st.err /\ errd' = st.errd
             /\ owner' = st.owner /\ taint' = st.taint /\ upd' = st.upd
             /\ rres' = st.rres /\ ownch' = st.ownch
             /\ cont' = IF adjusting THEN NriApply(cont, a) ELSE cont
             /\ comb' = IF adjusting THEN CombAdd(comb, a) ELSE comb
     /\ UNCHANGED <<kind, ownid, orig, reqres>>

\* -------------------------------------------------------------- invariants --
(* C03/C04 at the design level: applying the combined adjustment to the     *)
(* original gives exactly what the next plugin is shown, and the generator  *)
(* applied to it gives what applying the responses in turn gives.           *)
AdjsOf(ap) == [i \in DOMAIN ap |-> ap[i][2]]
CombinedEquiv ==
  (kind = "create" /\ err = "") =>
      /\ NriApply(orig, comb) = cont
      /\ OciApply(ToOci(orig), comb) = OciFold(ToOci(orig), AdjsOf(applied))

(* C01/C02 stated on the history, independently of the ledger: on success   *)
(* every item of the created container was set by at most one plugin after  *)
(* its last release; a conflict is reported only if the offending plugin    *)
(* set an item another plugin had set and nobody released in between.       *)
SettersSince(it, n) ==  \* plugins that set `it` in responses 1..n, after the last release
  LET rels == {i \in 1..n : it \in AdjReleases(applied[i][2])}
      from == IF rels = {} THEN 1 ELSE CHOOSE i \in rels : \A j \in rels : j <= i
  IN {applied[i][1] : i \in {j \in from..n : it \in AdjSets(applied[j][2])}}

AllItems == UNION {AdjSets(applied[i][2]) : i \in DOMAIN applied}

NoSilentJoin ==   \* C01
  (kind = "create" /\ err = "") =>
      \A it \in AllItems : Cardinality(SettersSince(it, Len(applied))) <= 1

LedgerSound ==    \* the ledger names exactly the last setter since the last release
  (kind = "create" /\ err = "") =>
      \A it \in AllItems :
         LET s == SettersSince(it, Len(applied))
         IN IF s = {} THEN ~Owned(owner, it) \/ it[1] # ownid
            ELSE Owned(owner, it) /\ owner[it] \in s

NoFalseConflict ==  \* C02
  (kind = "create" /\ err = "conflict") =>
      LET n == Len(applied)
          a == applied[n][2]  p == applied[n][1]
      IN \E it \in AdjSets(a) :
            /\ it \notin AdjReleases(a)
            /\ n > 1 /\ SettersSince(it, n - 1) \ {p} # {}

=============================================================================
