------------------------------ MODULE AdaptLife ------------------------------
(***************************************************************************)
(* X02 (beyond the listed properties): the life cycle of the runtime       *)
(* adaptation - Start, Stop, Start again - against plugin registrations    *)
(* in flight (pkg/adaptation/adaptation.go Start/Stop/stopPlugins/         *)
(* startListener/acceptPluginConnections).                                 *)
(*                                                                         *)
(* Stop closes the listener and stops the active plugins under the         *)
(* adaptation lock.  The accept goroutine of a listener handles one        *)
(* connection at a time: register + configure, take the plugin-sync lock   *)
(* exclusively, synchronize, then - under the adaptation lock - append the *)
(* plugin to the active list.  Nothing ties that last step to the          *)
(* listener still being open: with AsIs = TRUE (a transcription of the     *)
(* code) a registration that was accepted before Stop completes after it.  *)
(* TLC shows the two consequences (invariants Quiescent and NoZombie are   *)
(* violated for AsIs = TRUE and hold for AsIs = FALSE, the behaviour one   *)
(* would expect: the late registration is refused and its connection       *)
(* closed).  A second deviation of the code, found by the conformance step *)
(* (the first version of this module had Stop close the connections):      *)
(* Stop does not disconnect external plugins at all (invariant Told).      *)
(***************************************************************************)
EXTENDS Naturals, FiniteSets, Sequences, TLC

CONSTANTS Plugins,     \* plugin identities
          MaxEpoch,    \* number of Start calls explored
          MaxReq,      \* number of runtime requests explored
          AsIs         \* TRUE: what the code does (late registrations are admitted, Stop leaves the
                       \* connections of external plugins open); FALSE: the behaviour one would expect

VARIABLES epoch,     \* number of Start calls so far
          up,        \* the listener is open (between a Start and the next Stop)
          plist,     \* the active plugin list (as a set; order is C06's business)
          pst,       \* plugin -> "idle" | "accepted" | "excl" | "synced" | "active" | "stopped" | "refused"
          pep,       \* plugin -> epoch whose accept loop took its connection (0 = none)
          synclock,  \* holder of the exclusive plugin-sync lock, or "none"
          closed,    \* plugins whose connection was closed by the runtime side
          reqs,      \* requests issued so far
          served,    \* request number -> set of plugins it was delivered to
          upAt       \* request number -> was the adaptation started when it was issued

lvars == <<epoch, up, plist, pst, pep, synclock, closed, reqs, served, upAt>>

LInit == /\ epoch = 1 /\ up = TRUE /\ plist = {}
         /\ pst = [p \in Plugins |-> "idle"] /\ pep = [p \in Plugins |-> 0]
         /\ synclock = "none" /\ closed = {} /\ reqs = 0
         /\ served = <<>> /\ upAt = <<>>

InFlight(e) == {p \in Plugins : pep[p] = e /\ pst[p] \in {"accepted", "excl", "synced"}}

\* Adaptation.Start (after a Stop): new listener, new accept loop; the plugin list is *assigned*
Start == /\ ~up /\ epoch < MaxEpoch
         /\ epoch' = epoch + 1 /\ up' = TRUE /\ plist' = {}
         /\ UNCHANGED <<pst, pep, synclock, closed, reqs, served, upAt>>

\* Adaptation.Stop: close the listener, stop every active plugin, clear the list (one critical section)
\* (plugin.stop() kills the process of a pre-installed plugin; for an external plugin it does nothing: the
\*  connection stays open and the plugin is not told - the code behaves as if the process were about to exit)
StopAs(closes) ==
        /\ up
        /\ up' = FALSE /\ plist' = {}
        /\ pst' = [p \in Plugins |-> IF p \in plist THEN "stopped" ELSE pst[p]]
        /\ closed' = IF closes THEN closed \cup plist ELSE closed
        /\ UNCHANGED <<epoch, pep, synclock, reqs, served, upAt>>
Stop == StopAs(~AsIs)

\* the accept loop of the current listener takes a connection: register + configure (one at a time per loop),
\* then requestPluginSync: the exclusive section begins at once if the plugin-sync lock is free; otherwise the
\* loop waits for the accept loop of an earlier listener that still holds it
Waiting == {p \in Plugins : pst[p] = "accepted"}
Accept(p) == /\ up /\ pst[p] = "idle" /\ InFlight(epoch) = {}
             /\ ~(synclock = "none" /\ Waiting # {})          \* a waiting loop takes the free lock first
             /\ pep' = [pep EXCEPT ![p] = epoch]
             /\ IF synclock = "none"
                THEN synclock' = p /\ pst' = [pst EXCEPT ![p] = "excl"]
                ELSE synclock' = synclock /\ pst' = [pst EXCEPT ![p] = "accepted"]
             /\ UNCHANGED <<epoch, up, plist, closed, reqs, served, upAt>>

\* a waiting accept loop gets the lock
Excl(p) == /\ pst[p] = "accepted" /\ synclock = "none"
           /\ synclock' = p /\ pst' = [pst EXCEPT ![p] = "excl"]
           /\ UNCHANGED <<epoch, up, plist, pep, closed, reqs, served, upAt>>

\* the runtime's sync callback hands the plugin its state
Sync(p) == /\ pst[p] = "excl"
           /\ pst' = [pst EXCEPT ![p] = "synced"]
           /\ UNCHANGED <<epoch, up, plist, pep, synclock, closed, reqs, served, upAt>>

\* activation under the adaptation lock, then finishedPluginSync
Late(p) == ~up \/ pep[p] # epoch
ActivateAs(p, admit) ==
  /\ pst[p] = "synced" /\ synclock = p
  /\ synclock' = "none"
  /\ IF admit
     THEN /\ pst' = [pst EXCEPT ![p] = "active"] /\ plist' = plist \cup {p} /\ closed' = closed
     ELSE /\ pst' = [pst EXCEPT ![p] = "refused"] /\ plist' = plist /\ closed' = closed \cup {p}
  /\ UNCHANGED <<epoch, up, pep, reqs, served, upAt>>
Activate(p) == ActivateAs(p, AsIs \/ ~Late(p))

\* a runtime request (a state change event every plugin subscribes to)
Request == /\ reqs < MaxReq
           /\ reqs' = reqs + 1
           /\ served' = Append(served, plist) /\ upAt' = Append(upAt, up)
           /\ UNCHANGED <<epoch, up, plist, pst, pep, synclock, closed>>

LNext == \/ Start \/ Stop \/ Request
         \/ \E p \in Plugins : Accept(p) \/ Excl(p) \/ Sync(p) \/ Activate(p)

LSpec == LInit /\ [][LNext]_lvars

\* ------------------------------------------------------------- properties --
TypeOK == /\ plist \subseteq Plugins /\ closed \subseteq Plugins /\ synclock \in Plugins \cup {"none"}
          /\ \A p \in Plugins : pst[p] \in {"idle", "accepted", "excl", "synced", "active", "stopped", "refused"}
\* a stopped adaptation serves nobody
Quiescent == ~up => plist = {}
QuiescentRequests == \A i \in DOMAIN served : ~upAt[i] => served[i] = {}
\* a plugin that was activated and whose connection the runtime has not closed is on the list
NoZombie == \A p \in Plugins : (pst[p] = "active" /\ p \notin closed) => p \in plist
\* the runtime closes the connection of every plugin it stops or refuses (Told), and of no other (NotCut)
Dropped == {p \in Plugins : pst[p] \in {"stopped", "refused"}}
Told == Dropped \subseteq closed
NotCut == closed \subseteq Dropped
\* the active list only holds activated plugins, and at most one registration is in the exclusive section
ListSound == /\ \A p \in plist : pst[p] = "active"
             /\ Cardinality({p \in Plugins : pst[p] \in {"excl", "synced"}}) <= 1
             /\ (synclock # "none" => pst[synclock] \in {"excl", "synced"})
=============================================================================
