------------------------------ MODULE StubLife ------------------------------
(***************************************************************************)
(* C16: the life cycle of a plugin stub (pkg/stub/stub.go Start/Stop/Wait, *)
(* connClosed).  A stub goes through sessions; each Start creates a new    *)
(* session on a fresh connection; the runtime end may be unreachable,      *)
(* refuse the registration or drop the connection at any point of the      *)
(* handshake; the notification that a session's connection closed is       *)
(* asynchronous and may arrive arbitrarily late.                           *)
(***************************************************************************)
EXTENDS Naturals, FiniteSets, Sequences, TLC

CONSTANTS MaxSess,     \* sessions explored
          Behaviours,  \* what the runtime end does to a Start
          AsIs         \* TRUE: transcription of the code before the repairs (negative control)

VARIABLES st,        \* "idle" | "starting" | "waitcfg" | "started"
          sess,      \* number of the current (latest) session, 0 = none yet
          beh,       \* behaviour of the runtime end for the current session
          conn,      \* "none" | "live" | "dead": the connection object the stub holds
          cs,        \* session the held connection belongs to
          est,       \* sessions that got established (configured)
          pending,   \* sessions whose close notification has not been delivered yet
          closes,    \* session -> how often its close notification was delivered
          alive,     \* session -> its connection is still up
          result     \* result of the last Start: "" | "ok" | "error"

svars == <<st, sess, beh, conn, cs, est, pending, closes, alive, result>>

SInit == /\ st = "idle" /\ sess = 0 /\ beh = "" /\ conn = "none" /\ cs = 0 /\ est = {} /\ pending = {}
         /\ closes = [s \in 1..MaxSess |-> 0] /\ alive = [s \in 1..MaxSess |-> FALSE] /\ result = ""

\* Start, step 1: take a connection.  A connection left over from a failed attempt must not be reused.
StartBegin(b) ==
  /\ st = "idle" /\ sess < MaxSess
  /\ sess' = sess + 1 /\ beh' = b /\ result' = ""
  /\ IF conn = "dead" /\ AsIs
     THEN /\ conn' = "dead" /\ UNCHANGED <<cs, alive>>                 \* stale connection reused (D10)
     ELSE IF b = "unreachable"
          THEN conn' = "none" /\ UNCHANGED <<cs, alive>>
          ELSE conn' = "live" /\ cs' = sess + 1 /\ alive' = [alive EXCEPT ![sess + 1] = TRUE]
  /\ st' = "starting"
  /\ UNCHANGED <<est, pending, closes>>

\* Start, step 2: register
Register ==
  /\ st = "starting"
  /\ IF conn # "live" \/ beh \in {"unreachable", "refuse", "drop-connect", "drop-register"}
     THEN /\ st' = "idle" /\ result' = "error"
          /\ conn' = IF conn = "none" THEN "none" ELSE IF AsIs THEN "dead" ELSE "none"   \* reset on failure
          /\ alive' = IF cs = sess THEN [alive EXCEPT ![sess] = FALSE] ELSE alive
          /\ UNCHANGED <<est, pending>>
     ELSE /\ st' = "waitcfg" /\ UNCHANGED <<result, conn, alive, est, pending>>
  /\ UNCHANGED <<sess, beh, cs, closes>>

\* Start, step 3: wait for the configuration - or for the connection going away
Configured ==
  /\ st = "waitcfg" /\ beh \in {"healthy", "slow-configure"}    \* the runtime configures the plugin, sooner or later
  /\ st' = "started" /\ result' = "ok" /\ est' = est \cup {sess}
  /\ UNCHANGED <<sess, beh, conn, cs, pending, closes, alive>>
DroppedWhileWaiting ==
  \* the connection goes away (possibly while the plugin's Configure handler runs), or the plugin rejects its configuration
  /\ st = "waitcfg" /\ beh \in {"drop-after-register", "drop-in-configure", "configure-rejected", "configure-badmask"}
  /\ ~AsIs                                     \* as-is: Start waits for ever (D8)
  /\ st' = "idle" /\ result' = "error" /\ conn' = "none" /\ alive' = [alive EXCEPT ![sess] = FALSE]
  /\ UNCHANGED <<sess, beh, cs, est, pending, closes>>

\* the session ends: explicit Stop, or the runtime end goes away
Stop ==
  /\ st = "started"
  /\ st' = "idle" /\ conn' = "none" /\ alive' = [alive EXCEPT ![sess] = FALSE]
  /\ pending' = pending \cup {sess}
  /\ UNCHANGED <<sess, beh, cs, est, closes, result>>
PeerDrop ==
  /\ st = "started" /\ alive[sess]
  /\ alive' = [alive EXCEPT ![sess] = FALSE] /\ pending' = pending \cup {sess}
  /\ UNCHANGED <<st, sess, beh, conn, cs, est, closes, result>>

\* the asynchronous close notification of session s is delivered
Notify(s) ==
  /\ s \in pending /\ pending' = pending \ {s}
  /\ closes' = [closes EXCEPT ![s] = @ + 1]
  /\ IF s = sess \/ AsIs
     THEN \* tears the current session down (as-is: whatever session is current, D9)
          IF st = "started"
          THEN /\ st' = "idle" /\ conn' = "none"
               /\ alive' = [alive EXCEPT ![sess] = FALSE]
               /\ UNCHANGED <<sess, beh, cs, est, result>>
          ELSE UNCHANGED <<st, sess, beh, conn, cs, est, alive, result>>
     ELSE UNCHANGED <<st, sess, beh, conn, cs, est, alive, result>>

SNext == \/ \E b \in Behaviours : StartBegin(b)
         \/ Register \/ Configured \/ DroppedWhileWaiting \/ Stop \/ PeerDrop
         \/ \E s \in 1..MaxSess : Notify(s)

SSpec == SInit /\ [][SNext]_svars /\ WF_svars(Register) /\ WF_svars(Configured) /\ WF_svars(DroppedWhileWaiting)
         /\ \A s \in 1..MaxSess : WF_svars(Notify(s))

\* ------------------------------------------------------------- properties --
\* a Start never runs on the connection of an earlier, failed attempt
FreshConn == st \in {"starting", "waitcfg", "started"} => (conn = "live" => cs = sess) /\ conn # "dead"
\* a started stub has a live connection unless its loss is still to be notified
Usable == st = "started" => (alive[sess] \/ sess \in pending)
\* a late notification of an earlier session leaves the current one alone
LateNotifyHarmless ==
  [][\A s \in 1..MaxSess : (s \in pending /\ s \notin pending' /\ s < sess /\ st = "started") => st' = "started"]_svars
\* each session's close notification is delivered at most once, and once for an established session that ended
OnceNotify == \A s \in 1..MaxSess : closes[s] <= 1
EventuallyNotified == \A s \in 1..MaxSess : (s \in pending) ~> (closes[s] = 1)
\* Start succeeds only for a session that got configured (never on the strength of an earlier session's answer)
OkMeansConfigured == result = "ok" => sess \in est
\* Start terminates
StartReturns == (st \in {"starting", "waitcfg"}) ~> (st \in {"idle", "started"})

=============================================================================
