------------------------------ MODULE Trace_Mux ------------------------------
(***************************************************************************)
(* Trace validation for the multiplexer (C10, C11).  A recorded run of the *)
(* real mux over a socket pair - frame events under the write lock, frames *)
(* parsed by the readers, results of every Read/Write/Close/Accept - is    *)
(* replayed through the state of Mux.tla, once per direction:              *)
(*   trunk[d]  frames whose header entered the trunk, not yet parsed       *)
(*   sent, q, rcvd per direction and connection                            *)
(* The queue of the specification is never shorter than the real one       *)
(* (enqueues are logged before, dequeues after the operation), so a real   *)
(* overflow is always explainable and a read is always of the queue head.  *)
(***************************************************************************)
EXTENDS Naturals, Sequences, FiniteSets, TLC, Json

CONSTANT TraceFile
Tr == ndJsonDeserialize(TraceFile)

VARIABLES l, bad, stats,
          wl,      \* direction -> write lock held
          cw,      \* direction -> [conn, rem]: message being written under the lock
          trunk,   \* direction -> frames in flight
          sent, q, rcvd,   \* <<direction, conn>> -> sequence of frames
          wasfull, \* direction -> the queue was full when the reader's latest frame arrived
          cfg,     \* [qlen, fault]
          phase    \* "run" | "post"

tvars == <<l, bad, stats, wl, cw, trunk, sent, q, rcvd, wasfull, cfg, phase>>
E == Tr[l]
Dirs == {"AB", "BA"}
ReadDir(end) == IF end = "B" THEN "AB" ELSE "BA"
WriteDir(end) == IF end = "A" THEN "AB" ELSE "BA"

Empty == [k \in {} |-> <<>>]
Get(f, k) == IF k \in DOMAIN f THEN f[k] ELSE <<>>
Put(f, k, v) == [x \in DOMAIN f \cup {k} |-> IF x = k THEN v ELSE f[x]]

TraceInit ==
  /\ l = 1 /\ bad = <<>>
  /\ stats = [scenarios |-> 0, frames |-> 0, reads |-> 0, faults |-> 0, overflows |-> 0, rejected |-> 0]
  /\ wl = [d \in Dirs |-> FALSE] /\ cw = [d \in Dirs |-> [conn |-> 0, rem |-> 0]]
  /\ trunk = [d \in Dirs |-> <<>>] /\ sent = Empty /\ q = Empty /\ rcvd = Empty
  /\ cfg = [qlen |-> 0, fault |-> "none"] /\ phase = "run" /\ wasfull = [d \in Dirs |-> FALSE]

Bump(c) == [stats EXCEPT ![c] = @ + 1]
Reject(label, detail) ==
  /\ bad' = Append(bad, [scn |-> E.scn, line |-> l, labels |-> {label}, detail |-> detail])
  /\ l' = E.nb /\ stats' = Bump("rejected")
  /\ UNCHANGED <<wl, cw, trunk, sent, q, rcvd, wasfull, cfg, phase>>
Skip == l' = l + 1 /\ UNCHANGED <<bad, stats, wl, cw, trunk, sent, q, rcvd, wasfull, cfg, phase>>
Next1(c) == l' = l + 1 /\ stats' = Bump(c) /\ UNCHANGED bad

Faulty == cfg.fault # "none"

TBegin ==
  /\ Next1("scenarios")
  /\ wl' = [d \in Dirs |-> FALSE] /\ cw' = [d \in Dirs |-> [conn |-> 0, rem |-> 0]]
  /\ trunk' = [d \in Dirs |-> <<>>] /\ sent' = Empty /\ q' = Empty /\ rcvd' = Empty
  /\ cfg' = [qlen |-> E.qlen, fault |-> E.fault] /\ phase' = "run" /\ wasfull' = [d \in Dirs |-> FALSE]

\* ------------------------------------------------------------ writer side --
TWLocked ==
  IF wl[E.dir] THEN Reject("C10-write-lock", <<E.dir, E.conn>>)     \* two writers inside the framing section
  ELSE /\ wl' = [wl EXCEPT ![E.dir] = TRUE] /\ cw' = [cw EXCEPT ![E.dir] = [conn |-> E.conn, rem |-> E.total]]
       /\ Next1("frames") /\ UNCHANGED <<trunk, sent, q, rcvd, wasfull, cfg, phase>>

\* the frames of one message are contiguous on their connection (no other writer's frame in between)
\* (a last chunk shorter than the frame descriptor carries no identity: it can only be the final chunk)
Contiguous(prev, e) ==
  IF prev.fn > 0 /\ prev.fc < prev.fn
  THEN IF e.fn = 0 THEN prev.fc + 1 = prev.fn
       ELSE e.fw = prev.fw /\ e.fm = prev.fm /\ e.fc = prev.fc + 1
  ELSE e.fc <= 1
NoFrame == [fw |-> 0, fm |-> 0, fc |-> 0, fn |-> 0]

TWHdr ==
  LET d == E.dir  k == <<E.dir, E.conn>>
      prev0 == IF Len(Get(sent, <<E.dir, E.conn>>)) = 0 THEN NoFrame ELSE sent[<<E.dir, E.conn>>][Len(sent[<<E.dir, E.conn>>])]
      tail == E.fn = 0 /\ prev0.fn > 0 /\ prev0.fc < prev0.fn      \* an anonymous final chunk inherits its message
      f == [conn |-> E.conn, f |-> E.f, size |-> E.size,
            fw |-> IF tail THEN prev0.fw ELSE E.fw, fm |-> IF tail THEN prev0.fm ELSE E.fm,
            fc |-> IF tail THEN prev0.fc + 1 ELSE E.fc, fn |-> IF tail THEN prev0.fn ELSE E.fn]
      prev == IF Len(Get(sent, k)) = 0 THEN NoFrame ELSE sent[k][Len(sent[k])] IN
  IF ~wl[d] \/ cw[d].conn # E.conn THEN Reject("C10-frame-outside-lock", <<d, E.conn, E.f>>)
  ELSE IF E.size > cw[d].rem THEN Reject("C10-frame-size", <<E.size, cw[d].rem>>)
  ELSE IF ~Contiguous(prev, E) THEN Reject("C10-message-interleaved", <<k, prev.fw, prev.fm, prev.fc, E.f>>)
  ELSE /\ trunk' = [trunk EXCEPT ![d] = Append(@, f)]
       /\ sent' = Put(sent, k, Append(Get(sent, k), f))
       /\ cw' = [cw EXCEPT ![d].rem = @ - E.size]
       /\ Next1("frames") /\ UNCHANGED <<wl, q, rcvd, wasfull, cfg, phase>>

\* a payload write that failed: that frame (the last of the trunk) may never be parsable
TWPay ==
  IF E.ok THEN Skip
  ELSE IF ~Faulty /\ phase = "run" THEN Reject("C11-spurious-error", <<"payload write", E.dir>>)
  ELSE Skip

\* a write that gave up (trunk failure) leaves its message unfinished: what follows is a new message
TWUnlocking ==
  LET d == E.dir  k == <<E.dir, cw[E.dir].conn>> IN
  /\ wl' = [wl EXCEPT ![d] = FALSE]
  /\ sent' = IF cw[d].rem > 0 /\ Len(Get(sent, k)) > 0
              THEN Put(sent, k, [sent[k] EXCEPT ![Len(sent[k])].fn = sent[k][Len(sent[k])].fc])
              ELSE sent
  /\ l' = l + 1 /\ UNCHANGED <<bad, stats, cw, trunk, q, rcvd, wasfull, cfg, phase>>

\* ------------------------------------------------------------ reader side --
TRFrame ==
  LET d == E.dir  k == <<E.dir, E.conn>> IN
  IF Len(trunk[d]) = 0 THEN Reject("C10-framing", <<"frame out of nothing", d, E.conn, E.f>>)
  ELSE LET h == Head(trunk[d]) IN
       IF h.conn # E.conn \/ h.f # E.f \/ h.size # E.size
       THEN Reject("C10-framing", <<d, h, E.conn, E.f, E.size>>)
       ELSE /\ trunk' = [trunk EXCEPT ![d] = Tail(@)]
            /\ q' = IF E.open THEN Put(q, k, Append(Get(q, k), h)) ELSE q
            \* the specification's queue is never shorter than the real one at this moment
            /\ wasfull' = [wasfull EXCEPT ![d] = E.open /\ Len(Get(q, k)) >= cfg.qlen]
            /\ Next1("frames") /\ UNCHANGED <<wl, cw, sent, rcvd, cfg, phase>>

\* an overflow is real only if the queue was full when the frame arrived (the consumer may have read since)
TROvf ==
  LET k == <<E.dir, E.conn>> IN
  IF ~wasfull[E.dir] \/ Len(Get(q, k)) = 0 THEN Reject("C11-spurious-overflow", <<k, Len(Get(q, k)), cfg.qlen>>)
  ELSE /\ q' = Put(q, k, SubSeq(q[k], 1, Len(q[k]) - 1))      \* that frame was not queued
       /\ Next1("overflows") /\ UNCHANGED <<wl, cw, trunk, sent, rcvd, wasfull, cfg, phase>>

TRErr ==
  IF ~Faulty /\ phase = "run" THEN Reject("C11-spurious-error", <<"trunk read", E.dir, E.class>>)
  ELSE Skip

TRead ==
  LET d == ReadDir(E.end)  k == <<ReadDir(E.end), E.conn>> IN
  IF E.hung THEN Reject("C11-read-hung", <<E.end, E.conn>>)
  ELSE IF E.class # ""
       THEN IF ~Faulty /\ phase = "run" THEN Reject("C11-spurious-error", <<"read", E.end, E.conn, E.class>>)
            ELSE Skip
  ELSE IF Len(Get(q, k)) = 0 THEN Reject("C10-read-out-of-nothing", <<k, E.f>>)
  ELSE LET h == Head(q[k]) IN
       IF h.f # E.f \/ h.size # E.size THEN Reject("C10-order", <<k, h, E.f, E.size>>)
       ELSE IF ~E.intact THEN Reject("C10-corrupt", <<k, E.f>>)
       ELSE /\ q' = Put(q, k, Tail(q[k])) /\ rcvd' = Put(rcvd, k, Append(Get(rcvd, k), h))
            /\ Next1("reads") /\ UNCHANGED <<wl, cw, trunk, sent, wasfull, cfg, phase>>

TWRet ==
  IF E.hung THEN Reject("C11-write-hung", <<E.end, E.conn>>)
  ELSE IF E.class # "" /\ ~Faulty /\ phase = "run" THEN Reject("C11-spurious-error", <<"write", E.end, E.conn>>)
  ELSE Skip

\* without a fault everything written has been read, complete and in order, per connection
Complete ==
  /\ \A d \in Dirs : trunk[d] = <<>>
  /\ \A k \in DOMAIN sent : Get(q, k) = <<>> /\ Get(rcvd, k) = sent[k]
TQuiet ==
  IF ~Faulty /\ ~Complete
  THEN Reject("C10-incomplete", <<{k \in DOMAIN sent : Get(rcvd, k) # sent[k]}>>)
  ELSE /\ phase' = "post" /\ l' = l + 1 /\ UNCHANGED <<bad, stats, wl, cw, trunk, sent, q, rcvd, wasfull, cfg>>

\* --------------------------------------------------------- after the close --
TPostWrite ==
  IF E.hung THEN Reject("C11-write-hung", <<E.end, E.conn>>)
  ELSE IF E.class = "" THEN Reject("C11-write-after-close-succeeds", <<E.end, E.conn>>)
  ELSE Skip
TPostRead ==
  IF E.hung THEN Reject("C11-read-hung", <<E.end, E.conn>>)
  ELSE IF E.class = "" THEN Reject("C11-no-error-after-close", <<E.end, E.conn, E.reads>>)
  ELSE IF ~Faulty /\ E.class # "eof" THEN Reject("C11-not-eof-after-orderly-close", <<E.end, E.conn, E.class>>)
  ELSE Skip
\* Open() after the multiplexer was closed: refused (MuxTable: Open is not enabled once mclosed); a connection handed out
\* all the same must at least fail at once
TPostOpen == IF E.hung THEN Reject("C11-read-hung", <<"A", 3000>>)
             ELSE IF ~E.refused /\ E.class = "" THEN Reject("C11-no-error-after-close", <<"A", 3000, 0>>)
             ELSE Skip
TCloseDone == IF E.hung THEN Reject("C11-close-hung", <<E.end>>) ELSE Skip
TAccept ==
  IF E.hung THEN Reject("C11-accept-hung", <<E.n>>)
  ELSE IF E.n = 1 /\ ~E.got THEN Reject("C11-accept-first", <<E.class>>)
  ELSE IF E.n \in {2, 4, 5} /\ E.class # "eof" THEN Reject("C11-accept-after-close", <<E.n, E.class>>)   \* 2: blocked when closed (two of them); 4: called after the close; 5: closed before anybody accepted
  ELSE Skip

TraceNext ==
  /\ l <= Len(Tr)
  /\ CASE E.ev = "Begin"      -> TBegin
       [] E.ev = "wlocked"    -> TWLocked
       [] E.ev = "whdr"       -> TWHdr
       [] E.ev = "wpay"       -> TWPay
       [] E.ev = "wunlocking" -> TWUnlocking
       [] E.ev = "rframe"     -> TRFrame
       [] E.ev = "rovf"       -> TROvf
       [] E.ev = "rerr"       -> TRErr
       [] E.ev = "read"       -> TRead
       [] E.ev = "wret"       -> TWRet
       [] E.ev = "quiet"      -> TQuiet
       [] E.ev = "post.write" -> TPostWrite
       [] E.ev = "post.read"  -> TPostRead
       [] E.ev = "post.close" -> TCloseDone
       [] E.ev = "closed.by"  -> TCloseDone
       [] E.ev = "accept"     -> TAccept
       [] E.ev = "post.open"  -> TPostOpen
       [] E.ev = "crash"      -> Reject("C11-panic", <<E.text>>)
       [] E.ev = "skipped"    -> l' = E.nb /\ UNCHANGED <<bad, stats, wl, cw, trunk, sent, q, rcvd, wasfull, cfg, phase>>   \* not replayed
       [] OTHER               -> Skip

TraceSpec == TraceInit /\ [][TraceNext]_tvars
NotStuck == (l <= Len(Tr)) => ENABLED TraceNext
Done == l > Len(Tr)
ReportInv ==
  Done => /\ PrintT(<<"STATS", ToJson(stats)>>)
          /\ \A i \in DOMAIN bad : PrintT(<<"BAD", ToJson(bad[i])>>)
          /\ PrintT(<<"CONSUMED", l - 1>>)
=============================================================================
