---------------------------- MODULE Trace_Launch ----------------------------
(***************************************************************************)
(* Trace validation for C18: what the probe plugins report about how they  *)
(* were launched, configured, invoked and reaped must be what Launch.tla   *)
(* says for the materialised directory.                                    *)
(***************************************************************************)
EXTENDS Launch

CONSTANT TraceFile
Tr == ndJsonDeserialize(TraceFile)
VARIABLES l, bad, stats, s
tvars == <<l, bad, stats, s, sc, emitted>>
Ev == Tr[l]
SetOf(x) == {x[i] : i \in DOMAIN x}

Fresh == [entries |-> <<>>, dropins |-> {}, started |-> FALSE]
TraceInit == l = 1 /\ bad = <<>> /\ s = Fresh /\ sc = 0 /\ emitted = FALSE
             /\ stats = [scenarios |-> 0, reports |-> 0, launched |-> 0, rejected |-> 0]
Bump(c) == [stats EXCEPT ![c] = @ + 1]
Reject(label, detail) ==
  /\ bad' = Append(bad, [scn |-> Ev.scn, line |-> l, labels |-> {label}, detail |-> detail])
  /\ l' = Ev.nb /\ stats' = Bump("rejected") /\ UNCHANGED <<s, sc, emitted>>
Go(c, n) == l' = l + 1 /\ stats' = Bump(c) /\ s' = n /\ UNCHANGED <<bad, sc, emitted>>
Skip == l' = l + 1 /\ UNCHANGED <<bad, stats, s, sc, emitted>>

EntryOf(n) == s.entries[CHOOSE i \in DOMAIN s.entries : s.entries[i].name = n]
Healthy == {s.entries[i].name : i \in {j \in DOMAIN s.entries : Launchable(s.entries[j]) /\ s.entries[j].behaviour \in {"healthy", "liar", "stubborn"}}}
DieLater == {s.entries[i].name : i \in {j \in DOMAIN s.entries : Launchable(s.entries[j]) /\ s.entries[j].behaviour \in {"dielater", "hang"}}}

TBegin == Go("scenarios", [entries |-> Ev.entries, dropins |-> SetOf(Ev.dropins), started |-> FALSE, syncfails |-> Ev.syncfails])

\* a plugin failing to start, register or synchronise never fails the start-up as a whole
TStarted ==
  IF s.syncfails THEN (IF Ev.err THEN Go("reports", s) ELSE Reject("C18-start-succeeded-unexpectedly", <<>>))   \* the runtime's callback failed
  ELSE IF Ev.err THEN Reject("C18-start-failed", <<Ev.errtext>>) ELSE Go("reports", [s EXCEPT !.started = TRUE])

TReport ==
  LET e == EntryOf(Ev.name) IN
  IF ~Launchable(e)
  THEN IF Ev.count # 0 THEN Reject("C18-launched-unexpectedly", <<Ev.name, e.kind>>) ELSE Go("reports", s)
  ELSE IF Ev.count # 1 THEN Reject("C18-launch-count", <<Ev.name, Ev.count>>)
  ELSE IF SetOf(Ev.env) # EnvOf(e) \/ Len(Ev.env) # 3 THEN Reject("C18-environment", <<Ev.name, Ev.env>>)
  ELSE IF Ev.fd3 # "socket" THEN Reject("C18-socket", <<Ev.name, Ev.fd3>>)
  ELSE IF Len(Ev.leaks) > 0 THEN Reject("C18-descriptor-leak", <<Ev.name, Ev.leaks>>)
  ELSE IF ~s.syncfails /\ e.behaviour \in {"healthy", "dielater", "failsync", "liar", "hang", "stubborn", "linger"} /\ ~Ev.configured THEN Reject("C18-not-configured", <<Ev.name>>)
  ELSE IF Ev.configured /\ Ev.config # ConfigOf(e, s.dropins) THEN Reject("C18-configuration", <<Ev.name, Ev.config>>)
  ELSE Go("launched", s)

\* per event: the healthy plugins in index order (one that dies later may or may not still be there)
LinesOf(i) == SelectSeq(Ev.lines, LAMBDA x : Len(x) > 4 /\ SubSeq(x, Len(x) - 2, Len(x)) = "ev" \o ToString(i))
NamesOf(i) == [j \in DOMAIN LinesOf(i) |-> SubSeq(LinesOf(i)[j], 1, Len(LinesOf(i)[j]) - 4)]
DigitVal(d) == CHOOSE n \in 0..9 : ToString(n) = d
IdxNum(n) == 10 * DigitVal(SubSeq(n, 1, 1)) + DigitVal(SubSeq(n, 2, 2))
SortedIdx(q) == \A a, b \in DOMAIN q : a < b => IdxNum(q[a]) <= IdxNum(q[b])
OrderOK(i) ==
  LET q == NamesOf(i) IN
  /\ Healthy \subseteq SetOf(q) /\ SetOf(q) \subseteq Healthy \cup DieLater
  /\ Len(q) = Cardinality(SetOf(q))
  /\ SortedIdx(q)
\* scenarios with a lingering plugin: the runtime issues no request before it stops
NoEvents == \E i \in DOMAIN s.entries : s.entries[i].behaviour = "linger"
TOrder ==
  IF s.syncfails \/ NoEvents THEN (IF Len(Ev.lines) > 0 THEN Reject("C18-invocation", <<0, Ev.lines>>) ELSE Go("reports", s))
  ELSE IF ~OrderOK(1) THEN Reject("C18-invocation", <<1, NamesOf(1)>>)
  ELSE IF ~OrderOK(2) THEN Reject("C18-invocation", <<2, NamesOf(2)>>)
  ELSE IF ~OrderOK(3) THEN Reject("C18-invocation", <<3, NamesOf(3)>>)
  ELSE IF (SetOf(NamesOf(2)) \cup SetOf(NamesOf(3))) \cap DieLater # {} THEN Reject("C18-dead-plugin-invoked", <<NamesOf(2), NamesOf(3)>>)
  ELSE Go("reports", s)

\* after Stop nothing that was launched is alive (a zombie is not alive)
TAfterStop == IF Ev.state \notin {"gone", "Z"} THEN Reject("C18-not-reaped", <<Ev.name, Ev.state>>) ELSE Skip

TraceNext ==
  /\ l <= Len(Tr)
  /\ CASE Ev.ev = "Begin"      -> TBegin
       [] Ev.ev = "started"    -> TStarted
       [] Ev.ev = "report"     -> TReport
       [] Ev.ev = "order"      -> TOrder
       [] Ev.ev = "after.stop" -> TAfterStop
       [] OTHER                -> Skip
TraceSpec == TraceInit /\ [][TraceNext]_tvars
NotStuck == (l <= Len(Tr)) => ENABLED TraceNext
Done == l > Len(Tr)
ReportInv ==
  Done => /\ PrintT(<<"STATS", ToJson(stats)>>)
          /\ \A i \in DOMAIN bad : PrintT(<<"BAD", ToJson(bad[i])>>)
          /\ PrintT(<<"CONSUMED", l - 1>>)
=============================================================================
