--------------------------- MODULE Trace_Dispatch ---------------------------
(***************************************************************************)
(* Trace validation for C15: a plugin type with exactly the handler set    *)
(* `impl` runs on a real stub against a scripted runtime end that sends    *)
(* Configure and then all thirteen requests/events; the subscription the   *)
(* runtime end sees and every handler invocation and reply must be what    *)
(* StubDispatch.tla says.                                                  *)
(***************************************************************************)
EXTENDS Naturals, Sequences, FiniteSets, TLC, Json

CONSTANT TraceFile
Tr == ndJsonDeserialize(TraceFile)

Events == <<"RunPodSandbox", "StopPodSandbox", "RemovePodSandbox", "CreateContainer", "PostCreateContainer",
            "StartContainer", "PostStartContainer", "UpdateContainer", "PostUpdateContainer", "StopContainer",
            "RemoveContainer", "UpdatePodSandbox", "PostUpdatePodSandbox">>
EventSet == {Events[i] : i \in DOMAIN Events}
SetOf(s) == {s[i] : i \in DOMAIN s}
Subscription(impl, hascfg, cfg) ==
  IF ~hascfg \/ cfg = {} THEN [ok |-> TRUE, ev |-> impl]
  ELSE IF cfg \subseteq impl THEN [ok |-> TRUE, ev |-> cfg] ELSE [ok |-> FALSE, ev |-> {}]
AdjustOf(e, ctr) == IF e = "CreateContainer" THEN "CreateContainer/" \o ctr ELSE ""
\* the handlers answer with an update of another container and one (ignore-failure, cpu shares 77) of the request's own
UpdatesOf(e) == IF e \in {"CreateContainer", "UpdateContainer", "StopContainer"}
                THEN <<"upd-of-" \o e, "ctr-" \o e \o "!:77">> ELSE <<>>
HasCtr(e) == e \notin {"RunPodSandbox", "StopPodSandbox", "RemovePodSandbox", "UpdatePodSandbox", "PostUpdatePodSandbox"}

VARIABLES l, bad, stats, s
tvars == <<l, bad, stats, s>>
E == Tr[l]
Fresh == [impl |-> {}, hascfg |-> FALSE, cfg |-> {}, cfgerr |-> FALSE, errev |-> "", live |-> FALSE,
          calls |-> 0, replied |-> {}]
TraceInit == l = 1 /\ bad = <<>> /\ s = Fresh /\ stats = [scenarios |-> 0, handlers |-> 0, replies |-> 0, rejected |-> 0]
Bump(c) == [stats EXCEPT ![c] = @ + 1]
Reject(label, detail) ==
  /\ bad' = Append(bad, [scn |-> E.scn, line |-> l, labels |-> {label}, detail |-> detail])
  /\ l' = E.nb /\ stats' = Bump("rejected") /\ UNCHANGED s
Go(c, n) == l' = l + 1 /\ stats' = Bump(c) /\ s' = n /\ UNCHANGED bad
Skip == l' = l + 1 /\ UNCHANGED <<bad, stats, s>>

TBegin == Go("scenarios", [Fresh EXCEPT !.impl = SetOf(E.impl), !.hascfg = E.hascfg, !.cfg = SetOf(E.cfg),
                                        !.cfgerr = E.cfgerr, !.errev = E.errev])

\* a plugin implementing no event handler at all cannot be created
TNew ==
  IF (s.impl = {}) # (E.err # "") THEN Reject("C15-creation", <<E.err>>) ELSE Skip

TConfigured ==
  LET want == Subscription(s.impl, s.hascfg, s.cfg) IN
  IF s.hascfg /\ s.cfgerr
  THEN IF E.err = "" THEN Reject("C15-configure-error-lost", <<>>) ELSE Skip
  ELSE IF ~want.ok
       THEN IF E.err = "" THEN Reject("C15-unhandled-subscription-accepted", <<E.events>>) ELSE Skip
       ELSE IF E.err # "" THEN Reject("C15-configure-failed", <<E.err>>)
            ELSE IF SetOf(E.events) # want.ev THEN Reject("C15-subscription", <<E.events, want.ev>>)
            ELSE Go("handlers", [s EXCEPT !.live = TRUE])

TStarted ==
  LET shouldfail == (s.hascfg /\ s.cfgerr) \/ ~Subscription(s.impl, s.hascfg, s.cfg).ok IN
  IF E.err # shouldfail THEN Reject("C15-start-result", <<E.err>>) ELSE Skip

\* handler invocation for the message of event E.for
THandler ==
  IF E.handler # E.for THEN Reject("C15-wrong-handler", <<E.for, E.handler>>)
  ELSE IF E.for \notin s.impl THEN Reject("C15-phantom-handler", <<E.for>>)
  ELSE IF s.calls # 0 THEN Reject("C15-delivered-twice", <<E.for>>)
  ELSE IF E.pod # "pod-" \o E.for \/ (HasCtr(E.for) /\ E.ctr # "ctr-" \o E.for) \/ (~HasCtr(E.for) /\ E.ctr # "")
       THEN Reject("C15-arguments", <<E.for, E.pod, E.ctr>>)
  ELSE IF E.podname # "pn" \o ToString(E.i) \/ (HasCtr(E.for) /\ E.ctrname # "cn" \o ToString(E.i))
       THEN Reject("C15-arguments", <<E.for, E.podname, E.ctrname>>)
  ELSE IF E.for \in {"UpdateContainer", "UpdatePodSandbox"} /\ E.res # ToString(100 + E.i)
       THEN Reject("C15-resources", <<E.for, E.res>>)
  ELSE IF E.for = "UpdatePodSandbox" /\ E.over # ToString(200 + E.i)
       THEN Reject("C15-resources", <<E.for, E.over>>)
  ELSE Go("handlers", [s EXCEPT !.calls = 1])

\* the reply the runtime end got for the message of event E.event
TReply ==
  LET e == E.event  handled == e \in s.impl IN
  IF handled /\ s.calls # 1 THEN Reject("C15-not-delivered", <<e>>)
  ELSE IF handled /\ s.errev = e
       THEN IF E.err # "verif: handler error " \o e THEN Reject("C15-handler-error-changed", <<e, E.err>>)
            ELSE Go("replies", [s EXCEPT !.calls = 0, !.replied = @ \cup {e}])
  ELSE IF E.err # "" THEN Reject("C15-spurious-error", <<e, E.err>>)
  ELSE IF handled /\ (E.adjust # AdjustOf(e, "ctr-" \o e) \/ E.updates # UpdatesOf(e))
       THEN Reject("C15-result-changed", <<e, E.adjust, E.updates>>)
  ELSE IF ~handled /\ (E.adjust # "" \/ E.updates # <<>>) THEN Reject("C15-result-invented", <<e>>)
  ELSE Go("replies", [s EXCEPT !.calls = 0, !.replied = @ \cup {e}])

\* a later session of the same stub that asks for the default is subscribed to everything implemented
TRestarted ==
  IF E.err # "" THEN Reject("C15-restart-failed", <<E.err>>)
  ELSE IF SetOf(E.events) # s.impl THEN Reject("C15-subscription-after-restart", <<E.events, s.impl>>)
  ELSE Skip

TEnd ==
  IF s.live /\ s.replied # EventSet THEN Reject("C15-events-missing", <<EventSet \ s.replied>>) ELSE Skip

TraceNext ==
  /\ l <= Len(Tr)
  /\ CASE E.ev = "Begin"      -> TBegin
       [] E.ev = "new"        -> TNew
       [] E.ev = "configured" -> TConfigured
       [] E.ev = "started"    -> TStarted
       [] E.ev = "restarted"  -> TRestarted
       [] E.ev = "handler"    -> THandler
       [] E.ev = "reply"      -> TReply
       [] E.ev = "syncerr"    -> Reject("C15-synchronize", <<E.err>>)
       [] E.ev = "End"        -> TEnd
       [] OTHER               -> Skip
TraceSpec == TraceInit /\ [][TraceNext]_tvars
NotStuck == (l <= Len(Tr)) => ENABLED TraceNext
Done == l > Len(Tr)
ReportInv ==
  Done => /\ PrintT(<<"STATS", ToJson(stats)>>)
          /\ \A i \in DOMAIN bad : PrintT(<<"BAD", ToJson(bad[i])>>)
          /\ PrintT(<<"CONSUMED", l - 1>>)
=============================================================================
