----------------------------- MODULE Trace_Sync -----------------------------
(***************************************************************************)
(* Trace validation for C09.  The trace specification is the *protocol* of *)
(* SyncChunk.tla, not its sizing policy: any sequence of messages that     *)
(* makes progress is accepted; what is checked is that the concatenation   *)
(* of the transmitted chunks is the supplied state, the `more` flags, one  *)
(* handler call with exactly that state, the updates reaching the runtime, *)
(* that a failure is justified and clean, and that nothing crashes or      *)
(* loops.                                                                  *)
(***************************************************************************)
EXTENDS Naturals, Sequences, FiniteSets, TLC, Json

CONSTANT TraceFile
Tr == ndJsonDeserialize(TraceFile)

VARIABLES l, bad, stats,
          st   \* per-scenario state

tvars == <<l, bad, stats, st>>
E == Tr[l]

Fresh == [pods |-> <<>>, ctrs |-> <<>>, sp |-> 0, sc |-> 0, np |-> 0, nc |-> 0, more |-> FALSE, pending |-> FALSE,
          sends |-> 0, calls |-> 0, failed |-> FALSE, okdone |-> FALSE, lastover |-> 0, updates |-> FALSE,
          activated |-> FALSE, minobjs |-> 8, synced |-> FALSE, expect |-> "", other |-> FALSE, grew |-> FALSE, accepted |-> FALSE, again |-> FALSE]

TraceInit == l = 1 /\ bad = <<>> /\ st = Fresh
             /\ stats = [scenarios |-> 0, sends |-> 0, oversize |-> 0, delivered |-> 0, failures |-> 0, rejected |-> 0]

Bump(c) == [stats EXCEPT ![c] = @ + 1]
Reject(label, detail) ==
  /\ bad' = Append(bad, [scn |-> E.scn, line |-> l, labels |-> {label}, detail |-> detail])
  /\ l' = E.nb /\ stats' = Bump("rejected") /\ UNCHANGED st
Go(c, s) == /\ l' = l + 1 /\ stats' = Bump(c) /\ st' = s /\ UNCHANGED bad
Skip == l' = l + 1 /\ UNCHANGED <<bad, stats, st>>

RemP == Len(st.pods) - st.sp
RemC == Len(st.ctrs) - st.sc

TBegin == Go("scenarios", [Fresh EXCEPT !.pods = E.pods, !.ctrs = E.ctrs, !.minobjs = E.minobjs, !.expect = E.expect])

TSend ==
  IF st.pending THEN Reject("C09-protocol", <<"send while a message is outstanding">>)
  ELSE IF E.np > RemP \/ E.nc > RemC THEN Reject("C09-out-of-bounds", <<E.np, E.nc, RemP, RemC>>)
  ELSE IF E.more # (E.np < RemP \/ E.nc < RemC) THEN Reject("C09-more-flag", <<E.np, E.nc, E.more>>)
  ELSE IF st.sends > 4 * (Len(st.pods) + Len(st.ctrs)) + 8 THEN Reject("C09-livelock", <<st.sends>>)
  ELSE Go("sends", [st EXCEPT !.np = E.np, !.nc = E.nc, !.more = E.more, !.pending = TRUE, !.sends = @ + 1,
                              \* the count discipline of SyncChunkInd: once a message has been accepted no kind of
                              \* object gets a larger share per message (except the 0 -> 1 that keeps things moving)
                              !.grew = @ \/ (st.accepted /\ ((E.np > st.np /\ E.np > 1) \/ (E.nc > st.nc /\ E.nc > 1)))])

TResult ==
  IF ~st.pending THEN Reject("C09-protocol", <<"result without a message">>)
  ELSE IF E.ok
       THEN IF st.more /\ st.np + st.nc = 0 /\ RemP + RemC > 0
            THEN Reject("C09-no-progress", <<st.sends>>)       \* an empty non-final message
            ELSE Go("delivered", [st EXCEPT !.sp = @ + st.np, !.sc = @ + st.nc, !.pending = FALSE,
                                            !.okdone = ~st.more, !.accepted = TRUE])
       ELSE IF E.oversize
            THEN Go("oversize", [st EXCEPT !.pending = FALSE, !.lastover = st.np + st.nc])
            ELSE Go("failures", [st EXCEPT !.pending = FALSE, !.lastover = 0])

\* the plugin's handler: exactly once, with exactly the supplied state in the supplied order
THandler ==
  IF st.calls > 0 THEN Reject("C09-handler-twice", <<>>)
  ELSE IF E.pods # st.pods \/ E.ctrs # st.ctrs THEN Reject("C09-delivery", <<Len(E.pods), Len(E.ctrs)>>)
  ELSE IF ~E.intact THEN Reject("C09-delivery-content", <<>>)
  ELSE IF st.sp + st.np # Len(st.pods) \/ st.sc + st.nc # Len(st.ctrs) \/ st.more
       THEN Reject("C09-delivery-early", <<st.sp, st.sc>>)
  ELSE Go("delivered", [st EXCEPT !.calls = 1])

TUpdates ==
  IF E.err = "" /\ E.ids # <<"su-1", "su-2">> THEN Reject("C09-updates", <<E.ids>>)
  ELSE Go("sends", [st EXCEPT !.updates = (E.err = "")])

\* giving up is legitimate only when a message of at most MinObjs objects did not fit
TSynced ==
  IF E.err = ""
  THEN IF st.calls # 1 THEN Reject("C09-handler-not-called", <<st.calls>>)
       ELSE IF ~st.updates THEN Reject("C09-updates", <<"not returned">>)
       ELSE Go("sends", [st EXCEPT !.synced = TRUE])
  ELSE IF st.calls # 0 THEN Reject("C09-failure-after-delivery", <<E.err>>)
       ELSE IF ~(st.lastover > 0 /\ st.lastover <= st.minobjs) THEN Reject("C09-unjustified-failure", <<E.err, st.lastover>>)
       \* a state the specified policy (SyncChunk) transmits must not be given up on
       ELSE IF st.expect = "ok" THEN Reject("C09-unjustified-failure", <<E.err, "the specified policy transmits this state", st.np, st.nc>>)
       ELSE IF st.grew THEN Reject("C09-unjustified-failure", <<E.err, "a chunk grew after an accepted message", st.np, st.nc>>)
       ELSE Go("failures", [st EXCEPT !.failed = TRUE])

TActivated ==
  IF st.failed \/ ~st.synced THEN Reject("C09-activated-after-failure", <<>>)
  ELSE Go("sends", [st EXCEPT !.activated = TRUE])

\* another plugin registering afterwards is handed the same, complete state
TOtherHandler ==
  IF E.pods # st.pods \/ E.ctrs # st.ctrs \/ ~E.intact THEN Reject("C09-delivery-second-plugin", <<Len(E.pods), Len(E.ctrs)>>)
  ELSE Go("delivered", [st EXCEPT !.other = TRUE])
TOtherEnd ==
  IF E.hung \/ E.text # "" THEN Reject("C09-second-plugin-failed", <<E.text>>)
  ELSE IF ~st.other /\ ~st.failed THEN Reject("C09-delivery-second-plugin", <<"handler not called">>)
  ELSE Skip

\* a second session of the same stub with another state: exactly that state, nothing left over from the first
TAgainHandler ==
  IF E.pods # <<"again-pod0", "again-pod1">> \/ E.ctrs # <<"again-ctr0", "again-ctr1", "again-ctr2">>
  THEN Reject("C09-delivery-second-session", <<Len(E.pods), Len(E.ctrs)>>)
  ELSE Go("delivered", [st EXCEPT !.again = TRUE])
TAgainEnd ==
  IF E.hung \/ E.text # "" THEN Reject("C09-second-session-failed", <<E.text>>)
  ELSE IF ~st.again THEN Reject("C09-delivery-second-session", <<"handler not called">>)
  ELSE Skip

TEnd ==
  IF E.crashed THEN Reject("C09-crash", <<E.text>>)
  ELSE IF E.hung THEN Reject("C09-hang", <<E.text>>)
  ELSE IF ~st.failed /\ ~st.activated THEN Reject("C09-not-activated", <<E.text>>)
  ELSE Skip

TraceNext ==
  /\ l <= Len(Tr)
  /\ CASE E.ev = "Begin"     -> TBegin
       [] E.ev = "send"      -> TSend
       [] E.ev = "result"    -> TResult
       [] E.ev = "handler"   -> THandler
       [] E.ev = "updates"   -> TUpdates
       [] E.ev = "synced"    -> TSynced
       [] E.ev = "activated" -> TActivated
       [] E.ev = "other.handler" -> TOtherHandler
       [] E.ev = "other.end" -> TOtherEnd
       [] E.ev = "again.handler" -> TAgainHandler
       [] E.ev = "again.end" -> TAgainEnd
       [] E.ev = "End"       -> TEnd
       [] OTHER              -> Skip

TraceSpec == TraceInit /\ [][TraceNext]_tvars
NotStuck == (l <= Len(Tr)) => ENABLED TraceNext
Done == l > Len(Tr)
ReportInv ==
  Done => /\ PrintT(<<"STATS", ToJson(stats)>>)
          /\ \A i \in DOMAIN bad : PrintT(<<"BAD", ToJson(bad[i])>>)
          /\ PrintT(<<"CONSUMED", l - 1>>)
=============================================================================
