--------------------------- MODULE Trace_AdaptLife ---------------------------
(***************************************************************************)
(* Trace validation for X02: every schedule stepped through a real         *)
(* Adaptation is replayed on AdaptLife; after every step the observable    *)
(* part of the state (listener up, connections closed by the runtime, who  *)
(* was served) must agree.  Whether a late registration is admitted is     *)
(* read from the trace (both outcomes are behaviours of the specification, *)
(* AsIs or not), the connections closed are taken from the observation     *)
(* (they must belong to dropped plugins); the states in which the intended *)
(* invariants Quiescent / NoZombie / Told fail are flagged.                *)
(***************************************************************************)
EXTENDS AdaptLife, Json

CONSTANT TraceFile
Tr == ndJsonDeserialize(TraceFile)

VARIABLES l, bad, stats, flags
tvars == <<l, bad, stats, flags, lvars>>
E == Tr[l]
ToSet(s) == {s[i] : i \in DOMAIN s}

TraceInit == /\ l = 1 /\ bad = <<>> /\ flags = {} /\ LInit
             /\ stats = [scenarios |-> 0, steps |-> 0, rejected |-> 0, flagged |-> 0]
Bump(c) == [stats EXCEPT ![c] = @ + 1]

Reject(label, detail) ==
  /\ bad' = Append(bad, [scn |-> E.scn, line |-> l, labels |-> {label} \cup flags, detail |-> detail])
  /\ l' = E.nb /\ stats' = Bump("rejected") /\ UNCHANGED <<flags, lvars>>

TBegin == /\ l' = l + 1 /\ stats' = Bump("scenarios") /\ flags' = {} /\ UNCHANGED bad
          /\ epoch' = 1 /\ up' = TRUE /\ plist' = {} /\ pst' = [p \in Plugins |-> "idle"]
          /\ pep' = [p \in Plugins |-> 0] /\ synclock' = "none" /\ closed' = {} /\ reqs' = 0
          /\ served' = <<>> /\ upAt' = <<>>

Act == CASE E.a = "Start"    -> Start
         [] E.a = "Stop"     -> StopAs(FALSE)
         [] E.a = "Request"  -> Request
         [] E.a = "Accept"   -> Accept(E.p)
         [] E.a = "Excl"     -> Excl(E.p)
         [] E.a = "Sync"     -> Sync(E.p)
         [] E.a = "Activate" -> ActivateAs(E.p, E.activated)

Mismatch == (IF E.up # up' THEN {"up"} ELSE {})
       \cup (IF ~(ToSet(E.closed) \subseteq Dropped') THEN {"closed"} ELSE {})
       \cup (IF E.a = "Request" /\ ToSet(E.got) # plist THEN {"served"} ELSE {})
       \cup (IF E.a = "Activate" /\ ~E.activated /\ ~Late(E.p) THEN {"refused-in-time"} ELSE {})
NewFlags == (IF ~Quiescent' THEN {"X02-active-after-stop"} ELSE {})
       \cup (IF ~NoZombie' THEN {"X02-zombie-after-restart"} ELSE {})
       \cup (IF E.a = "Request" /\ ~up /\ ToSet(E.got) # {} THEN {"X02-served-after-stop"} ELSE {})

TStep ==
  IF ~E.ok THEN Reject("X02-step-blocked", <<E.a, E.p, E.err>>)
  ELSE IF ~ENABLED Act THEN Reject("X02-schedule-not-a-behaviour", <<E.a, E.p>>)
  ELSE \/ /\ Act /\ Mismatch = {}
          /\ l' = l + 1 /\ stats' = Bump("steps") /\ flags' = flags \cup NewFlags /\ UNCHANGED bad
       \/ /\ Act /\ Mismatch # {}
          /\ bad' = Append(bad, [scn |-> E.scn, line |-> l, labels |-> {"X02-conformance"} \cup flags, detail |-> <<E.a, E.p, Mismatch>>])
          /\ l' = E.nb /\ stats' = Bump("rejected") /\ UNCHANGED flags

TEnd ==
  IF E.aborted THEN Reject("X02-setup-failed", <<E.err>>)
  ELSE IF ~(ToSet(E.closed) \subseteq Dropped) \/ E.up # up
  THEN Reject("X02-conformance", <<"End", IF E.up # up THEN "up" ELSE "closed", ToSet(E.closed), Dropped>>)
  ELSE LET fl == flags \cup (IF ~(Dropped \subseteq ToSet(E.closed)) THEN {"X02-dropped-plugin-left-connected"} ELSE {}) IN
       /\ l' = l + 1 /\ UNCHANGED <<flags, lvars>>
       /\ IF fl # {}
          THEN /\ bad' = Append(bad, [scn |-> E.scn, line |-> l, labels |-> fl, detail |-> <<"flagged">>])
               /\ stats' = Bump("flagged")
          ELSE UNCHANGED <<bad, stats>>

TraceNext ==
  /\ l <= Len(Tr)
  /\ CASE E.ev = "Begin" -> TBegin
       [] E.ev = "Step"  -> TStep
       [] E.ev = "End"   -> TEnd
TraceSpec == TraceInit /\ [][TraceNext]_tvars
NotStuck == (l <= Len(Tr)) => ENABLED TraceNext
Done == l > Len(Tr)
ReportInv ==
  Done => /\ PrintT(<<"STATS", ToJson(stats)>>)
          /\ \A i \in DOMAIN bad : PrintT(<<"BAD", ToJson(bad[i])>>)
          /\ PrintT(<<"CONSUMED", l - 1>>)
=============================================================================
