------------------------------ MODULE Trace_Oci ------------------------------
(***************************************************************************)
(* Trace validation for C13: each event is one (spec, adjustment) pair     *)
(* applied R times by the real generator on fresh copies; every result     *)
(* must equal OciApply, everything else in the spec must be untouched,     *)
(* mounts must come parents-first and all repetitions must agree.          *)
(***************************************************************************)
EXTENDS Container, Json

CONSTANT TraceFile
Tr == ndJsonDeserialize(TraceFile)

VARIABLES l, bad, stats
tvars == <<l, bad, stats>>

OciFields == {"ann", "env", "mnt", "dev", "args", "hooks", "rlim", "cdi", "res", "hp", "uni"}
ContFields == OciFields \ {"cdi"}
Core(x, F) == [f \in F |-> x[f]]
Diff(x, y, F) == {f \in F : x[f] # y[f]}

E == Tr[l]

TraceInit == l = 1 /\ bad = <<>> /\ stats = [scenarios |-> 0, results |-> 0, rejected |-> 0]

\* device cgroup rules: one allow rule "type|major|minor" per device the adjustment sets, in list order
SepPos(v) == SelectSeq([i \in 1..Len(v) |-> i], LAMBDA i : SubSeq(v, i, i) = "|")
Prefix3(v) == IF Len(SepPos(v)) >= 3 THEN SubSeq(v, 1, SepPos(v)[3] - 1) ELSE v
ExpDevc == LET sets == SelectSeq(E.adj.dev, LAMBDA d : ~IsMarked(d.k)) IN [i \in DOMAIN sets |-> Prefix3(sets[i].v)]

Expected == OciApply(ToOci(Core(E.orig, ContFields)), Core(E.adj, DOMAIN EmptyAdjust))

Labels ==
  LET R == E.results
      wrong == {i \in DOMAIN R : \/ NoSwap(Core(R[i], OciFields)) # NoSwap(Expected)
                                  \/ ~SwapOK(R[i], Expected, ToOci(Core(E.orig, ContFields)))}
  IN (IF \E i \in DOMAIN E.gerrs : E.gerrs[i] # "" THEN {"C13-generator-error"} ELSE {})
     \cup (IF wrong # {} THEN {"C13-result"} ELSE {})
     \cup (IF \E i \in DOMAIN E.rests : E.rests[i] # E.rest0 THEN {"C13-frame"} ELSE {})
     \cup (IF \E i \in DOMAIN R : R[i].devc # ExpDevc THEN {"C13-device-rules"} ELSE {})
     \* repetitions 1, 3, .. start from the original's mounts listed parents-first, 2, 4, .. children-first
     \cup (IF \E i \in DOMAIN R : R[i] # R[IF i % 2 = 1 THEN 1 ELSE 2] THEN {"C13-determinism"} ELSE {})
     \* once a mount adjustment was made the order no longer depends on the order the runtime listed its mounts in
     \cup (IF Len(E.adj.mnt) > 0 /\ \E i \in DOMAIN R : R[i].mord # R[1].mord THEN {"C13-mount-order"} ELSE {})
     \* without one, the runtime's order is left alone
     \cup (IF Len(E.adj.mnt) = 0 /\ \E i \in DOMAIN R : R[i].mord # E.ords[i] THEN {"C13-frame"} ELSE {})
     \cup (IF Len(E.adj.mnt) > 0 /\ \E i \in DOMAIN R : ~ParentsFirst(R[i].mord) THEN {"C13-mount-order"} ELSE {})
     \cup (IF \E i \in DOMAIN R : SeqRange(R[i].mord) # DOMAIN R[i].mnt \/ Len(R[i].mord) # Cardinality(DOMAIN R[i].mnt)
           THEN {"C13-mount-dup"} ELSE {})

Detail ==
  LET R == E.results
      wrong == {i \in DOMAIN R : \/ NoSwap(Core(R[i], OciFields)) # NoSwap(Expected)
                                  \/ ~SwapOK(R[i], Expected, ToOci(Core(E.orig, ContFields)))}
  IN <<UNION {Diff(R[i], Expected, OciFields) : i \in wrong}, Cardinality(wrong), Len(R)>>

TOci ==
  /\ l <= Len(Tr)
  /\ E.ev = "Oci"
  /\ l' = l + 1
  /\ IF Labels # {}
     THEN /\ bad' = Append(bad, [scn |-> E.scn, line |-> l, labels |-> Labels, detail |-> Detail])
          /\ stats' = [stats EXCEPT !.scenarios = @ + 1, !.results = @ + Len(E.results), !.rejected = @ + 1]
     ELSE /\ bad' = bad
          /\ stats' = [stats EXCEPT !.scenarios = @ + 1, !.results = @ + Len(E.results)]

TraceSpec == TraceInit /\ [][TOci]_tvars

Done == l > Len(Tr)
ReportInv ==
  Done => /\ PrintT(<<"STATS", ToJson(stats)>>)
          /\ \A i \in DOMAIN bad : PrintT(<<"BAD", ToJson(bad[i])>>)
          /\ PrintT(<<"CONSUMED", l - 1>>)
=============================================================================
