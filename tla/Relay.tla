------------------------------- MODULE Relay -------------------------------
(***************************************************************************)
(* The relay layer of NRI (pkg/adaptation/adaptation.go, plugin.go):       *)
(*   - the registry of active plugins, ordered by index                     *)
(*   - the adaptation lock: one request / unsolicited update / activation  *)
(*     at a time                                                           *)
(*   - the relay loop: each subscribed live plugin once, in index order    *)
(*   - the plugin-sync lock: registrations are exclusive, runtime          *)
(*     goroutines hold shared "sync blocks" around create + bookkeeping    *)
(*   - plugin failure (closed plugins are skipped and pruned) and handler  *)
(*     errors (veto)                                                       *)
(* One action per critical section / lock operation of the code; actors    *)
(* are parameters, so that the same actions serve the model-checking       *)
(* configurations (MC_Relay) and trace validation (Trace_Relay).           *)
(*                                                                         *)
(* C06: Sorted, OncePerRequest, Subscribed, CommonOrder (via the lock)     *)
(* C07: failed plugins skipped + pruned, Veto                              *)
(* C08: ExactlyOnce, HeldBlocksSync                                        *)
(* C19: MutualExclusion of the update callback                             *)
(***************************************************************************)
EXTENDS Naturals, Sequences, FiniteSets, TLC

CREATE == "CreateContainer"

\* what a call to a plugin can return when its connection fails or it does not answer (ttrpc.ErrClosed,
\* ErrServerClosed, ErrProtocol, context.DeadlineExceeded, or the multiplexer's raw error for a frame that was
\* cut short), and which of these plugin.go's isFatalError classifies as "drop the plugin, go on"
ErrKinds == {"closed", "server-closed", "protocol", "deadline", "truncated"}
CONSTANT FatalKinds

VARIABLES
  idx,      \* plugin -> index 0..99            (domain: plugins that reached registration)
  mask,     \* plugin -> set of subscribed events
  pst,      \* plugin -> registration phase: "syncwait" | "exclusive" | "synced" | "active" | "failed"
  dead,     \* plugins whose connection is closed (dropped, failed or left)
  active,   \* sequence of plugins in invocation order (the code's r.plugins)
  rlock,    \* holder of the adaptation lock, "" if free
  cur,      \* what the holder is doing: [op, id, ev, ctr, plist, pos, veto, cause, visited]
  swriter,  \* plugin holding the sync lock exclusively, "" if none
  readers,  \* set of sync-block tokens held (shared holders)
  seen,     \* plugin -> sequence of request ids delivered to its handlers
  store,    \* containers in the runtime's own bookkeeping
  snap,     \* plugin -> containers in the snapshot it was synchronized with
  created,  \* plugin -> containers whose creation request it received
  lockseq,  \* sequence of request ids in lock-acquisition order (history)
  cin       \* plugin -> id of the request during which it was closed ("" = outside any request)

rvars == <<idx, mask, pst, dead, active, rlock, cur, swriter, readers, seen, store, snap, created, lockseq, cin>>

NoCur == [op |-> "", id |-> "", ev |-> "", ctr |-> "", plist |-> <<>>, pos |-> 0, veto |-> "no", cause |-> "",
          visited |-> <<>>]

RInit ==
  /\ idx = [p \in {} |-> 0] /\ mask = [p \in {} |-> {}] /\ pst = [p \in {} |-> ""] /\ dead = {}
  /\ active = <<>> /\ rlock = "" /\ cur = NoCur /\ swriter = "" /\ readers = {}
  /\ seen = [p \in {} |-> <<>>] /\ store = {} /\ snap = [p \in {} |-> {}]
  /\ created = [p \in {} |-> {}] /\ lockseq = <<>> /\ cin = [p \in {} |-> ""]

Ext(f, p, v) == [x \in DOMAIN f \cup {p} |-> IF x = p THEN v ELSE f[x]]
Known(p) == p \in DOMAIN pst
SeqSet(s) == {s[i] : i \in DOMAIN s}
Prune(s) == SelectSeq(s, LAMBDA p : p \notin dead)

\* ------------------------------------------------------------ registration --
(* A plugin that connected, registered a well-formed identity and answered  *)
(* configuration with the mask m asks for the exclusive sync lock.          *)
WantSync(p, i, m) ==
  /\ ~Known(p)
  /\ idx' = Ext(idx, p, i) /\ mask' = Ext(mask, p, m) /\ pst' = Ext(pst, p, "syncwait")
  /\ seen' = Ext(seen, p, <<>>) /\ snap' = Ext(snap, p, {}) /\ created' = Ext(created, p, {})
  /\ UNCHANGED <<dead, active, rlock, cur, swriter, readers, store, lockseq, cin>>

\* the exclusive lock is granted only when no sync block is held
GotSync(p) ==
  /\ Known(p) /\ pst[p] = "syncwait"
  /\ readers = {} /\ swriter = ""
  /\ swriter' = p /\ pst' = [pst EXCEPT ![p] = "exclusive"]
  /\ UNCHANGED <<idx, mask, dead, active, rlock, cur, readers, seen, store, snap, created, lockseq, cin>>

\* the runtime hands its current state to the plugin
Snapshot(p, S) ==
  /\ swriter = p /\ pst[p] = "exclusive"
  /\ snap' = [snap EXCEPT ![p] = S] /\ pst' = [pst EXCEPT ![p] = "synced"]
  /\ UNCHANGED <<idx, mask, dead, active, rlock, cur, swriter, readers, seen, store, created, lockseq, cin>>

SyncFailed(p) ==
  /\ swriter = p /\ pst[p] \in {"exclusive", "synced"}
  /\ pst' = [pst EXCEPT ![p] = "failed"]
  /\ UNCHANGED <<idx, mask, dead, active, rlock, cur, swriter, readers, seen, store, snap, created, lockseq, cin>>

(* order is a sorted arrangement of the active plugins plus p; plugins whose *)
(* connection is closed may or may not have been pruned already (when the  *)
(* pruning happens is not part of any property).                           *)
SortedSeq(s) == \A i, j \in DOMAIN s : i < j => idx[s[i]] <= idx[s[j]]
NoDup(s) == \A i, j \in DOMAIN s : i # j => s[i] # s[j]
ActiveSetOK(order, p) ==
  /\ NoDup(order)
  /\ (SeqSet(Prune(active)) \cup ({p} \ dead)) \subseteq SeqSet(order)
  /\ SeqSet(order) \subseteq (SeqSet(active) \cup {p})
Activate(p, order) ==
  /\ swriter = p /\ pst[p] = "synced" /\ rlock = p
  /\ ActiveSetOK(order, p)
  /\ SortedSeq(order)
  /\ active' = order /\ pst' = [pst EXCEPT ![p] = "active"]
  /\ UNCHANGED <<idx, mask, dead, rlock, cur, swriter, readers, seen, store, snap, created, lockseq, cin>>

FinishSync(p) ==
  /\ swriter = p /\ rlock # p
  /\ swriter' = ""
  /\ UNCHANGED <<idx, mask, pst, dead, active, rlock, cur, readers, seen, store, snap, created, lockseq, cin>>

\* ------------------------------------------------------------- sync blocks --
Block(t) ==
  /\ t \notin readers /\ swriter = ""
  /\ readers' = readers \cup {t}
  /\ UNCHANGED <<idx, mask, pst, dead, active, rlock, cur, swriter, seen, store, snap, created, lockseq, cin>>

Unblock(t) ==
  /\ t \in readers
  /\ readers' = readers \ {t}
  /\ UNCHANGED <<idx, mask, pst, dead, active, rlock, cur, swriter, seen, store, snap, created, lockseq, cin>>

StoreAdd(x) ==
  /\ store' = store \cup {x}
  /\ UNCHANGED <<idx, mask, pst, dead, active, rlock, cur, swriter, readers, seen, snap, created, lockseq, cin>>

\* -------------------------------------------------------- the adaptation lock --
\* op: "request" (lifecycle request/event), "update" (unsolicited update), "register"
Lock(h, op, id, ev, ctr) ==
  /\ rlock = ""
  /\ rlock' = h
  /\ cur' = [op |-> op, id |-> id, ev |-> ev, ctr |-> ctr, plist |-> active, pos |-> 0,
             veto |-> "no", cause |-> "", visited |-> <<>>]
  /\ lockseq' = IF op = "request" THEN Append(lockseq, id) ELSE lockseq
  /\ UNCHANGED <<idx, mask, pst, dead, active, swriter, readers, seen, store, snap, created, cin>>

\* plugins between the cursor and position j that must not be passed over
MustVisit(k) == cur.ev \in mask[cur.plist[k]] /\ cur.plist[k] \notin dead
NextTarget(j) ==
  /\ j \in (cur.pos + 1)..Len(cur.plist)
  /\ \A k \in (cur.pos + 1)..(j - 1) : ~MustVisit(k)

(* The request is delivered to the handler of plugin p: p is the next       *)
(* subscribed plugin in the order fixed when the lock was taken.            *)
Deliver(p) ==
  /\ rlock # "" /\ cur.op = "request" /\ cur.veto # "yes"
  /\ \E j \in DOMAIN cur.plist :
        /\ cur.plist[j] = p /\ NextTarget(j)
        /\ cur.ev \in mask[p]
        /\ p \in dead => cin[p] = cur.id     \* a dropped plugin gets no further requests
        /\ cur' = [cur EXCEPT !.pos = j, !.visited = Append(@, p), !.veto = "no"]
  /\ seen' = [seen EXCEPT ![p] = Append(@, cur.id)]
  /\ created' = IF cur.ev = CREATE THEN [created EXCEPT ![p] = @ \cup {cur.ctr}] ELSE created
  /\ UNCHANGED <<idx, mask, pst, dead, active, rlock, swriter, readers, store, snap, lockseq, cin>>

\* the handler of the plugin visited last failed the request deliberately
Veto ==
  /\ rlock # "" /\ cur.op = "request" /\ cur.veto = "no" /\ Len(cur.visited) > 0
  /\ cur' = [cur EXCEPT !.veto = "yes", !.cause = "handler"]
  /\ UNCHANGED <<idx, mask, pst, dead, active, rlock, swriter, readers, seen, store, snap, created, lockseq, cin>>

\* the call to the plugin visited last - whose connection failed during this request - returns an error of
\* kind k: a fatal kind drops the plugin and the relay goes on; any other kind would fail the request
CallError(k) ==
  /\ rlock # "" /\ cur.op = "request" /\ cur.veto = "no" /\ Len(cur.visited) > 0
  /\ k \in ErrKinds
  /\ LET p == cur.visited[Len(cur.visited)] IN p \in dead /\ p \in DOMAIN cin /\ cin[p] = cur.id
  /\ cur' = IF k \in FatalKinds THEN cur ELSE [cur EXCEPT !.veto = "yes", !.cause = "transport"]
  /\ UNCHANGED <<idx, mask, pst, dead, active, rlock, swriter, readers, seen, store, snap, created, lockseq, cin>>

RelayDone == cur.veto # "no" \/ \A k \in (cur.pos + 1)..Len(cur.plist) : ~MustVisit(k)

Unlock(h) ==
  /\ rlock = h
  /\ cur.op = "request" => RelayDone
  /\ rlock' = "" /\ cur' = NoCur
  /\ active' = IF cur.op = "request" THEN Prune(active) ELSE active
  /\ UNCHANGED <<idx, mask, pst, dead, swriter, readers, seen, store, snap, created, lockseq, cin>>

\* a plugin's connection is lost / it is dropped: any time
PluginClosed(p) ==
  /\ p \notin dead
  /\ dead' = dead \cup {p}
  /\ cin' = Ext(cin, p, IF rlock # "" /\ cur.op = "request" THEN cur.id ELSE "")
  \* if the plugin that just failed the request is dropped before its answer arrived, the veto may be lost
  /\ cur' = IF rlock # "" /\ cur.op = "request" /\ cur.veto = "yes" /\ cur.visited[Len(cur.visited)] = p
             THEN [cur EXCEPT !.veto = "maybe"] ELSE cur
  /\ UNCHANGED <<idx, mask, pst, active, rlock, swriter, readers, seen, store, snap, created, lockseq>>

\* -------------------------------------------------------------- invariants --
\* C07: only a handler's deliberate error fails a request; a failing connection never does
OnlyHandlersVeto == cur.veto = "yes" => cur.cause = "handler"

Sorted == SortedSeq(active)

OncePerRequest == \A p \in DOMAIN seen : NoDup(seen[p])

\* every plugin sees a subsequence of the one lock order
IsSubseq(s, t) ==
  LET F[i \in 0..Len(s), j \in 0..Len(t)] ==
        IF i = 0 THEN TRUE
        ELSE IF j = 0 THEN FALSE
        ELSE IF s[i] = t[j] THEN F[i-1, j-1] ELSE F[i, j-1]
  IN F[Len(s), Len(t)]
CommonOrder == \A p \in DOMAIN seen : IsSubseq(seen[p], lockseq)

ActiveNoDup == NoDup(active)

\* C08: either in the snapshot or relayed, never both, never neither
ExactlyOnce ==
  \A p \in DOMAIN pst :
     (pst[p] = "active" /\ p \notin dead /\ CREATE \in mask[p]) =>
        \A x \in store : (x \in snap[p]) # (x \in created[p])

HeldBlocksSync == ~(readers # {} /\ swriter # "")

\* nobody becomes active without having been synchronized exclusively
ActiveWasSynced == \A i \in DOMAIN active : pst[active[i]] = "active"

=============================================================================
