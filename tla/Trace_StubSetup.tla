--------------------------- MODULE Trace_StubSetup ---------------------------
(* Trace validation for X03: stub.New / Start in a child process with the given environment, options and
   executable name; the identity registered with the runtime end and the connection used are compared. *)
EXTENDS StubSetup

CONSTANT TraceFile
Tr == ndJsonDeserialize(TraceFile)
VARIABLES l, bad, stats
tv == <<l, bad, stats, sc, emitted>>
E == Tr[l]
TraceInit == l = 1 /\ bad = <<>> /\ stats = [scenarios |-> 0, rejected |-> 0] /\ sc = 0 /\ emitted = FALSE

Labels ==
  LET s == E.scenario
      want == Identity(s.envname, s.envidx, s.optname, s.optidx, s.bin)
      src == ConnSource(s.given, s.envsock)
  IN IF E.crashed THEN {"X03-child-crashed"}
     ELSE IF s.kind = "identity"
     THEN (IF want.ok # (E.newerr = "") THEN {"X03-creation-result"} ELSE {})
          \cup (IF want.ok /\ E.newerr = "" /\ (E.regname # want.name \/ E.regidx # want.idx) THEN {"X03-identity"} ELSE {})
     ELSE (IF src = "error" /\ E.starterr = "" THEN {"X03-bad-socket-accepted"} ELSE {})
          \cup (IF src # "error" /\ E.starterr # "" THEN {"X03-start-failed"} ELSE {})
          \cup (IF src # "error" /\ E.starterr = "" /\ E.src # src THEN {"X03-connection-source"} ELSE {})
Detail ==
  LET s == E.scenario IN
  IF s.kind = "identity" THEN <<Identity(s.envname, s.envidx, s.optname, s.optidx, s.bin), E.newerr, E.regname, E.regidx>>
  ELSE <<ConnSource(s.given, s.envsock), E.src, E.starterr>>

TStep ==
  /\ l <= Len(Tr) /\ l' = l + 1 /\ UNCHANGED <<sc, emitted>>
  /\ IF Labels # {}
     THEN /\ bad' = Append(bad, [scn |-> E.scn, line |-> l, labels |-> Labels, detail |-> Detail])
          /\ stats' = [stats EXCEPT !.scenarios = @ + 1, !.rejected = @ + 1]
     ELSE /\ bad' = bad /\ stats' = [stats EXCEPT !.scenarios = @ + 1]
TraceSpec == TraceInit /\ [][TStep]_tv
NotStuck == (l <= Len(Tr)) => ENABLED TStep
Done == l > Len(Tr)
ReportInv ==
  Done => /\ PrintT(<<"STATS", ToJson(stats)>>)
          /\ \A i \in DOMAIN bad : PrintT(<<"BAD", ToJson(bad[i])>>)
          /\ PrintT(<<"CONSUMED", l - 1>>)
=============================================================================
