------------------------------ MODULE Gen_Stub ------------------------------
(***************************************************************************)
(* C16 scenarios: sequences of operations on one stub - Start against a    *)
(* runtime end with a given behaviour, Stop, Wait, connection loss, release *)
(* of a held-back close notification, and the probe "does the current       *)
(* session work" - generated from the abstract life cycle, which also says  *)
(* when an operation is safe to issue sequentially (Wait only when the stub *)
(* is not running or its connection is already lost).                       *)
(***************************************************************************)
EXTENDS Naturals, Sequences, TLC, Json

CONSTANTS MaxOps, MaxStarts, Behaviours, Gates

VARIABLES ops, started, lost, held, nstart, gate, emitted
gvars == <<ops, started, lost, held, nstart, gate, emitted>>

Op(o, a) == [op |-> o, arg |-> a, k |-> 0]

GInit == /\ ops = <<>> /\ started = FALSE /\ lost = FALSE /\ held = 0 /\ nstart = 0 /\ emitted = FALSE
         /\ gate \in Gates

Room == Len(ops) < MaxOps /\ ~emitted

DoStart(b) ==
  /\ Room /\ nstart < MaxStarts
  /\ ops' = Append(ops, Op("Start", b)) /\ nstart' = nstart + 1
  /\ IF started /\ (~lost \/ (gate /\ held > 0)) THEN UNCHANGED <<started, lost>>   \* "already started"
     ELSE started' = (b \in {"healthy", "slow-configure"}) /\ lost' = FALSE
  /\ UNCHANGED <<held, gate, emitted>>
DoStop ==
  /\ Room /\ ops' = Append(ops, Op("Stop", ""))
  /\ held' = IF started /\ gate THEN held + 1 ELSE held
  /\ started' = FALSE /\ lost' = FALSE /\ UNCHANGED <<nstart, gate, emitted>>
DoWait ==
  /\ Room /\ (~started \/ (lost /\ ~(gate /\ held > 0)))
  /\ ops' = Append(ops, Op("Wait", "")) /\ UNCHANGED <<started, lost, held, nstart, gate, emitted>>
DoDrop ==
  /\ Room /\ started /\ ~lost
  /\ ops' = Append(ops, Op("PeerDrop", "")) /\ lost' = TRUE
  /\ held' = IF gate THEN held + 1 ELSE held
  /\ UNCHANGED <<started, nstart, gate, emitted>>
DoRelease ==
  /\ Room /\ gate /\ held > 0
  /\ ops' = Append(ops, Op("ReleaseNotify", "")) /\ held' = held - 1
  /\ UNCHANGED <<started, lost, nstart, gate, emitted>>
\* every sequence ends with the probe
DoEmit ==
  /\ ~emitted /\ Len(ops) > 0
  /\ PrintT(<<"CASE", ToJson([gate |-> gate, ops |-> Append(ops, Op("Works", ""))])>>)
  /\ emitted' = TRUE /\ UNCHANGED <<ops, started, lost, held, nstart, gate>>

GNext == (\E b \in Behaviours : DoStart(b)) \/ DoStop \/ DoWait \/ DoDrop \/ DoRelease \/ DoEmit
GSpec == GInit /\ [][GNext]_gvars
=============================================================================
