------------------------------- MODULE Inject -------------------------------
(***************************************************************************)
(* C20: the sample plugins device-injector and ulimit-adjuster.  A pod     *)
(* annotation is addressed to a container ("<key>/container.<name>"), to   *)
(* the pod ("<key>/pod") or to nobody in particular ("<key>").             *)
(*   injector (devices, mounts, CDI devices): the most specific annotation *)
(*     that names this container wins: container, then pod, then bare key  *)
(*   adjuster (ulimits): container-scoped annotations only; type names are *)
(*     case-insensitive, the RLIMIT_ prefix is optional, result normalised *)
(* A malformed selected annotation, an unknown rlimit type or hard < soft  *)
(* fails the request without any adjustment.                               *)
(* Payloads are named by ids; Payload(id) is their meaning (the driver     *)
(* holds the corresponding YAML texts).                                    *)
(***************************************************************************)
EXTENDS Naturals, Sequences, FiniteSets, TLC, Json

Keys == {"dev", "mnt", "cdi", "ulim"}
KV(k, v) == [k |-> k, v |-> v]

\* the sixteen rlimit types the adjuster knows; the payloads UallL / UallP / UallM name all of them in lower case,
\* with the RLIMIT_ prefix in upper case, and with a mixed-case prefix - the result is always RLIMIT_<UPPER>
RTypes == <<"AS", "CORE", "CPU", "DATA", "FSIZE", "LOCKS", "MEMLOCK", "MSGQUEUE", "NICE", "NOFILE", "NPROC", "RSS",
            "RTPRIO", "RTTIME", "SIGPENDING", "STACK">>
AllTypes == [i \in 1..16 |-> [k |-> "RLIMIT_" \o RTypes[i], v |-> ToString(i) \o ":" \o ToString(i)]]

\* meaning of a payload id: [ok, items]
Payload(id) ==
  CASE id \in {"UallL", "UallP", "UallM"} -> [ok |-> TRUE, items |-> AllTypes]
    [] id \in {"Utype3", "Utype4", "Utype5", "Utype6", "Utype7", "Utype8"} -> [ok |-> FALSE, items |-> <<>>]
    [] id = "D1" -> [ok |-> TRUE, items |-> <<KV("/dev/d1", "c|1|3")>>]
    [] id = "D2" -> [ok |-> TRUE, items |-> <<KV("/dev/d2", "b|8|0|420|1|2"), KV("/dev/d3", "c|4|5")>>]
    [] id = "D3" -> [ok |-> TRUE, items |-> <<KV("/dev/d4", "c|10|200|-|7")>>]
    [] id = "D4" -> [ok |-> TRUE, items |-> <<KV("/dev/d5", "c|1|5")>>]
    [] id = "M1" -> [ok |-> TRUE, items |-> <<KV("/m1", "/src1|bind|ro,rbind")>>]
    [] id = "M2" -> [ok |-> TRUE, items |-> <<KV("/m2", "/src2|tmpfs|"), KV("/m2/sub", "/src3|bind|rw")>>]
    [] id = "M3" -> [ok |-> TRUE, items |-> <<KV("/m3", "/src4|bind|")>>]
    [] id = "M4" -> [ok |-> TRUE, items |-> <<KV("/m4", "/src5|bind|ro")>>]
    [] id = "M5" -> [ok |-> TRUE, items |-> <<KV("/m5", "/src6||")>>]                      \* no type given: none invented
    \* the same type twice (in two spellings): the adjuster passes on one entry per limit given, and NRI refuses an
    \* adjustment that sets one rlimit twice - nothing is silently merged, the request fails
    [] id = "Udup" -> [ok |-> FALSE, items |-> <<>>]
    [] id = "C1" -> [ok |-> TRUE, items |-> <<"vendor.com/dev=a">>]
    [] id = "C2" -> [ok |-> TRUE, items |-> <<"vendor.com/dev=b", "other.io/gpu=0">>]
    [] id = "C3" -> [ok |-> TRUE, items |-> <<"vendor.com/dev=c">>]
    [] id = "C4" -> [ok |-> TRUE, items |-> <<"vendor.com/dev=d">>]
    [] id = "U1" -> [ok |-> TRUE, items |-> <<KV("RLIMIT_NOFILE", "10:5")>>]            \* "nofile"
    [] id = "U2" -> [ok |-> TRUE, items |-> <<KV("RLIMIT_CORE", "0:0"), KV("RLIMIT_NPROC", "7:7")>>]  \* "RLIMIT_CORE", "Rlimit_nproc"
    [] id = "U3" -> [ok |-> TRUE, items |-> <<KV("RLIMIT_AS", "9:1")>>]
    [] id = "Uzero" -> [ok |-> TRUE, items |-> <<KV("RLIMIT_CORE", "0:0")>>]            \* neither hard nor soft given
    [] id = "U4" -> [ok |-> TRUE, items |-> <<KV("RLIMIT_STACK", "8:8")>>]
    [] id \in {"Uempty", "Dempty", "Mempty", "Cempty"} -> [ok |-> TRUE, items |-> <<>>]   \* present, describing nothing
    [] id = "Uinf1" -> [ok |-> TRUE, items |-> <<KV("RLIMIT_NOFILE", "18446744073709551615:65536")>>]
    [] id = "Uinf2" -> [ok |-> FALSE, items |-> <<>>]                                       \* soft unlimited, hard not
    [] id = "Uinf3" -> [ok |-> TRUE, items |-> <<KV("RLIMIT_CORE", "18446744073709551615:18446744073709551615")>>]
    [] id = "Uinf4" -> [ok |-> TRUE, items |-> <<KV("RLIMIT_AS", "9223372036854775808:1")>>]
    [] id \in {"Dbad", "Mbad", "Cbad", "Ubad", "Utype", "Uhardsoft", "Utype2"} -> [ok |-> FALSE, items |-> <<>>]

Good(k) == CASE k = "dev" -> <<"D1", "D2", "D3", "D4">> [] k = "mnt" -> <<"M1", "M2", "M3", "M4">>
             [] k = "cdi" -> <<"C1", "C2", "C3", "C4">> [] k = "ulim" -> <<"U1", "U2", "U3", "U4">>
Bad(k) == CASE k = "dev" -> {"Dbad"} [] k = "mnt" -> {"Mbad"} [] k = "cdi" -> {"Cbad"}
            [] k = "ulim" -> {"Ubad", "Utype", "Uhardsoft", "Utype2"}

\* an annotation: [key, scope, name, id]; scope "ctr" carries the container name it addresses
Selected(anns, key, ctr) ==
  LET of(sc, n) == {a \in anns : a.key = key /\ a.scope = sc /\ (sc # "ctr" \/ a.name = n)}
      order == IF key = "ulim" THEN <<of("ctr", ctr)>> ELSE <<of("ctr", ctr), of("pod", ""), of("bare", "")>>
      hits == SelectSeq(order, LAMBDA S : S # {})
  IN IF Len(hits) = 0 THEN {} ELSE hits[1]

SelPayload(anns, key, ctr) ==
  LET S == Selected(anns, key, ctr) IN
  IF S = {} THEN [ok |-> TRUE, items |-> <<>>] ELSE Payload((CHOOSE a \in S : TRUE).id)

\* the expected outcome of CreateContainer through both plugins
Expected(anns, ctr) ==
  LET d == SelPayload(anns, "dev", ctr)  m == SelPayload(anns, "mnt", ctr)
      c == SelPayload(anns, "cdi", ctr)  u == SelPayload(anns, "ulim", ctr)
  IN IF d.ok /\ m.ok /\ c.ok /\ u.ok
     THEN [err |-> FALSE, dev |-> d.items, mnt |-> m.items, cdi |-> c.items, rlim |-> u.items]
     ELSE [err |-> TRUE, dev |-> <<>>, mnt |-> <<>>, cdi |-> <<>>, rlim |-> <<>>]

\* ---------------------------------------------------------------- scenarios --
CONSTANTS Mode
VARIABLES sc, emitted

Names == {"c1", "c1x", "a.b"}
Long53 == "c2345678901234567890123456789012345678901234567890123"
Long60 == Long53 \o "-suffix"
Other(n) == IF n = "c1" THEN "c1x" ELSE IF n = "c1x" THEN "c1" ELSE "a"     \* names that are prefixes of one another
Ann(k, s, n, id) == [key |-> k, scope |-> s, name |-> n, id |-> id]

\* one key: every subset of {own container, other container, pod, bare}, each with its own payload
Slots(k, n) == {Ann(k, "ctr", n, Good(k)[1]), Ann(k, "ctr", Other(n), Good(k)[2]), Ann(k, "pod", "", Good(k)[3]),
                Ann(k, "bare", "", Good(k)[4])}
PerKey == UNION {{[ctr |-> n, anns |-> S] : S \in UNION {SUBSET Slots(k, n) : k \in Keys}} : n \in Names}
SeqToSetIds(k) == {Good(k)[i] : i \in 1..4} \cup Bad(k)
\* malformed payloads: at the selected scope (must fail) and at a scope that is not selected (must be ignored)
BadOnes ==
  UNION {UNION {
    {[ctr |-> n, anns |-> {Ann(k, s, IF s = "ctr" THEN nm ELSE "", b)} \cup extra] :
       b \in Bad(k), s \in {"ctr", "pod", "bare"}, nm \in {n, Other(n)},
       extra \in {{}, {Ann(k, "ctr", n, Good(k)[1])}, {Ann("dev", "pod", "", "D3"), Ann("ulim", "ctr", n, "U1")}}}
    : k \in Keys} : n \in {"c1", "a.b"}}
EmptyId(k) == IF k = "dev" THEN "Dempty" ELSE IF k = "mnt" THEN "Mempty" ELSE "Cempty"
EmptyRest(n, k, sp) ==
  {{Ann(k, "bare", "", Good(k)[4])}, {Ann(k, "bare", "", Good(k)[4]), Ann("ulim", "ctr", n, "U1")}} \cup
  (IF sp = "ctr" THEN {{Ann(k, "pod", "", Good(k)[3])}, {Ann(k, "pod", "", Good(k)[3]), Ann(k, "bare", "", Good(k)[4])}} ELSE {})
EmptyCases(n, k, sp) ==
  {[ctr |-> n, anns |-> {Ann(k, sp, IF sp = "ctr" THEN n ELSE "", EmptyId(k))} \cup rest] : rest \in EmptyRest(n, k, sp)}

\* all four keys at once
Combined ==
  {[ctr |-> n, anns |-> UNION {{Ann(k, sk[k], IF sk[k] = "ctr" THEN n ELSE "", Good(k)[1])} : k \in Keys}] :
     n \in Names, sk \in [Keys -> {"ctr", "pod", "bare"}]}
  \cup {[ctr |-> "c1", anns |-> {Ann("ulim", "ctr", "c1", "Uempty")}], [ctr |-> "c1", anns |-> {}]}
  \* a present but empty annotation selects its scope: nothing of that kind is injected, less specific ones are not consulted
  \cup UNION {EmptyCases(n, k, sp) : n \in {"c1", "a.b"}, k \in {"dev", "mnt", "cdi"}, sp \in {"ctr", "pod"}}
  \cup {[ctr |-> "c1", anns |-> {Ann("mnt", "ctr", "c1", "M5")}], [ctr |-> "c1", anns |-> {Ann("mnt", "pod", "", "M5"), Ann("dev", "ctr", "c1", "D1")}],
        [ctr |-> "c1", anns |-> {Ann("ulim", "ctr", "c1", "Udup")}]}
  \* unlimited on either side of a limit
  \cup {[ctr |-> "c1", anns |-> {Ann("ulim", "ctr", "c1", u)} \cup x] :
          u \in {"Uinf1", "Uinf2", "Uinf3", "Uinf4"}, x \in {{}, {Ann("dev", "ctr", "c1", "D1")}}}
  \* every rlimit type in every spelling; names that are almost valid
  \cup {[ctr |-> "c1", anns |-> {Ann("ulim", "ctr", "c1", u)} \cup x] :
          u \in {"UallL", "UallP", "UallM", "Utype3", "Utype4", "Utype5", "Utype6", "Utype7", "Utype8"},
          x \in {{}, {Ann("dev", "ctr", "c1", "D1")}}}

  \* every rlimit payload addressed to the container itself (U2 has a limit of 0:0 - it is a limit like any other;
  \* Uzero gives neither value: 0:0 as well)
  \cup {[ctr |-> "c1", anns |-> {Ann("ulim", "ctr", "c1", u)}] : u \in {"U2", "U3", "U4", "Uzero"}}
  \* container names longer than what fits a Kubernetes annotation name together with the prefix, one a prefix of the
  \* other: each is addressed by its full name only
  \cup UNION {{[ctr |-> Long60, anns |-> {Ann(k, "ctr", Long53, Good(k)[2])} \cup x],
               [ctr |-> Long60, anns |-> {Ann(k, "ctr", Long60, Good(k)[1]), Ann(k, "ctr", Long53, Good(k)[2])} \cup x],
               [ctr |-> Long53, anns |-> {Ann(k, "ctr", Long60, Good(k)[2])} \cup x]} :
              k \in Keys, x \in {{}, {Ann("dev", "pod", "", "D3")}}}

\* one annotation per (key, scope, addressee): they are keys of one map
Distinct(anns) == \A a, b \in anns : (a.key = b.key /\ a.scope = b.scope /\ a.name = b.name) => a = b
Scenarios ==
  CASE Mode = "perkey" -> PerKey
    [] Mode = "bad" -> {x \in BadOnes : Distinct(x.anns)}
    [] Mode = "combined" -> Combined

GInit == sc \in Scenarios /\ emitted = FALSE
GEmit == ~emitted /\ PrintT(<<"CASE", ToJson([ctr |-> sc.ctr, anns |-> sc.anns, expected |-> Expected(sc.anns, sc.ctr)])>>)
         /\ emitted' = TRUE /\ UNCHANGED sc
GSpec == GInit /\ [][GEmit]_<<sc, emitted>>

\* design-level facts
NeverForeign ==  \* an annotation addressed to another container is never selected
  \A a \in Selected(sc.anns, "dev", sc.ctr) \cup Selected(sc.anns, "mnt", sc.ctr) \cup Selected(sc.anns, "cdi", sc.ctr)
           \cup Selected(sc.anns, "ulim", sc.ctr) : a.scope = "ctr" => a.name = sc.ctr
AllOrNothing == LET e == Expected(sc.anns, sc.ctr) IN e.err => e.dev = <<>> /\ e.mnt = <<>> /\ e.cdi = <<>> /\ e.rlim = <<>>
=============================================================================
