------------------------------ MODULE LegacyInd ------------------------------
(***************************************************************************)
(* X05, unbounded: the plugin chain of Legacy.tla for a chain of ANY       *)
(* length N (an unbounded integer), every plugin ending in any way (each   *)
(* step chooses nondeterministically whether the plugin gets to run and    *)
(* whether it succeeds - "for every chain").  The sequences of Legacy.tla  *)
(* are abstracted to counts: nacc = Len(acc); lastp / shown = the plugin   *)
(* executed last and the number of results it was shown; execs = Len(seen).*)
(* IndInv is inductive and implies: a plugin is shown exactly the results  *)
(* of all plugins before it; nothing runs after a failure and nothing is   *)
(* skipped; a chain that ends well returns N results; every step but the   *)
(* failing one advances (Variant).                                         *)
(***************************************************************************)
EXTENDS Integers

CONSTANTS
  \* @type: Int;
  N

VARIABLES
  \* @type: Int;
  pos,
  \* @type: Int;
  nacc,
  \* @type: Str;
  outcome,
  \* @type: Int;
  lastp,
  \* @type: Int;
  shown,
  \* @type: Int;
  execs

ConstInit == N \in Nat

Init == /\ pos = 1 /\ nacc = 0 /\ lastp = 0 /\ shown = 0 /\ execs = 0
        /\ outcome = IF N = 0 THEN "ok" ELSE "running"

Invoke ==
  /\ outcome = "running" /\ pos <= N
  /\ \E ok \in BOOLEAN, runs \in BOOLEAN :
       /\ ok => runs
       /\ lastp' = IF runs THEN pos ELSE lastp
       /\ shown' = IF runs THEN nacc ELSE shown
       /\ execs' = IF runs THEN execs + 1 ELSE execs
       /\ IF ok THEN /\ nacc' = nacc + 1 /\ pos' = pos + 1
                     /\ outcome' = IF pos = N THEN "ok" ELSE "running"
          ELSE /\ nacc' = nacc /\ pos' = pos /\ outcome' = "failed"
Next == Invoke

IndInv ==
  /\ N >= 0 /\ pos >= 1 /\ pos <= N + 1
  /\ outcome \in {"running", "ok", "failed"}
  /\ nacc = pos - 1
  /\ (outcome = "ok") <=> (pos = N + 1)
  /\ lastp >= 0 /\ lastp <= pos /\ lastp <= N
  /\ lastp > 0 => shown = lastp - 1                  \* SeesEarlier
  /\ outcome # "failed" => (lastp = pos - 1 /\ execs = pos - 1)   \* nothing skipped, each once
  /\ outcome = "failed" => (lastp >= pos - 1 /\ execs >= pos - 1 /\ execs <= pos)
IndInit == /\ pos \in Int /\ nacc \in Int /\ lastp \in Int /\ shown \in Int /\ execs \in Int
           /\ outcome \in {"running", "ok", "failed"}
           /\ IndInv

Complete == outcome = "ok" => nacc = N
\* every execution but a failing one advances the chain; a failing one ends it
Variant == outcome = "running" => (pos' > pos \/ outcome' = "failed")
=============================================================================
