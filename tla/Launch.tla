------------------------------- MODULE Launch -------------------------------
(***************************************************************************)
(* C18: pre-installed plugins (pkg/adaptation: discoverPlugins,            *)
(* newLaunchedPlugin, getPluginConfig, startPlugins, stop).                *)
(* A plugin directory holds entries <name, kind>; a configuration          *)
(* directory holds drop-in files.  Every executable regular file named     *)
(* NN-name is launched once with exactly three environment variables and   *)
(* one pre-connected socket, configured with NN-name.conf, else name.conf, *)
(* else nothing; those that register and synchronise are invoked in index  *)
(* order; everything launched is dead after Stop; a plugin that exits,     *)
(* never registers or dies later does not affect the others.               *)
(***************************************************************************)
EXTENDS Naturals, Sequences, FiniteSets, TLC, Json

Digits == {"0", "1", "2", "3", "4", "5", "6", "7", "8", "9"}
NameOK(n) == Len(n) >= 4 /\ SubSeq(n, 1, 1) \in Digits /\ SubSeq(n, 2, 2) \in Digits /\ SubSeq(n, 3, 3) = "-"
IdxOf(n) == SubSeq(n, 1, 2)
BaseOf(n) == SubSeq(n, 4, Len(n))
\* executable = any of the three execute bits (owner only, group only, other only, all)
ExecKinds == {"exec", "execu", "execg", "execo"}
Launchable(e) == e.kind \in ExecKinds /\ NameOK(e.name)

ConfigOf(e, dropins) ==
  LET own == {d \in dropins : d.file = e.name \o ".conf"}
      base == {d \in dropins : d.file = BaseOf(e.name) \o ".conf"}
  IN IF own # {} THEN (CHOOSE d \in own : TRUE).content
     ELSE IF base # {} THEN (CHOOSE d \in base : TRUE).content ELSE ""

EnvOf(e) == {"NRI_PLUGIN_IDX=" \o IdxOf(e.name), "NRI_PLUGIN_NAME=" \o BaseOf(e.name), "NRI_PLUGIN_SOCKET=3"}

\* ---------------------------------------------------------------- scenarios --
CONSTANTS Mode
VARIABLES sc, emitted

E(n, k, b) == [name |-> n, kind |-> k, behaviour |-> b]
D(f, c) == [file |-> f, content |-> c]
Behaviours == {"healthy", "exit", "noregister", "dielater"}
\* "failsync": registers, is configured, fails its synchronization

\* directory contents: two probes with each behaviour, among non-executables and directories
Dirs2 == {<<E("20-bb", "exec", b2), E("10-aa", "exec", b1), E("30-noexec", "noexec", ""), E("40-dir", "dir", ""), E("readme", "noexec", "")>> :
            b1 \in Behaviours, b2 \in Behaviours}
Dirs3 == {<<E("05-cc", "exec", b3), E("90-aa", "exec", "healthy"), E("50-bb", "exec", b2), E("50-dd", "exec", "healthy")>> :
            b2 \in Behaviours, b3 \in Behaviours}
Small == {<<>>, <<E("10-only", "exec", "healthy")>>, <<E("00-a", "exec", "healthy"), E("99-z", "exec", "healthy")>>,
          <<E("10-x.y", "exec", "healthy"), E("nodash", "noexec", ""), E("11-dir", "dir", "")>>}

\* every pair of drop-in files for one plugin: index-name, name, both, neither; plus a foreign one;
\* and an index-name file that exists but is empty (it still is the plugin's configuration)
DropSets(n) ==
  {S \cup X : S \in SUBSET {D(n \o ".conf", "cfg-of-" \o n), D(BaseOf(n) \o ".conf", "cfg-of-base-" \o BaseOf(n))},
             X \in {{}, {D("99-other.conf", "foreign")}}}
  \cup {{D(n \o ".conf", ""), D(BaseOf(n) \o ".conf", "cfg-of-base-" \o BaseOf(n))}, {D(n \o ".conf", "")}}

\* names with dots and further dashes: the base name is everything after the first dash
Dotted == <<E("10-logger.v2", "exec", "healthy"), E("30-tracer.v1-beta", "exec", "healthy"), E("20-logger", "exec", "healthy")>>
DottedDrops == {{D("logger.conf", "cfg-of-logger")},
                {D("logger.conf", "cfg-of-logger"), D("logger.v2.conf", "cfg-of-logger.v2"), D("tracer.v1-beta.conf", "cfg-of-tracer")},
                {D("10-logger.v2.conf", "own"), D("logger.conf", "cfg-of-logger"), D("tracer.conf", "foreign"), D("tracer.v1.conf", "foreign")}}
\* "liar": a pre-installed plugin that registers under another name and index than its file's - it stays where its file name puts it
Liar == <<E("10-first", "exec", "liar"), E("20-second", "exec", "healthy"), E("30-third", "exec", "healthy")>>

\* "hang": answers its first event never - dropped after the request timeout, and killed
Hangs == {<<E("10-aa", "exec", IF k = 1 THEN "hang" ELSE "healthy"), E("20-bb", "exec", IF k = 2 THEN "hang" ELSE "healthy"),
            E("30-cc", "exec", "healthy")>> : k \in 1..2}

\* execute bits; a plugin failing its synchronization at each position; stale NRI_PLUGIN_* variables in the runtime's own environment
ExecBits == <<E("10-owner", "execu", "healthy"), E("20-group", "execg", "healthy"), E("30-other", "execo", "healthy"),
              E("40-none", "noexec", ""), E("50-all", "exec", "healthy")>>
FailSync == {<<E("10-aa", "exec", IF k = 1 THEN "failsync" ELSE "healthy"), E("20-bb", "exec", IF k = 2 THEN "failsync" ELSE "healthy"),
               E("30-cc", "exec", IF k = 3 THEN "failsync" ELSE "healthy")>> : k \in 1..3}
            \cup {<<E("10-only", "exec", "failsync")>>}

\* "a plugin that fails to start": an executable file that is not a program ("garbage": exec format error), a symbolic
\* link to a directory ("symdir") - candidates by name and mode, never launched, and nobody else is affected
CannotStart == {<<E("10-aa", IF k = 1 THEN bk ELSE "exec", IF k = 1 THEN "" ELSE "healthy"),
                  E("20-bb", IF k = 2 THEN bk ELSE "exec", IF k = 2 THEN "" ELSE "healthy"),
                  E("30-cc", IF k = 3 THEN bk ELSE "exec", IF k = 3 THEN "" ELSE "healthy")>> : k \in 1..3, bk \in {"garbage", "symdir"}}
               \cup {<<E("10-only", "garbage", "")>>, <<E("10-aa", "garbage", ""), E("20-bb", "symdir", "")>>}

\* "stubborn": healthy, ignores every signal that can be ignored, does not leave when its connection is closed;
\* "linger": closes its connection soon after start-up and stays around; in its scenarios the runtime issues no
\* request at all before it stops (nothing prunes the closed plugin) - both are killed when NRI stops
Stays == {<<E("10-aa", "exec", IF k = 1 THEN b ELSE "healthy"), E("20-bb", "exec", IF k = 2 THEN b ELSE "healthy")>> :
            k \in 1..2, b \in {"stubborn", "linger"}}

Scenarios ==
  CASE Mode = "dirs" -> {[entries |-> d, dropins |-> {}, stale |-> FALSE, syncfails |-> FALSE] : d \in Dirs2 \cup Dirs3 \cup Small}
    [] Mode = "dropins" -> {[entries |-> <<E("20-bb", "exec", "healthy"), E("10-aa", "exec", "healthy")>>, dropins |-> da \cup db,
                             stale |-> FALSE, syncfails |-> FALSE] : da \in DropSets("10-aa"), db \in DropSets("20-bb")}
    [] Mode = "more" -> {[entries |-> d, dropins |-> {}, stale |-> FALSE, syncfails |-> FALSE] : d \in {ExecBits, Liar} \cup FailSync \cup Hangs \cup CannotStart \cup Stays}
                        \* the runtime's own synchronization callback fails: Start fails and everything launched is killed
                        \cup {[entries |-> <<E("10-aa", "exec", "healthy"), E("20-bb", "exec", "healthy"), E("30-cc", "exec", "noregister")>>,
                               dropins |-> {}, stale |-> FALSE, syncfails |-> TRUE]}
                        \cup {[entries |-> Dotted, dropins |-> ds, stale |-> FALSE, syncfails |-> FALSE] : ds \in DottedDrops}
                        \cup {[entries |-> <<E("10-aa", "exec", "healthy"), E("20-bb", "exec", "healthy")>>,
                               dropins |-> {D("10-aa.conf", "cfg-of-10-aa")}, stale |-> TRUE, syncfails |-> FALSE]}

GInit == sc \in Scenarios /\ emitted = FALSE
GEmit == ~emitted /\ PrintT(<<"CASE", ToJson(sc)>>) /\ emitted' = TRUE /\ UNCHANGED sc
GSpec == GInit /\ [][GEmit]_<<sc, emitted>>

\* design-level facts over the generated scenarios
ConfigPrecedence ==
  \A i \in DOMAIN sc.entries : LET e == sc.entries[i] IN
     Launchable(e) => \A d \in sc.dropins : d.file = e.name \o ".conf" => ConfigOf(e, sc.dropins) = d.content
=============================================================================
