----------------------------- MODULE Trace_Relay -----------------------------
(***************************************************************************)
(* Trace validation for Relay: a recorded concurrent execution of the real *)
(* Adaptation (one log, appended under one mutex; "making visible" events  *)
(* are logged before, "acquiring" events after the operation) must be a    *)
(* behaviour of Relay.tla.  Every log line is one Relay action with the    *)
(* logged actors as parameters; when an action's guard does not hold the   *)
(* run is rejected with a label naming the property the guard belongs to.  *)
(***************************************************************************)
EXTENDS Relay, Json

CONSTANT TraceFile
Tr == ndJsonDeserialize(TraceFile)

VARIABLES l, bad, stats,
          done,     \* request id -> [visited, veto, ev] recorded when its lock was released
          upd,      \* uid -> [calls, failed, err] of the update callback
          vetoer,   \* plugin whose handler announced an error for the current request ("" = none)
          lim       \* [np, tmo]: number of plugins and request timeout (ms) of the run

tvars == <<rvars, l, bad, stats, done, upd, vetoer, lim>>
E == Tr[l]

Bump(c) == [stats EXCEPT ![c] = @ + 1]

TraceInit ==
  /\ RInit
  /\ l = 1 /\ bad = <<>> /\ done = [r \in {} |-> 0] /\ upd = [u \in {} |-> 0] /\ vetoer = ""
  /\ lim = [np |-> 0, tmo |-> 0]
  /\ stats = [scenarios |-> 0, events |-> 0, requests |-> 0, deliveries |-> 0, activations |-> 0,
              creations |-> 0, updates |-> 0, vetoes |-> 0, closes |-> 0, rejected |-> 0]

Reset ==
  /\ idx' = [p \in {} |-> 0] /\ mask' = [p \in {} |-> {}] /\ pst' = [p \in {} |-> ""] /\ dead' = {}
  /\ active' = <<>> /\ rlock' = "" /\ cur' = NoCur /\ swriter' = "" /\ readers' = {}
  /\ seen' = [p \in {} |-> <<>>] /\ store' = {} /\ snap' = [p \in {} |-> {}]
  /\ created' = [p \in {} |-> {}] /\ lockseq' = <<>> /\ cin' = [p \in {} |-> ""]
  /\ done' = [r \in {} |-> 0] /\ upd' = [u \in {} |-> 0] /\ vetoer' = ""

RejectAll(labels, detail) ==
  /\ bad' = Append(bad, [scn |-> E.scn, line |-> l, labels |-> labels, detail |-> detail])
  /\ l' = E.nb
  /\ stats' = Bump("rejected")
  /\ UNCHANGED <<rvars, done, upd, vetoer, lim>>
Reject(label, detail) == RejectAll({label}, detail)

Skip == /\ l' = l + 1 /\ UNCHANGED <<rvars, bad, stats, done, upd, vetoer, lim>>
Step(c) == /\ l' = l + 1 /\ stats' = Bump(c) /\ UNCHANGED bad
Keep == UNCHANGED <<done, upd, vetoer, lim>>

SetOf(s) == {s[i] : i \in DOMAIN s}

\* ---------------------------------------------------- registration attempts (C17) --
Digits == {"0", "1", "2", "3", "4", "5", "6", "7", "8", "9"}
IdxOK(x) == Len(x) = 2 /\ SubSeq(x, 1, 1) \in Digits /\ SubSeq(x, 2, 2) \in Digits
MaskOK(m) == m \in 0..8191                       \* 0 = everything; otherwise only the 13 valid event bits
WellFormed(e) == e.name # "" /\ IdxOK(e.idx) /\ MaskOK(e.mask) /\ e.stall = "none"
AttKey(p) == "att:" \o p
Malformed(p) == AttKey(p) \in DOMAIN done /\ ~done[AttKey(p)].wf

TRegAttempt ==
  /\ done' = Ext(done, AttKey(E.p), [wf |-> WellFormed(E), k |-> E.k])
  /\ l' = l + 1 /\ UNCHANGED <<rvars, bad, stats, upd, vetoer, lim>>

TRegWaited ==
  IF E.ms > E.budget_ms + 500 THEN Reject("C17-registration-latency", <<E.ms>>) ELSE Skip

\* created directories are private; with external connections disabled nothing is served
TSocketCheck ==
  IF E.disabled /\ (E.exists \/ E.dial_ok) THEN Reject("C17-socket-served-when-disabled", <<E.umask, E.options>>)
  ELSE IF ~E.disabled /\ ~(E.exists /\ E.dial_ok) THEN Reject("C17-socket-not-served", <<E.umask>>)
  ELSE IF ~E.disabled /\ (Len(E.modes) # 3 \/ \E i \in DOMAIN E.modes : E.modes[i] % 64 # 0)
       THEN Reject("C17-socket-directory-not-private", <<E.umask, E.modes>>)
  ELSE Skip

\* ------------------------------------------------------------------ events --
TBegin == /\ Reset /\ l' = l + 1 /\ stats' = Bump("scenarios") /\ UNCHANGED bad
          /\ lim' = [np |-> E.plugins, tmo |-> E.timeout_ms]

TSyncRequest ==
  IF Malformed(E.p) THEN Reject("C17-malformed-synchronized", <<E.p>>)
  ELSE IF Known(E.p) THEN Reject("C17-duplicate-registration", <<E.p>>)
  ELSE WantSync(E.p, E.idx, SetOf(E.mask)) /\ Step("events") /\ Keep

TSyncExclusive ==
  IF ~(Known(E.p) /\ pst[E.p] = "syncwait") THEN Reject("C08-exclusive-unexpected", <<E.p>>)
  ELSE IF readers # {} THEN Reject("C08-sync-while-blocked", <<E.p, readers>>)
  ELSE IF swriter # "" THEN Reject("C08-two-registrations", <<E.p, swriter>>)
  ELSE GotSync(E.p) /\ Step("events") /\ Keep

TSnapshot ==
  IF swriter = "" \/ pst[swriter] # "exclusive" THEN Reject("C08-snapshot-outside-sync", <<>>)
  ELSE Snapshot(swriter, SetOf(E.ids)) /\ Step("events") /\ Keep

TRecvSync ==
  IF Malformed(E.p) THEN Reject("C17-malformed-invoked", <<E.p, "Synchronize">>)
  ELSE IF swriter # E.p THEN (IF E.p \in dead THEN Skip   \* the handler of a dropped plugin ran late
                         ELSE Reject("C08-sync-delivered-outside-sync", <<E.p>>))
  ELSE IF SetOf(E.ids) # snap[E.p] THEN Reject("C08-snapshot-delivery", <<E.p>>)
  ELSE Skip

TSyncSynced ==
  IF E.err = "" THEN Skip
  ELSE IF ~(swriter = E.p /\ pst[E.p] \in {"exclusive", "synced"}) THEN Reject("C08-synced-unexpected", <<E.p>>)
  ELSE SyncFailed(E.p) /\ Step("events") /\ Keep

TLockedRegister ==
  IF rlock # "" THEN Reject("C19-lock-overlap", <<"register", rlock>>)
  ELSE Lock(E.p, "register", "", "", "") /\ Step("events") /\ Keep

ExactlyOnceAfterActivate(p, order) ==
  (CREATE \in mask[p] /\ p \notin dead) => \A x \in store : (x \in snap[p]) # (x \in created[p])

TActivated ==
  LET order == E.order IN
  IF ~(swriter = E.p /\ pst[E.p] = "synced" /\ rlock = E.p) THEN Reject("C08-activated-outside-sync", <<E.p>>)
  ELSE IF ~ActiveSetOK(order, E.p) THEN Reject("C06-active-set", <<order>>)
  ELSE IF ~SortedSeq(order) THEN Reject("C06-unsorted", <<order>>)
  ELSE IF ~ExactlyOnceAfterActivate(E.p, order) THEN Reject("C08-exactly-once", <<E.p>>)
  ELSE Activate(E.p, order) /\ Step("activations") /\ Keep

TUnlockingRegister ==
  IF rlock # E.p THEN Reject("C19-unlock-unexpected", <<E.p>>)
  ELSE Unlock(E.p) /\ Step("events") /\ Keep

TSyncFinish ==
  IF swriter # E.p \/ rlock = E.p THEN Reject("C08-finish-unexpected", <<E.p>>)
  ELSE FinishSync(E.p) /\ Step("events") /\ Keep

TBlockAcquired ==
  IF swriter # "" THEN Reject("C08-block-during-sync", <<E.req, swriter>>)
  ELSE IF E.req \in readers THEN Reject("C08-block-twice", <<E.req>>)
  ELSE Block(E.req) /\ Step("events") /\ Keep

TBlockReleasing ==
  IF E.req \notin readers THEN Reject("C08-unblock-unexpected", <<E.req>>)
  ELSE Unblock(E.req) /\ Step("events") /\ Keep

TStoreAdd ==
  LET x == E.x
      ok == \A p \in DOMAIN pst : (pst[p] = "active" /\ p \notin dead /\ CREATE \in mask[p]) =>
                                    ((x \in snap[p]) # (x \in created[p]))
  IN IF ~ok THEN Reject("C08-exactly-once", <<x, {p \in DOMAIN pst : pst[p] = "active" /\ p \notin dead /\ CREATE \in mask[p]
                                                     /\ (x \in snap[p]) = (x \in created[p])}>>)
     ELSE StoreAdd(x) /\ Step("creations") /\ Keep

TLockedRequest ==
  IF rlock # "" THEN Reject("C19-lock-overlap", <<E.req, rlock>>)
  ELSE /\ Lock(E.req, "request", E.req, E.event, E.ctr)
       /\ Step("requests") /\ vetoer' = "" /\ UNCHANGED <<done, upd, lim>>

\* why a delivery is not explained by the specification
DeliverLabel(p) ==
  IF ~(rlock # "" /\ cur.op = "request") THEN "C06-delivery-outside-request"
  ELSE IF cur.id # E.req THEN "C06-foreign-request"
  ELSE IF ~Known(p) THEN "C17-unregistered-plugin-invoked"
  ELSE IF p \notin SeqSet(cur.plist) THEN "C06-inactive-plugin-invoked"
  ELSE IF cur.ev # E.event THEN "C06-wrong-handler"
  ELSE IF cur.ev \notin mask[p] THEN "C06-unsubscribed"
  ELSE IF p \in SeqSet(cur.visited) THEN "C06-duplicate"
  ELSE IF cur.veto = "yes" THEN "C07-invoked-after-veto"
  ELSE IF p \in dead /\ cin[p] # cur.id THEN "C07-delivered-after-drop"
  ELSE IF ~\E j \in DOMAIN cur.plist : cur.plist[j] = p /\ NextTarget(j) THEN "C06-order"
  ELSE ""

(* A plugin that was dropped while request r was being relayed to it may    *)
(* log the arrival of r late (its handler goroutine raced with the drop):  *)
(* no specification step.                                                  *)
LateOfDropped(p, r) == p \in dead /\ p \in DOMAIN cin /\ cin[p] = r

TRecv ==
  LET lab == DeliverLabel(E.p) IN
  IF Malformed(E.p) THEN Reject("C17-malformed-invoked", <<E.p, E.event>>)
  ELSE IF lab = "" THEN Deliver(E.p) /\ Step("deliveries") /\ Keep
  ELSE IF LateOfDropped(E.p, E.req) THEN Skip
  ELSE Reject(lab, <<E.p, E.req, E.event>>)

\* a handler announces that it fails the request deliberately
TReply ==
  IF ~(rlock # "" /\ cur.op = "request" /\ cur.id = E.req /\ Len(cur.visited) > 0
       /\ cur.visited[Len(cur.visited)] = E.p /\ cur.veto = "no")
  THEN (IF LateOfDropped(E.p, E.req) THEN Skip ELSE Reject("C07-veto-unexpected", <<E.p, E.req>>))
  ELSE Veto /\ Step("vetoes") /\ vetoer' = E.p /\ UNCHANGED <<done, upd, lim>>

TUnlockingRequest ==
  IF rlock # E.req THEN Reject("C19-unlock-unexpected", <<E.req>>)
  ELSE IF ~RelayDone
       \* the relay ended although nobody vetoed: subscribed plugins were not invoked (C06) - the request was cut short,
       \* it does not carry the contributions of the remaining plugins (C07)
       THEN RejectAll({"C06-missed", "C07-request-cut-short"},
                      <<E.req, {cur.plist[k] : k \in {j \in (cur.pos + 1)..Len(cur.plist) : MustVisit(j)}}>>)
  ELSE /\ Unlock(E.req) /\ Step("events")
       /\ done' = Ext(done, E.req, [visited |-> cur.visited, veto |-> cur.veto, ev |-> cur.ev])
       /\ UNCHANGED <<upd, vetoer, lim>>

(* A plugin is dropped by NRI only if it failed: the driver announces the    *)
(* plugins it makes fail ("leaving" before a stop, the faulty peer of a      *)
(* fault scenario); an active plugin closed without that was healthy.        *)
FaultyKey(p) == "faulty:" \o p
TLeaving ==
  /\ done' = Ext(done, FaultyKey(E.p), [wf |-> FALSE, k |-> 0])
  /\ l' = l + 1 /\ UNCHANGED <<rvars, bad, stats, upd, vetoer, lim>>

TClosed ==
  IF E.p \in dead THEN Skip
  ELSE IF Known(E.p) /\ pst[E.p] = "active" /\ FaultyKey(E.p) \notin DOMAIN done
       THEN Reject("C07-healthy-plugin-dropped", <<E.p, IF rlock # "" THEN cur.id ELSE "">>)
  ELSE PluginClosed(E.p) /\ Step("closes") /\ Keep

\* the caller's result is computed from its own request and the responses to it only
WantTags(r) ==
  IF done[r].ev \in {"CreateContainer", "UpdateContainer", "StopContainer"}
  THEN {done[r].visited[i] \o "=" \o r : i \in DOMAIN done[r].visited}
  ELSE {}
TRet ==
  LET r == E.req IN
  IF E.hung THEN Reject("C07-request-hung", <<r>>)
  \* completes within (number of plugins) x (request timeout) plus scheduling slack (2 s)
  ELSE IF E.ms > lim.np * lim.tmo + 2000 THEN Reject("C07-latency", <<r, E.ms>>)
  ELSE IF r \notin DOMAIN done THEN Reject("C06-return-without-relay", <<r>>)
  ELSE IF done[r].veto = "yes" /\ ~E.err THEN Reject("C07-veto-ignored", <<r>>)
  ELSE IF done[r].veto # "no" /\ E.err /\ ~E.veto THEN Reject("C07-veto-error-changed", <<r, E.errtext>>)
  ELSE IF done[r].veto = "no" /\ E.err THEN Reject("C07-request-failed", <<r, E.errtext>>)
  \* a failed request hands back no partial result
  ELSE IF E.err /\ Len(E.tags) > 0 THEN Reject("C07-partial-result", <<r, E.tags>>)
  ELSE IF ~E.err /\ ~(SetOf(E.tags) \subseteq WantTags(r)) THEN Reject("C06-result-foreign", <<r, E.tags>>)
  \* a plugin that was dropped during the request may or may not have contributed
  ELSE IF ~E.err /\ \E t \in WantTags(r) \ SetOf(E.tags) :
             \A p \in SeqSet(done[r].visited) : (p \o "=" \o r = t) => ~(p \in dead /\ cin[p] = r)
       THEN Reject("C06-result-incomplete", <<r, E.tags>>)
  ELSE Skip

\* the reply a caller got is its own: re-read after later requests were processed, it has not changed
TRecheck == IF E.tags # E.tags2 THEN Reject("C06-result-changed-after-return", <<E.req, E.tags, E.tags2>>) ELSE Skip

\* ------------------------------------------------------ unsolicited updates --
TLockedUpdate ==
  IF rlock # "" THEN Reject("C19-lock-overlap", <<E.uid, rlock>>)
  ELSE Lock("u:" \o E.uid, "update", E.uid, "", "") /\ Step("updates") /\ Keep

TUpdEnter ==
  IF ~(rlock = "u:" \o E.uid /\ cur.op = "update") THEN Reject("C19-callback-outside-lock", <<E.uid, rlock>>)
  ELSE IF E.uid \in DOMAIN upd THEN Reject("C19-callback-twice", <<E.uid>>)
  ELSE /\ upd' = Ext(upd, E.uid, [ids |-> E.ids, failed |-> <<>>, err |-> FALSE, left |-> FALSE])
       /\ l' = l + 1 /\ UNCHANGED <<rvars, bad, stats, done, vetoer, lim>>

TUpdLeave ==
  IF ~(rlock = "u:" \o E.uid /\ E.uid \in DOMAIN upd) THEN Reject("C19-callback-outside-lock", <<E.uid>>)
  ELSE /\ upd' = [upd EXCEPT ![E.uid] = [@ EXCEPT !.failed = E.failed, !.err = E.err, !.left = TRUE]]
       /\ l' = l + 1 /\ UNCHANGED <<rvars, bad, stats, done, vetoer, lim>>

TUnlockingUpdate ==
  IF ~(rlock # "" /\ cur.op = "update") THEN Reject("C19-unlock-unexpected", <<>>)
  ELSE Unlock(rlock) /\ Step("events") /\ Keep

TUpdCall == Skip

TUpdRet ==
  IF E.hung THEN Reject("C19-update-blocked", <<E.uid>>)
  ELSE IF E.gone THEN Skip     \* the plugin stopped itself while its update was under way: what it is told is not compared
  ELSE IF E.uid \notin DOMAIN upd THEN Reject("C19-not-delivered", <<E.uid, E.errtext>>)
  ELSE IF upd[E.uid].ids # E.ids THEN Reject("C19-payload-changed", <<E.uid, upd[E.uid].ids>>)
  ELSE IF upd[E.uid].err # E.err THEN Reject("C19-error-changed", <<E.uid, E.errtext>>)
  ELSE IF ~E.err /\ upd[E.uid].failed # E.failed THEN Reject("C19-failed-list-changed", <<E.uid, E.failed>>)
  ELSE Skip

TNoStart ==
  IF E.blocked THEN Reject("C19-unstarted-stub-blocks", <<>>)
  ELSE IF ~E.noservice THEN Reject("C19-unstarted-stub-no-service", <<E.errtext>>)
  ELSE Skip

NotActivated == {k \in DOMAIN done : Len(k) > 4 /\ SubSeq(k, 1, 4) = "att:" /\ done[k].wf
                     /\ LET p == SubSeq(k, 5, Len(k)) IN ~(Known(p) /\ pst[p] = "active")}
\* the driver's watchdog: a runtime caller (or a plugin operation) never returned
HungLabel == IF \E i \in DOMAIN E.hung : Len(E.hung[i]) >= 15 /\ SubSeq(E.hung[i], Len(E.hung[i]) - 14, Len(E.hung[i])) = "BlockPluginSync"
             THEN "C08-block-never-granted" ELSE "C07-request-never-returned"
\* fault sessions: a plugin whose fault took place has been dropped by the end of the run
FaultyNotDropped == "fired" \in DOMAIN E /\ E.fired /\ E.faulty \notin dead
TEnd ==
  IF Len(E.hung) > 0 THEN Reject(HungLabel, <<E.hung>>)
  ELSE IF FaultyNotDropped THEN Reject("C07-failed-plugin-not-dropped", <<E.faulty>>)
  ELSE IF NotActivated # {} THEN Reject("C17-wellformed-not-activated", <<NotActivated>>)
  \* (a plugin that left - or was closed - before the accept loop got to it has no registration to complete)
  ELSE IF \E i \in DOMAIN E.stuck : E.stuck[i] \notin dead /\ FaultyKey(E.stuck[i]) \notin DOMAIN done
       THEN Reject("C08-registration-stuck", <<E.stuck>>)
  ELSE IF readers # {} \/ rlock # "" \/ swriter # "" THEN Reject("C08-not-quiescent", <<readers, rlock, swriter>>)
  ELSE Skip

TraceNext ==
  /\ l <= Len(Tr)
  /\ CASE E.ev = "Begin"            -> TBegin
       [] E.ev = "sync.request"     -> TSyncRequest
       [] E.ev = "sync.exclusive"   -> TSyncExclusive
       [] E.ev = "snapshot"         -> TSnapshot
       [] E.ev = "recv.sync"        -> TRecvSync
       [] E.ev = "sync.synced"      -> TSyncSynced
       [] E.ev = "sync.activated"   -> TActivated
       [] E.ev = "sync.finish"      -> TSyncFinish
       [] E.ev = "block.acquired"   -> TBlockAcquired
       [] E.ev = "block.releasing"  -> TBlockReleasing
       [] E.ev = "store.add"        -> TStoreAdd
       [] E.ev = "locked"           -> (CASE E.op = "request" -> TLockedRequest
                                          [] E.op = "register" -> TLockedRegister
                                          [] E.op = "update" -> TLockedUpdate)
       [] E.ev = "unlocking"        -> (CASE E.op = "request" -> TUnlockingRequest
                                          [] E.op = "register" -> TUnlockingRegister
                                          [] E.op = "update" -> TUnlockingUpdate)
       [] E.ev = "recv"             -> TRecv
       [] E.ev = "reply"            -> TReply
       [] E.ev = "closed"           -> TClosed
       [] E.ev = "leaving"          -> TLeaving
       [] E.ev = "ret"              -> TRet
       [] E.ev = "recheck"          -> TRecheck
       [] E.ev = "updatefn.enter"   -> TUpdEnter
       [] E.ev = "updatefn.leave"   -> TUpdLeave
       [] E.ev = "upd.call"         -> TUpdCall
       [] E.ev = "upd.ret"          -> TUpdRet
       [] E.ev = "nostart"          -> TNoStart
       [] E.ev = "reg.attempt"      -> TRegAttempt
       [] E.ev = "reg.waited"       -> TRegWaited
       [] E.ev = "socket.check"     -> TSocketCheck
       [] E.ev = "crash"            -> Reject("C07-panic", <<E.text>>)
       \* not replayed (the runs before wedged the code under test four times): on to the next run
       [] E.ev = "skipped"          -> l' = E.nb /\ UNCHANGED <<rvars, bad, stats, done, upd, vetoer, lim>>
       [] E.ev = "End"              -> TEnd
       [] OTHER                     -> Skip   \* call, started, leaving, start.failed: no specification step

TraceSpec == TraceInit /\ [][TraceNext]_tvars

\* safety net for the specification itself: every line must be consumable (else: tool failure)
NotStuck == (l <= Len(Tr)) => ENABLED TraceNext

Done == l > Len(Tr)
ReportInv ==
  Done => /\ PrintT(<<"STATS", ToJson(stats)>>)
          /\ \A i \in DOMAIN bad : PrintT(<<"BAD", ToJson(bad[i])>>)
          /\ PrintT(<<"CONSUMED", l - 1>>)

=============================================================================
