---------------------------- MODULE SyncChunkInd ----------------------------
(***************************************************************************)
(* C09, unbounded: the count discipline of synchronize() abstracted from   *)
(* the object sizes.  Whether a message fits is left open (any message may *)
(* be refused as oversized, any may pass); after an oversized message the  *)
(* sender may pick ANY new per-message counts before clamping (this covers *)
(* recalcObjsPerSyncMsg whatever it computes).  IndInv is inductive for    *)
(* every number of pods and containers: the slice expressions of           *)
(* synchronize() are always in bounds and a message always carries         *)
(* something while something is left; every accepted non-final message     *)
(* shrinks what is left (Variant).                                         *)
(***************************************************************************)
EXTENDS Integers

VARIABLES
  \* @type: Int;
  remP,
  \* @type: Int;
  remC,
  \* @type: Int;
  pp,
  \* @type: Int;
  cp,
  \* @type: Str;
  pc,
  \* @type: Int;
  before

Min(a, b) == IF a < b THEN a ELSE b

\* clampObjsPerSyncMsg
ClampP(p, c, rp, rc) == IF Min(p, rp) + Min(c, rc) = 0 /\ rp > 0 THEN 1 ELSE Min(p, rp)
ClampC(p, c, rp, rc) == IF Min(p, rp) + Min(c, rc) = 0 /\ rp = 0 /\ rc > 0 THEN 1 ELSE Min(c, rc)

More == pp < remP \/ cp < remC

Init == /\ remP \in Nat /\ remC \in Nat /\ pp = remP /\ cp = remC /\ pc = "send" /\ before = remP + remC

SendOK ==
  /\ pc = "send"
  /\ before' = remP + remC
  /\ IF More
     THEN /\ remP' = remP - pp /\ remC' = remC - cp
          /\ pp' = ClampP(pp, cp, remP - pp, remC - cp)
          /\ cp' = ClampC(pp, cp, remP - pp, remC - cp)
          /\ pc' = "send"
     ELSE /\ remP' = 0 /\ remC' = 0 /\ pp' = 0 /\ cp' = 0 /\ pc' = "ok"

Oversize ==
  /\ pc = "send"
  /\ \/ pc' = "fail" /\ UNCHANGED <<remP, remC, pp, cp, before>>
     \/ \E np, nc \in Int :
          /\ np >= 0 /\ nc >= 0
          /\ pp' = ClampP(np, nc, remP, remC) /\ cp' = ClampC(np, nc, remP, remC)
          /\ pc' = "send" /\ UNCHANGED <<remP, remC, before>>

Next == SendOK \/ Oversize

TypeOK == pc \in {"send", "ok", "fail"}
InBounds == pc = "send" => (0 <= pp /\ pp <= remP /\ 0 <= cp /\ cp <= remC)
Progress == (pc = "send" /\ remP + remC > 0) => pp + cp > 0
IndInv == TypeOK /\ remP >= 0 /\ remC >= 0 /\ InBounds /\ Progress
IndInit == /\ remP \in Int /\ remC \in Int /\ pp \in Int /\ cp \in Int /\ pc \in {"send", "ok", "fail"} /\ before \in Int
           /\ IndInv

\* every accepted, non-final message shrinks what is left to send (action property, checked at length 1)
Variant == (pc = "send" /\ pc' = "send" /\ (remP' # remP \/ remC' # remC)) => remP' + remC' < remP + remC
=============================================================================
