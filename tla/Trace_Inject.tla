---------------------------- MODULE Trace_Inject ----------------------------
(***************************************************************************)
(* Trace validation for C20: the built device-injector and ulimit-adjuster *)
(* binaries run as pre-installed plugins of a real Adaptation; the result  *)
(* of CreateContainer must be what Inject.tla computes from the pod's      *)
(* annotations and the container's name.                                   *)
(***************************************************************************)
EXTENDS Inject

CONSTANT TraceFile
Tr == ndJsonDeserialize(TraceFile)
VARIABLES l, bad, stats
tvars == <<l, bad, stats, sc, emitted>>
E == Tr[l]
SetOf(s) == {s[i] : i \in DOMAIN s}

TraceInit == l = 1 /\ bad = <<>> /\ stats = [scenarios |-> 0, errors |-> 0, rejected |-> 0] /\ sc = 0 /\ emitted = FALSE

Want == Expected(SetOf(E.anns), E.ctr)
Labels ==
  IF Want.err
  THEN (IF ~E.err THEN {"C20-malformed-accepted"} ELSE {})
       \cup (IF E.err /\ (E.dev # <<>> \/ E.mnt # <<>> \/ E.cdi # <<>> \/ E.rlim # <<>>) THEN {"C20-partial-adjustment"} ELSE {})
  ELSE (IF E.err THEN {"C20-request-failed"} ELSE
          (IF E.dev # Want.dev THEN {"C20-devices"} ELSE {})
     \cup (IF E.mnt # Want.mnt THEN {"C20-mounts"} ELSE {})
     \cup (IF E.cdi # Want.cdi THEN {"C20-cdi-devices"} ELSE {})
     \cup (IF E.rlim # Want.rlim THEN {"C20-rlimits"} ELSE {})
     \cup (IF E.other THEN {"C20-unrequested-adjustment"} ELSE {}))

TStep ==
  /\ l <= Len(Tr) /\ l' = l + 1 /\ UNCHANGED <<sc, emitted>>
  /\ IF E.ev = "Inject" /\ Labels # {}
     THEN /\ bad' = Append(bad, [scn |-> E.scn, line |-> l, labels |-> Labels,
                                 detail |-> <<E.ctr, E.errtext, E.dev, E.mnt, E.cdi, E.rlim>>])
          /\ stats' = [stats EXCEPT !.scenarios = @ + 1, !.rejected = @ + 1]
     ELSE /\ bad' = bad
          /\ stats' = [stats EXCEPT !.scenarios = @ + (IF E.ev = "Inject" THEN 1 ELSE 0),
                                    !.errors = @ + (IF E.ev = "Inject" /\ E.err THEN 1 ELSE 0)]

TraceSpec == TraceInit /\ [][TStep]_tvars
NotStuck == (l <= Len(Tr)) => ENABLED TStep
Done == l > Len(Tr)
ReportInv ==
  Done => /\ PrintT(<<"STATS", ToJson(stats)>>)
          /\ \A i \in DOMAIN bad : PrintT(<<"BAD", ToJson(bad[i])>>)
          /\ PrintT(<<"CONSUMED", l - 1>>)
=============================================================================
