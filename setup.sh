#!/bin/sh
# Build the verification harness once from files on disk only (offline).
set -e
cd "$(dirname "$0")/harness"
export GOFLAGS=-mod=mod GOPROXY=off GOSUMDB=off GOTOOLCHAIN=local CGO_ENABLED=0
cp /repo/go.sum go.sum
go build -tags verif -o /dev/null ./cmd/driver
echo "harness builds"
