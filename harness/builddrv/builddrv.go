// Package builddrv replays sequences of builder calls (pkg/api/adjustment.go,
// pkg/api/update.go) on real ContainerAdjustment / ContainerUpdate values and
// records the projected value after every call (X01, Builder.tla).
package builddrv

import (
	"bufio"
	"encoding/json"
	"fmt"
	"math/rand"
	"os"
	"strings"

	"github.com/containerd/nri/pkg/api"

	"verif/harness/abs"
	"verif/harness/rec"
)

type Call struct {
	Op string   `json:"op"`
	K  string   `json:"k"`
	V  string   `json:"v"`
	L  abs.Strs `json:"l"`
}

type Scenario struct {
	Target string `json:"target"`
	Calls  []Call `json:"calls"`
}

// UpdState is the projection of a ContainerUpdate with the raw hugepage list.
type UpdState struct {
	Target string   `json:"target"`
	Res    abs.SMap `json:"res"`
	Hp     abs.KVs  `json:"hp"`
	Uni    abs.SMap `json:"uni"`
	Ignore bool     `json:"ignore"`
}

func projUpdate(u *api.ContainerUpdate) UpdState {
	s := UpdState{Target: u.ContainerId, Ignore: u.IgnoreFailure}
	var r *api.LinuxResources
	if u.Linux != nil {
		r = u.Linux.Resources
	}
	s.Res, s.Hp, s.Uni = abs.FromAPIResourcesRaw(r)
	return s
}

func hooksFor(stage string, ids []string) *api.Hooks {
	mk := func(s string) []*api.Hook {
		if stage != "all" && stage != s {
			return nil
		}
		out := []*api.Hook{}
		for _, id := range ids {
			out = append(out, abs.HookFromID(id))
		}
		if len(out) == 0 {
			return nil
		}
		return out
	}
	return &api.Hooks{Prestart: mk("prestart"), CreateRuntime: mk("createRuntime"), CreateContainer: mk("createContainer"),
		StartContainer: mk("startContainer"), Poststart: mk("poststart"), Poststop: mk("poststop")}
}

// resource setters common to adjustments and updates
type resSetter interface {
	SetLinuxMemoryLimit(int64)
	SetLinuxMemoryReservation(int64)
	SetLinuxMemorySwap(int64)
	SetLinuxMemoryKernel(int64)
	SetLinuxMemoryKernelTCP(int64)
	SetLinuxMemorySwappiness(uint64)
	SetLinuxMemoryDisableOomKiller()
	SetLinuxMemoryUseHierarchy()
	SetLinuxCPUShares(uint64)
	SetLinuxCPUQuota(int64)
	SetLinuxCPUPeriod(int64)
	SetLinuxCPURealtimeRuntime(int64)
	SetLinuxCPURealtimePeriod(uint64)
	SetLinuxCPUSetCPUs(string)
	SetLinuxCPUSetMems(string)
	SetLinuxPidLimits(int64)
	AddLinuxHugepageLimit(string, uint64)
	SetLinuxBlockIOClass(string)
	SetLinuxRDTClass(string)
	AddLinuxUnified(string, string)
}

func callRes(t resSetter, c Call) bool {
	switch c.Op {
	case "SetLinuxMemoryLimit":
		t.SetLinuxMemoryLimit(abs.PI64(c.V))
	case "SetLinuxMemoryReservation":
		t.SetLinuxMemoryReservation(abs.PI64(c.V))
	case "SetLinuxMemorySwap":
		t.SetLinuxMemorySwap(abs.PI64(c.V))
	case "SetLinuxMemoryKernel":
		t.SetLinuxMemoryKernel(abs.PI64(c.V))
	case "SetLinuxMemoryKernelTCP":
		t.SetLinuxMemoryKernelTCP(abs.PI64(c.V))
	case "SetLinuxMemorySwappiness":
		t.SetLinuxMemorySwappiness(abs.PU64(c.V))
	case "SetLinuxMemoryDisableOomKiller":
		t.SetLinuxMemoryDisableOomKiller()
	case "SetLinuxMemoryUseHierarchy":
		t.SetLinuxMemoryUseHierarchy()
	case "SetLinuxCPUShares":
		t.SetLinuxCPUShares(abs.PU64(c.V))
	case "SetLinuxCPUQuota":
		t.SetLinuxCPUQuota(abs.PI64(c.V))
	case "SetLinuxCPUPeriod":
		t.SetLinuxCPUPeriod(abs.PI64(c.V))
	case "SetLinuxCPURealtimeRuntime":
		t.SetLinuxCPURealtimeRuntime(abs.PI64(c.V))
	case "SetLinuxCPURealtimePeriod":
		t.SetLinuxCPURealtimePeriod(abs.PU64(c.V))
	case "SetLinuxCPUSetCPUs":
		t.SetLinuxCPUSetCPUs(c.V)
	case "SetLinuxCPUSetMems":
		t.SetLinuxCPUSetMems(c.V)
	case "SetLinuxPidLimits":
		t.SetLinuxPidLimits(abs.PI64(c.V))
	case "AddLinuxHugepageLimit":
		t.AddLinuxHugepageLimit(c.K, abs.PU64(c.V))
	case "SetLinuxBlockIOClass":
		t.SetLinuxBlockIOClass(c.V)
	case "SetLinuxRDTClass":
		t.SetLinuxRDTClass(c.V)
	case "AddLinuxUnified":
		t.AddLinuxUnified(c.K, c.V)
	default:
		return false
	}
	return true
}

// callAdjust performs one call; it reports whether a later change of the
// caller's argument slice shows through (the API promises a copy for args).
func callAdjust(a *api.ContainerAdjustment, c Call) (alias bool, err error) {
	if callRes(a, c) {
		return false, nil
	}
	switch c.Op {
	case "AddAnnotation":
		a.AddAnnotation(c.K, c.V)
	case "RemoveAnnotation":
		a.RemoveAnnotation(c.K)
	case "AddEnv":
		a.AddEnv(c.K, c.V)
	case "RemoveEnv":
		a.RemoveEnv(c.K)
	case "AddMount":
		a.AddMount(abs.MountFromVal(c.K, c.V))
	case "RemoveMount":
		a.RemoveMount(c.K)
	case "AddDevice":
		a.AddDevice(abs.DeviceFromVal(c.K, c.V))
	case "RemoveDevice":
		a.RemoveDevice(c.K)
	case "SetArgs", "UpdateArgs":
		arg := append([]string(nil), c.L...)
		if c.Op == "SetArgs" {
			a.SetArgs(arg)
		} else {
			a.UpdateArgs(arg)
		}
		before := strings.Join(a.Args, "\x00")
		for i := range arg {
			arg[i] = "MUTATED"
		}
		alias = strings.Join(a.Args, "\x00") != before
	case "AddHooks":
		a.AddHooks(hooksFor(c.K, c.L))
	case "AddRlimit":
		hs := strings.SplitN(c.V, ":", 2)
		a.AddRlimit(c.K, abs.PU64(hs[0]), abs.PU64(hs[1]))
	case "AddCDIDevice":
		a.AddCDIDevice(&api.CDIDevice{Name: c.K})
	case "SetLinuxCgroupsPath":
		a.SetLinuxCgroupsPath(c.V)
	case "SetLinuxOomScoreAdj":
		if c.V == "nil" {
			a.SetLinuxOomScoreAdj(nil)
		} else {
			v := int(abs.PI64(c.V))
			a.SetLinuxOomScoreAdj(&v)
			v = 12345 // a later change of the caller's variable must not show through
		}
	default:
		return false, fmt.Errorf("unknown adjustment call %q", c.Op)
	}
	return alias, nil
}

func callUpdate(u *api.ContainerUpdate, c Call) error {
	if callRes(u, c) {
		return nil
	}
	switch c.Op {
	case "SetContainerId":
		u.SetContainerId(c.K)
	case "SetIgnoreFailure":
		u.SetIgnoreFailure()
	default:
		return fmt.Errorf("unknown update call %q", c.Op)
	}
	return nil
}

func runOne(s Scenario) (states []any, alias []bool, errs string) {
	defer func() {
		if r := recover(); r != nil {
			errs = fmt.Sprint("panic: ", r)
		}
	}()
	states, alias = []any{}, []bool{}
	if s.Target == "update" {
		u := &api.ContainerUpdate{}
		for _, c := range s.Calls {
			if err := callUpdate(u, c); err != nil {
				return states, alias, err.Error()
			}
			states = append(states, projUpdate(u))
			alias = append(alias, false)
		}
		return
	}
	a := &api.ContainerAdjustment{}
	for _, c := range s.Calls {
		al, err := callAdjust(a, c)
		if err != nil {
			return states, alias, err.Error()
		}
		states = append(states, abs.FromAPIAdjust(a))
		alias = append(alias, al)
	}
	return
}

func Run(in, out string) error {
	f, err := os.Open(in)
	if err != nil {
		return err
	}
	defer f.Close()
	w, err := rec.NewWriter(out)
	if err != nil {
		return err
	}
	defer w.Close()
	sc := bufio.NewScanner(f)
	sc.Buffer(make([]byte, 1<<20), 1<<26)
	n := 0
	for sc.Scan() {
		line := strings.TrimSpace(sc.Text())
		if line == "" {
			continue
		}
		n++
		var s Scenario
		if err := json.Unmarshal([]byte(line), &s); err != nil {
			return fmt.Errorf("scenario %d: %w", n, err)
		}
		for i := range s.Calls {
			if s.Calls[i].L == nil {
				s.Calls[i].L = abs.Strs{}
			}
		}
		states, alias, e := runOne(s)
		if e != "" && !strings.HasPrefix(e, "panic") {
			return fmt.Errorf("scenario %d: %s", n, e)
		}
		ev := rec.Event{"ev": "Build", "scn": n, "target": s.Target, "calls": s.Calls, "states": states, "alias": alias, "err": e}
		if err := w.WriteScenario([]rec.Event{ev}); err != nil {
			return err
		}
	}
	return sc.Err()
}

// Generate writes random long mixed call sequences.
func Generate(out string, n int, seed int64) error {
	f, err := os.Create(out)
	if err != nil {
		return err
	}
	defer f.Close()
	w := bufio.NewWriter(f)
	defer w.Flush()
	r := rand.New(rand.NewSource(seed))
	pick := func(xs ...string) string { return xs[r.Intn(len(xs))] }
	i64 := func() string { return pick("0", "-1", "1", "4096", "9223372036854775807", "-9223372036854775808") }
	u64 := func() string { return pick("0", "1", "7", "18446744073709551615") }
	scalar := func(update bool) Call {
		ops := []string{"SetLinuxMemoryLimit", "SetLinuxMemoryReservation", "SetLinuxMemorySwap", "SetLinuxMemoryKernel",
			"SetLinuxMemoryKernelTCP", "SetLinuxMemorySwappiness", "SetLinuxMemoryDisableOomKiller", "SetLinuxMemoryUseHierarchy",
			"SetLinuxCPUShares", "SetLinuxCPUQuota", "SetLinuxCPUPeriod", "SetLinuxCPURealtimeRuntime", "SetLinuxCPURealtimePeriod",
			"SetLinuxCPUSetCPUs", "SetLinuxCPUSetMems", "SetLinuxPidLimits", "SetLinuxBlockIOClass", "SetLinuxRDTClass",
			"AddLinuxHugepageLimit", "AddLinuxUnified"}
		if !update {
			ops = append(ops, "SetLinuxCgroupsPath", "SetLinuxOomScoreAdj")
		}
		c := Call{Op: ops[r.Intn(len(ops))], L: abs.Strs{}}
		switch c.Op {
		case "SetLinuxMemorySwappiness", "SetLinuxCPUShares", "SetLinuxCPURealtimePeriod":
			c.V = u64()
		case "SetLinuxCPUPeriod":
			c.V = pick("0", "1", "100000", "9223372036854775807")
		case "SetLinuxMemoryDisableOomKiller", "SetLinuxMemoryUseHierarchy":
			c.V = "true"
		case "SetLinuxCPUSetCPUs", "SetLinuxCPUSetMems":
			c.V = pick("", "0", "0-3", "1,3")
		case "SetLinuxBlockIOClass", "SetLinuxRDTClass":
			c.V = pick("", "gold", "silver")
		case "AddLinuxHugepageLimit":
			c.K, c.V = pick("2MB", "1GB", "64KB"), u64()
		case "AddLinuxUnified":
			c.K, c.V = pick("memory.high", "io.max", "cpu.weight"), pick("max", "1", "")
		case "SetLinuxCgroupsPath":
			c.V = pick("", "/cg/a", "/cg/b")
		case "SetLinuxOomScoreAdj":
			c.V = pick("nil", "0", "-1000", "1000")
		default:
			c.V = i64()
		}
		return c
	}
	for i := 0; i < n; i++ {
		s := Scenario{Target: "adjust"}
		if r.Intn(4) == 0 {
			s.Target = "update"
		}
		ln := 1 + r.Intn(14)
		for j := 0; j < ln; j++ {
			if s.Target == "update" {
				switch r.Intn(6) {
				case 0:
					s.Calls = append(s.Calls, Call{Op: "SetContainerId", K: pick("c0", "c1", ""), L: abs.Strs{}})
				case 1:
					s.Calls = append(s.Calls, Call{Op: "SetIgnoreFailure", L: abs.Strs{}})
				default:
					s.Calls = append(s.Calls, scalar(true))
				}
				continue
			}
			k := pick("k1", "k2", "k3", "K")
			switch r.Intn(16) {
			case 0:
				s.Calls = append(s.Calls, Call{Op: "AddAnnotation", K: k, V: pick("v1", "v2", ""), L: abs.Strs{}})
			case 1:
				s.Calls = append(s.Calls, Call{Op: "RemoveAnnotation", K: k, L: abs.Strs{}})
			case 2:
				s.Calls = append(s.Calls, Call{Op: "AddEnv", K: k, V: pick("v1", "v2", "", "a=b"), L: abs.Strs{}})
			case 3:
				s.Calls = append(s.Calls, Call{Op: "RemoveEnv", K: k, L: abs.Strs{}})
			case 4:
				s.Calls = append(s.Calls, Call{Op: "AddMount", K: pick("/m1", "/m2", "/m1/sub"), V: pick("/s1|bind|ro", "|tmpfs|", "/s2|bind|rw,rbind"), L: abs.Strs{}})
			case 5:
				s.Calls = append(s.Calls, Call{Op: "RemoveMount", K: pick("/m1", "/m2", "/m1/sub"), L: abs.Strs{}})
			case 6:
				s.Calls = append(s.Calls, Call{Op: "AddDevice", K: pick("/dev/a", "/dev/b"), V: pick("c|1|3", "b|8|0|420|0|0", "c|5|1|-|7"), L: abs.Strs{}})
			case 7:
				s.Calls = append(s.Calls, Call{Op: "RemoveDevice", K: pick("/dev/a", "/dev/b"), L: abs.Strs{}})
			case 8:
				s.Calls = append(s.Calls, Call{Op: pick("SetArgs", "UpdateArgs"), L: [][]string{{}, {"a"}, {"a", "b"}, {"", "x"}}[r.Intn(4)]})
			case 9:
				s.Calls = append(s.Calls, Call{Op: "AddHooks", K: pick("prestart", "createRuntime", "createContainer", "startContainer", "poststart", "poststop", "all"),
					L: [][]string{{}, {"h1"}, {"h2", "h3"}}[r.Intn(3)]})
			case 10:
				s.Calls = append(s.Calls, Call{Op: "AddRlimit", K: pick("RLIMIT_NOFILE", "RLIMIT_CORE", "RLIMIT_AS"), V: pick("10:5", "0:0", "18446744073709551615:1"), L: abs.Strs{}})
			case 11:
				s.Calls = append(s.Calls, Call{Op: "AddCDIDevice", K: pick("vendor.com/dev=a", "vendor.com/dev=b"), L: abs.Strs{}})
			default:
				s.Calls = append(s.Calls, scalar(false))
			}
		}
		b, err := json.Marshal(s)
		if err != nil {
			return err
		}
		w.Write(b)
		w.WriteByte('\n')
	}
	return nil
}
