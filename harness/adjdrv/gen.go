package adjdrv

import (
	"bufio"
	"encoding/json"
	"fmt"
	"math/rand"
	"os"

	"verif/harness/abs"
)

// Random scenarios outside the small scope TLC enumerates: more plugins, more
// keys, mixed families, boundary values. The generator respects the domain
// restrictions of DESIGN.md R4 (no plugin writes one item twice in a response).

var (
	genKeys = map[string][]string{
		// some strings are keys of several families at once (a mount at a device's path, an annotation named like
		// a variable): the families are independent of each other
		"ann": {"k1", "k2", "k3", "io.x/y", "E1"},
		"env": {"E1", "E2", "E3", "PATH", "k1"},
		// "/m3/" and "/m4//x": destinations not in clean form are keys like any other, claimed and released as written
		"mnt": {"/m1", "/m1/sub", "/m2", "/dev/d1", "/dev/d2", "/m1/sub/deep", "/m3/", "/m4//x"},
		"dev": {"/dev/d1", "/dev/d2", "/dev/d3", "/dev/null0"},
		"rlim": {"RLIMIT_NOFILE", "RLIMIT_CORE", "RLIMIT_AS", "RLIMIT_NPROC"},
		"cdi":  {"vendor.com/dev=a", "vendor.com/dev=b", "other.io/gpu=0"},
		"hp":   {"2MB", "1GB", "64KB"},
		"uni":  {"memory.high", "cpu.weight", "io.max"},
	}
	intFields  = []string{"mem.limit", "mem.reservation", "mem.swap", "mem.kernel", "mem.kerneltcp", "cpu.quota", "cpu.rtruntime", "pids"}
	uintFields = []string{"mem.swappiness", "cpu.shares", "cpu.period", "cpu.rtperiod"}
	boolFields = []string{"mem.disableoom", "mem.usehierarchy"}
	strFields  = []string{"cpu.cpus", "cpu.mems", "blockio", "rdt"}
	intVals    = []string{"0", "1", "-1", "4096", "1048576", "9223372036854775807", "-9223372036854775808", "77"}
	uintVals   = []string{"0", "1", "1024", "100000", "18446744073709551615", "55"}
)

func pick(r *rand.Rand, l []string) string { return l[r.Intn(len(l))] }

func scalarVal(r *rand.Rand, f string, who int) string {
	for _, x := range intFields {
		if x == f {
			if r.Intn(3) == 0 {
				return pick(r, intVals)
			}
			return fmt.Sprint(1000*(who+1) + r.Intn(100))
		}
	}
	for _, x := range uintFields {
		if x == f {
			if r.Intn(3) == 0 {
				return pick(r, uintVals)
			}
			return fmt.Sprint(1000*(who+1) + r.Intn(100))
		}
	}
	for _, x := range boolFields {
		if x == f {
			return []string{"true", "false"}[r.Intn(2)]
		}
	}
	switch f {
	case "cgpath":
		if r.Intn(4) == 0 {
			return "/cg/shared"
		}
		return fmt.Sprintf("/cg/p%d/%d", who, r.Intn(10))
	case "oom":
		if r.Intn(4) == 0 {
			return pick(r, []string{"0", "-500"})
		}
		return fmt.Sprint(r.Intn(2001) - 1000)
	case "blockio", "rdt":
		if r.Intn(8) == 0 {
			return ""
		}
		return fmt.Sprintf("class%d", r.Intn(4))
	}
	// cpus / mems: every other time a value from a pool everybody draws from - a plugin may ask for exactly what the
	// container has already, or for what an earlier plugin asked (it sets the item all the same)
	if r.Intn(2) == 0 {
		return pick(r, []string{"0-3", "2,4"})
	}
	return fmt.Sprintf("%d-%d", who, r.Intn(8))
}

func keyedVal(r *rand.Rand, fam string, who int) string {
	switch fam {
	case "mnt":
		return fmt.Sprintf("/s/v%d-%d|%s|%s", who, r.Intn(5), pick(r, []string{"bind", "tmpfs"}), pick(r, []string{"ro", "rw,nosuid", "", "rbind,rprivate,ro,nosuid", "rprivate"}))
	case "dev":
		return fmt.Sprintf("%s|%d|%d%s", pick(r, []string{"c", "b"}), r.Intn(10), 100*who+r.Intn(50), pick(r, []string{"", "|420", "|384|1|2"}))
	case "rlim":
		h := r.Intn(1000)
		return fmt.Sprintf("%d:%d", h+who, h)
	case "hp":
		return fmt.Sprint(1 + who*10 + r.Intn(5))
	}
	if fam == "env" && r.Intn(2) == 0 {
		// values with "=" in them (JAVA_OPTS=-Dmode=fast, base64 padding): a variable's name ends at the first "="
		return fmt.Sprintf("v%d=%d%s", who, r.Intn(5), pick(r, []string{"", "=", "=="}))
	}
	return fmt.Sprintf("v%d-%d", who, r.Intn(5))
}

func allScalars(update bool) []string {
	out := append([]string{}, intFields...)
	out = append(out, uintFields...)
	out = append(out, boolFields...)
	out = append(out, strFields...)
	if !update {
		out = append(out, "cgpath", "oom")
	}
	return out
}

func randRes(r *rand.Rand, who int, p float64, update bool) abs.SMap {
	m := abs.SMap{}
	for _, f := range allScalars(update) {
		if r.Float64() < p {
			m[f] = scalarVal(r, f, who)
		}
	}
	return m
}

func RandOrig(r *rand.Rand) abs.Container {
	c := abs.Container{}.Norm()
	for _, fam := range []string{"ann", "env", "mnt", "dev"} {
		for _, k := range genKeys[fam] {
			if r.Intn(3) == 0 {
				v := keyedVal(r, fam, 0)
				switch fam {
				case "ann":
					c.Ann[k] = v
				case "env":
					c.Env[k] = v
				case "mnt":
					c.Mnt[k] = v
				case "dev":
					c.Dev[k] = v
				}
			}
		}
	}
	if r.Intn(2) == 0 {
		c.Args = abs.Strs{"/bin/orig", "--flag"}
	}
	if r.Intn(3) == 0 {
		c.Hooks["prestart"] = abs.Strs{"h0"}
	}
	if r.Intn(3) == 0 {
		c.Rlim = abs.KVs{{K: "RLIMIT_STACK", V: "8:8"}}
	}
	switch r.Intn(3) {
	case 0:
		c.Res = randRes(r, 0, 0.3, false)
	case 1:
		c.Res = randRes(r, 0, 1.0, false)
	}
	if r.Intn(3) == 0 {
		c.Hp["2MB"] = "3"
	}
	if r.Intn(3) == 0 {
		c.Uni["memory.high"] = "9"
	}
	return c
}

func randList(r *rand.Rand, fam string, who int, pTouch float64) abs.KVs {
	out := abs.KVs{}
	keys := genKeys[fam]
	for _, i := range r.Perm(len(keys)) {
		k := keys[i]
		if r.Float64() >= pTouch {
			continue
		}
		v := keyedVal(r, fam, who)
		switch r.Intn(5) {
		case 0, 1:
			out = append(out, abs.KV{K: k, V: v})
		case 2:
			out = append(out, abs.KV{K: "-" + k})
		case 3:
			out = append(out, abs.KV{K: "-" + k}, abs.KV{K: k, V: v})
		case 4:
			out = append(out, abs.KV{K: k, V: v}, abs.KV{K: "-" + k})
		}
	}
	return out
}

func RandAdjust(r *rand.Rand, who int, density float64) abs.Adjust {
	a := abs.Adjust{}.Norm()
	for _, k := range genKeys["ann"] {
		if r.Float64() < density {
			switch r.Intn(4) {
			case 0, 1:
				a.Ann[k] = keyedVal(r, "ann", who)
			case 2:
				a.Ann["-"+k] = ""
			case 3:
				a.Ann["-"+k] = ""
				a.Ann[k] = keyedVal(r, "ann", who)
			}
		}
	}
	a.Env = randList(r, "env", who, density)
	a.Mnt = randList(r, "mnt", who, density)
	a.Dev = randList(r, "dev", who, density)
	if r.Float64() < density {
		switch r.Intn(3) {
		case 0:
			a.Args = abs.Strs{fmt.Sprintf("/bin/p%d", who), "x"}
		case 1:
			a.Args = abs.Strs{""}
		case 2:
			a.Args = abs.Strs{"", fmt.Sprintf("/bin/u%d", who)}
		}
	}
	for _, s := range abs.Stages {
		if r.Float64() < density/2 {
			a.Hooks[s] = abs.Strs{fmt.Sprintf("h%d-%s", who, s)}
		}
	}
	for _, fam := range []string{"rlim", "hp"} {
		for _, k := range genKeys[fam] {
			if r.Float64() < density/2 {
				e := abs.KV{K: k, V: keyedVal(r, fam, who)}
				if fam == "rlim" {
					a.Rlim = append(a.Rlim, e)
				} else {
					a.Hp = append(a.Hp, e)
				}
			}
		}
	}
	for _, k := range genKeys["cdi"] {
		if r.Float64() < density/2 {
			a.Cdi = append(a.Cdi, k)
		}
	}
	for _, k := range genKeys["uni"] {
		if r.Float64() < density/2 {
			a.Uni[k] = keyedVal(r, "uni", who)
		}
	}
	a.Res = randRes(r, who, density/3, false)
	return a
}

func randUpdates(r *rand.Rand, who int, own string) []abs.Update {
	n := []int{0, 0, 1, 1, 2, 3}[r.Intn(6)]
	targets := []string{own, "t1", "t2", "t3"}
	out := []abs.Update{}
	used := map[string]bool{}
	for i := 0; i < n; i++ {
		t := pick(r, targets)
		u := abs.Update{Target: t, Ignore: r.Intn(3) == 0, HasRes: r.Intn(10) != 0}.Norm()
		if u.HasRes {
			for k, v := range randRes(r, who, 0.12, true) {
				if !used[t+"/"+k] {
					used[t+"/"+k] = true
					u.Res[k] = v
				}
			}
			if r.Intn(4) == 0 {
				k := pick(r, genKeys["hp"])
				if !used[t+"/hp/"+k] {
					used[t+"/hp/"+k] = true
					u.Hp = append(u.Hp, abs.KV{K: k, V: keyedVal(r, "hp", who)})
				}
			}
			if r.Intn(4) == 0 {
				k := pick(r, genKeys["uni"])
				if !used[t+"/uni/"+k] {
					used[t+"/uni/"+k] = true
					u.Uni[k] = keyedVal(r, "uni", who)
				}
			}
			// an update that carries a resources message but sets nothing is ambiguous (DESIGN C05)
			if len(u.Res)+len(u.Hp)+len(u.Uni) == 0 {
				u.HasRes = false
			}
		}
		out = append(out, u)
	}
	return out
}

// GenOptions configure the random generator.
type GenOptions struct {
	Out     string
	N       int
	Seed    int64
	MaxNP   int
	Density float64 // 0: mixed
}

func Generate(o GenOptions) error {
	f, err := os.Create(o.Out)
	if err != nil {
		return err
	}
	defer f.Close()
	w := bufio.NewWriter(f)
	defer w.Flush()
	r := rand.New(rand.NewSource(o.Seed))
	if o.MaxNP <= 0 {
		o.MaxNP = 6
	}
	for i := 0; i < o.N; i++ {
		s := Scenario{Own: "c0"}
		switch x := r.Intn(100); {
		case x < 60:
			s.Kind = "create"
		case x < 85:
			s.Kind = "update"
		default:
			s.Kind = "stop"
		}
		s.Orig = RandOrig(r)
		s.ReqRes = abs.ResView{}.Norm()
		if s.Kind == "update" {
			switch r.Intn(3) {
			case 0:
				s.ReqRes.Res = randRes(r, 0, 0.3, true)
			case 1:
				s.ReqRes.Res = randRes(r, 0, 1.0, true)
				s.ReqRes.Hp["2MB"] = "3"
				s.ReqRes.Uni["memory.high"] = "9"
			}
		}
		np := 1 + r.Intn(o.MaxNP)
		density := o.Density
		if density == 0 {
			density = []float64{0.05, 0.1, 0.2, 0.35}[r.Intn(4)]
		}
		for p := 0; p < np; p++ {
			resp := abs.Resp{}
			if s.Kind == "create" {
				resp.Adj = RandAdjust(r, p+1, density)
			}
			if s.Kind != "create" || r.Intn(3) == 0 {
				resp.Upd = randUpdates(r, p+1, "c0")
			}
			resp.Norm()
			s.Resps = append(s.Resps, resp)
		}
		b, err := json.Marshal(struct {
			Kind   string        `json:"kind"`
			Own    string        `json:"own"`
			Orig   abs.Container `json:"orig"`
			ReqRes abs.ResView   `json:"reqres"`
			Resps  []abs.Resp    `json:"resps"`
		}{s.Kind, s.Own, s.Orig, s.ReqRes, s.Resps})
		if err != nil {
			return err
		}
		w.Write(b)
		w.WriteByte('\n')
	}
	return nil
}
