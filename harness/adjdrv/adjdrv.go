// Package adjdrv replays Adjust scenarios (TLC-generated or random) end-to-end:
// real Adaptation, real stub plugins over a unix socket, scripted handlers; what
// a plugin receives is the observed view, what the runtime gets back the result.
package adjdrv

import (
	"bufio"
	"context"
	"encoding/json"
	"fmt"
	"math/rand"
	"os"
	"sort"
	"strconv"
	"strings"
	"sync"
	"time"

	"github.com/containerd/nri/pkg/api"
	nrigen "github.com/containerd/nri/pkg/runtime-tools/generate"
	rspec "github.com/opencontainers/runtime-spec/specs-go"
	rgen "github.com/opencontainers/runtime-tools/generate"

	"verif/harness/abs"
	"verif/harness/rec"
	"verif/harness/rig"
)

// Scenario is one request with the scripted plugin responses.
type Scenario struct {
	Scn    int           `json:"scn"`
	Kind   string        `json:"kind"` // create | update | stop
	Own    string        `json:"own"`
	Orig   abs.Container `json:"orig"`
	ReqRes abs.ResView   `json:"reqres"`
	Resps  []abs.Resp    `json:"resps"`
	buf    *rec.Buf
}

func ReadScenarios(path string) ([]*Scenario, error) {
	f, err := os.Open(path)
	if err != nil {
		return nil, err
	}
	defer f.Close()
	var out []*Scenario
	sc := bufio.NewScanner(f)
	sc.Buffer(make([]byte, 1<<20), 1<<26)
	for sc.Scan() {
		line := strings.TrimSpace(sc.Text())
		if line == "" {
			continue
		}
		s := &Scenario{}
		if err := json.Unmarshal([]byte(line), s); err != nil {
			return nil, fmt.Errorf("scenario %d: %w", len(out)+1, err)
		}
		s.Orig = s.Orig.Norm()
		s.ReqRes = s.ReqRes.Norm()
		for i := range s.Resps {
			s.Resps[i].Norm()
		}
		s.Scn = len(out) + 1
		out = append(out, s)
	}
	return out, sc.Err()
}

type driver struct {
	mu    sync.Mutex
	byID  map[string]*Scenario
	out   *rec.Writer
	names []string
}

// safeAdjust applies an adjustment with the generator; a panic is reported like an error.
func safeAdjust(g *nrigen.Generator, a *api.ContainerAdjustment) (ge string) {
	defer func() {
		if r := recover(); r != nil {
			ge = fmt.Sprint("panic: ", r)
		}
	}()
	if err := g.Adjust(a); err != nil {
		return err.Error()
	}
	return ""
}

func ctrID(s *Scenario) string { return s.Own + "#" + strconv.Itoa(s.Scn) }

func (d *driver) lookup(c *api.Container) *Scenario {
	if c == nil {
		return nil
	}
	d.mu.Lock()
	defer d.mu.Unlock()
	return d.byID[c.Id]
}

// own ids are suffixed per scenario; targets naming the own container follow
func concretiseUpdates(s *Scenario, us []abs.Update) []*api.ContainerUpdate {
	out := abs.ToAPIUpdates(us)
	for _, u := range out {
		if u.ContainerId == s.Own {
			u.ContainerId = ctrID(s)
		}
	}
	return out
}

func (d *driver) handlers() *rig.Handlers {
	respOf := func(p *rig.Plugin, s *Scenario) abs.Resp {
		if p.Pos < len(s.Resps) {
			return s.Resps[p.Pos]
		}
		r := abs.Resp{}
		r.Norm()
		return r
	}
	podOK := func(pod *api.PodSandbox, s *Scenario) bool {
		return pod != nil && pod.Id == "pod#"+strconv.Itoa(s.Scn)
	}
	return &rig.Handlers{
		Create: func(p *rig.Plugin, pod *api.PodSandbox, c *api.Container) (*api.ContainerAdjustment, []*api.ContainerUpdate, error) {
			s := d.lookup(c)
			if s == nil {
				return nil, nil, nil
			}
			r := respOf(p, s)
			s.buf.Add(rec.Event{"ev": "Apply", "scn": s.Scn, "p": p.FullName(), "handler": "create",
				"view": abs.FromAPIContainer(c), "rview": abs.ResView{}.Norm(), "podok": podOK(pod, s), "resp": r})
			return abs.ToAPIAdjust(r.Adj), concretiseUpdates(s, r.Upd), nil
		},
		Update: func(p *rig.Plugin, pod *api.PodSandbox, c *api.Container, res *api.LinuxResources) ([]*api.ContainerUpdate, error) {
			s := d.lookup(c)
			if s == nil {
				return nil, nil
			}
			r := respOf(p, s)
			s.buf.Add(rec.Event{"ev": "Apply", "scn": s.Scn, "p": p.FullName(), "handler": "update",
				"view": abs.FromAPIContainer(c), "rview": abs.FromAPIResources(res), "podok": podOK(pod, s), "resp": r})
			return concretiseUpdates(s, r.Upd), nil
		},
		Stop: func(p *rig.Plugin, pod *api.PodSandbox, c *api.Container) ([]*api.ContainerUpdate, error) {
			s := d.lookup(c)
			if s == nil {
				return nil, nil
			}
			r := respOf(p, s)
			s.buf.Add(rec.Event{"ev": "Apply", "scn": s.Scn, "p": p.FullName(), "handler": "stop",
				"view": abs.FromAPIContainer(c), "rview": abs.ResView{}.Norm(), "podok": podOK(pod, s), "resp": r})
			return concretiseUpdates(s, r.Upd), nil
		},
	}
}

func newGen(spec *rspec.Spec, cdi *[]string) *nrigen.Generator {
	g := rgen.NewFromSpec(spec)
	return nrigen.SpecGenerator(&g,
		nrigen.WithBlockIOResolver(abs.ResolveBlockIO),
		nrigen.WithRdtResolver(abs.ResolveRdt),
		nrigen.WithCDIDeviceInjector(func(_ *rspec.Spec, names []string) error {
			*cdi = append(*cdi, names...)
			return nil
		}))
}

func unOwn(s *Scenario, id string) string {
	if id == ctrID(s) {
		return s.Own
	}
	return id
}

// run executes one scenario against the adaptation and writes its trace.
func (d *driver) run(r *rig.Rig, s *Scenario, np int) error {
	s.buf = &rec.Buf{}
	id := ctrID(s)
	d.mu.Lock()
	d.byID[id] = s
	d.mu.Unlock()
	defer func() {
		d.mu.Lock()
		delete(d.byID, id)
		d.mu.Unlock()
	}()

	podID := "pod#" + strconv.Itoa(s.Scn)
	pod := &api.PodSandbox{Id: podID, Name: "pod", Namespace: "ns"}
	ctr := abs.ToAPIContainer(id, podID, s.Orig)
	s.buf.Add(rec.Event{"ev": "Begin", "scn": s.Scn, "kind": s.Kind, "own": s.Own, "orig": s.Orig,
		"reqres": s.ReqRes, "np": np, "plugins": d.names[:np]})

	ctx := context.Background()
	end := rec.Event{"ev": "End", "scn": s.Scn, "err": false, "errtext": "", "updates": []abs.UpdEntry{},
		"comb": abs.FromAPIAdjust(nil), "fcomb": abs.FromOCISpec(nil, nil), "fseq": abs.FromOCISpec(nil, nil),
		"gerr": ""}
	var (
		updates []*api.ContainerUpdate
		err     error
	)
	switch s.Kind {
	case "create":
		var rpl *api.CreateContainerResponse
		rpl, err = r.Ad.CreateContainer(ctx, &api.CreateContainerRequest{Pod: pod, Container: ctr})
		if err == nil {
			updates = rpl.Update
			end["comb"] = abs.FromAPIAdjust(rpl.Adjust)
			gerr := ""
			// the combined adjustment applied with the project's generator
			var cdi []string
			g := newGen(abs.ToOCISpecOrd(s.Orig, s.Scn%2 == 1), &cdi)
			if e := safeAdjust(g, rpl.Adjust); e != "" {
				gerr += "combined: " + e + ";"
			}
			end["fcomb"] = abs.FromOCISpec(g.Config, cdi)
			// each plugin's adjustment applied in turn
			var cdi2 []string
			g2 := newGen(abs.ToOCISpecOrd(s.Orig, s.Scn%2 == 1), &cdi2)
			for _, e := range s.buf.Events() {
				if e["ev"] != "Apply" {
					continue
				}
				resp := e["resp"].(abs.Resp)
				if e := safeAdjust(g2, abs.ToAPIAdjust(resp.Adj)); e != "" {
					gerr += "sequential: " + e + ";"
				}
			}
			end["fseq"] = abs.FromOCISpec(g2.Config, cdi2)
			end["gerr"] = gerr
		}
	case "update":
		var rpl *api.UpdateContainerResponse
		rpl, err = r.Ad.UpdateContainer(ctx, &api.UpdateContainerRequest{Pod: pod, Container: ctr,
			LinuxResources: abs.ToAPIResources(s.ReqRes)})
		if err == nil {
			updates = rpl.Update
		}
	case "stop":
		var rpl *api.StopContainerResponse
		rpl, err = r.Ad.StopContainer(ctx, &api.StopContainerRequest{Pod: pod, Container: ctr})
		if err == nil {
			updates = rpl.Update
		}
	default:
		return fmt.Errorf("scenario %d: unknown kind %q", s.Scn, s.Kind)
	}
	if err != nil {
		end["err"] = true
		end["errtext"] = err.Error()
	} else {
		us := abs.FromAPIUpdateList(updates)
		for i := range us {
			us[i].Target = unOwn(s, us[i].Target)
		}
		end["updates"] = us
	}
	s.buf.Add(end)
	return d.out.WriteScenario(s.buf.Events())
}

// Options of a replay.
type Options struct {
	In, Out string
	Seed    int64
	Conc    int // concurrent callers (1 = sequential)
	Batch   int // scenarios per Adaptation instance
}

// Stats of a replay.
type Stats struct {
	Scenarios int     `json:"scenarios"`
	Events    int     `json:"events"`
	Batches   int     `json:"batches"`
	WallS     float64 `json:"wall_s"`
}

// Run replays all scenarios of opts.In and writes the trace to opts.Out.
func Run(opts Options) (*Stats, error) {
	t0 := time.Now()
	scns, err := ReadScenarios(opts.In)
	if err != nil {
		return nil, err
	}
	out, err := rec.NewWriter(opts.Out)
	if err != nil {
		return nil, err
	}
	defer out.Close()
	if opts.Batch <= 0 {
		opts.Batch = 4000
	}
	if opts.Conc <= 0 {
		opts.Conc = 1
	}
	rng := rand.New(rand.NewSource(opts.Seed))
	// group by number of plugins so that every registered plugin has a script
	byNP := map[int][]*Scenario{}
	for _, s := range scns {
		byNP[len(s.Resps)] = append(byNP[len(s.Resps)], s)
	}
	nps := []int{}
	for np := range byNP {
		nps = append(nps, np)
	}
	sort.Ints(nps)
	st := &Stats{}
	for _, np := range nps {
		group := byNP[np]
		for len(group) > 0 {
			n := opts.Batch
			if n > len(group) {
				n = len(group)
			}
			if err := runBatch(group[:n], np, rng, out, opts.Conc, st.Batches%2 == 1); err != nil {
				return nil, err
			}
			st.Batches++
			group = group[n:]
		}
	}
	st.Scenarios = out.Scns
	st.Events = out.Lines()
	st.WallS = time.Since(t0).Seconds()
	return st, nil
}

// twins: the batch number decides whether two neighbouring plugins of the batch carry the same index AND the same name
// (two instances of one plugin program connecting twice). They are two different plugins to the property and to
// Adjust.tla (the ledger's owner is the position), whatever they call themselves; the order in which the adaptation
// invokes two plugins of equal index is not specified, so the driver observes it with a probe and numbers them
// accordingly.
func runBatch(scns []*Scenario, np int, rng *rand.Rand, out *rec.Writer, conc int, twins bool) error {
	r, err := rig.New()
	if err != nil {
		return err
	}
	defer r.Close()
	d := &driver{byID: map[string]*Scenario{}, out: out}
	h := d.handlers()
	// distinct two-digit indices in increasing order of position; registration in random order
	idxs := rng.Perm(100)[:np]
	sort.Ints(idxs)
	d.names = make([]string, np)
	plugins := make([]*rig.Plugin, np)
	twin := -1
	if twins && np >= 2 {
		twin = 1 + rng.Intn(np-1) // position twin is the double of position twin-1
	}
	for _, pos := range rng.Perm(np) {
		idx := fmt.Sprintf("%02d", idxs[pos])
		name := fmt.Sprintf("p%d", pos+1)
		if pos == twin {
			idx, name = fmt.Sprintf("%02d", idxs[pos-1]), fmt.Sprintf("p%d", pos)
		}
		p, err := r.AddPlugin(name, idx, pos, h)
		if err != nil {
			return err
		}
		plugins[pos] = p
		d.names[pos] = p.FullName()
	}
	if err := r.WaitActive(plugins, 10*time.Second); err != nil {
		return err
	}
	if twin > 0 {
		// one more probe with everybody active: who of the two is invoked first?
		if err := r.WaitActive(plugins, 10*time.Second); err != nil {
			return err
		}
		a, b := plugins[twin-1], plugins[twin]
		if a.ProbeSeq.Load() > b.ProbeSeq.Load() {
			a.Pos, b.Pos = twin, twin-1
			plugins[twin-1], plugins[twin] = b, a
		}
	}
	if conc <= 1 {
		for _, s := range scns {
			if err := d.run(r, s, np); err != nil {
				return err
			}
		}
		return nil
	}
	var (
		wg   sync.WaitGroup
		next = make(chan *Scenario)
		errC = make(chan error, conc)
	)
	for i := 0; i < conc; i++ {
		wg.Add(1)
		go func() {
			defer wg.Done()
			for s := range next {
				if err := d.run(r, s, np); err != nil {
					errC <- err
					return
				}
			}
		}()
	}
	for _, s := range scns {
		select {
		case next <- s:
		case err := <-errC:
			close(next)
			wg.Wait()
			return err
		}
	}
	close(next)
	wg.Wait()
	select {
	case err := <-errC:
		return err
	default:
	}
	return nil
}
