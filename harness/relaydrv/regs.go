package relaydrv

import (
	"bufio"
	"context"
	"encoding/json"
	"errors"
	"fmt"
	"math/rand"
	"net"
	"os"
	"path/filepath"
	"strings"
	"sync"
	"syscall"
	"time"

	"github.com/containerd/nri/pkg/adaptation"
	"github.com/containerd/nri/pkg/api"
	"github.com/containerd/nri/pkg/vhook"

	"verif/harness/rawpeer"
	"verif/harness/rec"
	"verif/harness/rig"
)

// RegAttempt is one plugin trying to register (C17).
type RegAttempt struct {
	Name  string `json:"name"`  // ok | empty
	Idx   string `json:"idx"`   // class of the index string
	Mask  string `json:"mask"`  // zero | subset | foreign | high | sign
	Stall string `json:"stall"` // none | noregister | noconfigure
}

// RegScenario is a sequence of attempts served by the sequential accept loop.
type RegScenario struct {
	Attempts []RegAttempt `json:"attempts"`
}

const regTimeout = 400 * time.Millisecond

func idxString(class string, k int) string {
	switch class {
	case "ok":
		return fmt.Sprintf("%02d", 10+k%80)
	case "empty":
		return ""
	case "one":
		return "5"
	case "three":
		return "123"
	case "alpha":
		return "ab"
	case "mixed":
		return "1a"
	case "sign":
		return "-1"
	case "space":
		return " 5"
	case "unicode":
		return "٠٥" // arabic-indic digits 0 and 5
	case "fullwidth":
		return "０５"
	// single characters whose UTF-8 encoding is two bytes long
	case "arabic1":
		return "٧" // U+0667, a decimal digit
	case "persian1":
		return "۵" // U+06F5, a decimal digit
	case "nko1":
		return "߃" // U+07C3, a decimal digit
	case "latin1":
		return "é"
	case "plus":
		return "+5"
	case "dot":
		return "5."
	case "hex":
		return "0x"
	case "exp":
		return "1e"
	case "newline":
		return "5\n"
	}
	return class
}

func maskValue(class string) int32 {
	switch class {
	case "zero":
		return 0
	case "subset":
		return int32(1<<3 | 1<<5 | 1<<12) // CreateContainer, StartContainer, PostUpdatePodSandbox
	case "all":
		return int32(api.ValidEvents)
	case "foreign":
		return int32(1<<3 | 1<<13)
	case "high":
		return int32(1 << 20)
	case "sign":
		return int32(-1 << 31)
	case "cfgerror":
		return -1 // no mask at all: the plugin answers Configure with an error (and keeps its connection open)
	}
	return 0
}

func (s *session) regRun(w *rec.Writer, sc RegScenario) error {
	s.log = &rec.Buf{}
	s.finished = map[string]bool{}
	s.ev("Begin", "plugins", len(sc.Attempts), "callers", 1, "timeout_ms", int(regTimeout.Milliseconds()))
	// a plugin that registers late: the two timeouts are told apart by making the request timeout the longer one and
	// registering between the two (the registration timeout is the one that counts)
	late := false
	for _, a := range sc.Attempts {
		late = late || a.Stall == "lateregister"
	}
	if late {
		adaptation.SetPluginRequestTimeout(5 * regTimeout)
		defer adaptation.SetPluginRequestTimeout(regTimeout)
	}
	r, err := rig.New()
	if err != nil {
		return err
	}
	defer r.Close()
	s.installSync(r)
	vhook.Set(s.hook)
	defer vhook.Set(nil)

	var (
		peers []*rawpeer.Plugin
		mu    sync.Mutex
		block = make(chan struct{})
	)
	defer func() {
		close(block)
		for _, p := range peers {
			p.Close()
		}
	}()
	t0 := time.Now()
	type started struct {
		full string
		wf   bool
	}
	var all []started
	for k, a := range sc.Attempts {
		base := fmt.Sprintf("g%dk%d", s.run, k)
		if a.Name == "empty" {
			base = ""
		}
		idx := idxString(a.Idx, k)
		full := idx + "-" + base
		mask := maskValue(a.Mask)
		s.conf.Store(full, pconf{name: full, idx: 10 + k%80, mask: api.EventMask(mask)})
		s.ev("reg.attempt", "p", full, "name", base, "idx", idx, "mask", int(mask), "stall", a.Stall, "k", k)
		ph := &rawpeer.Handlers{
			Configure: func(*api.ConfigureRequest) (*api.ConfigureResponse, error) {
				if a.Stall == "noconfigure" {
					<-block
				}
				if a.Mask == "cfgerror" {
					return nil, errors.New("verif: the plugin rejects its configuration")
				}
				return &api.ConfigureResponse{Events: mask}, nil
			},
			Synchronize: func(q *api.SynchronizeRequest) (*api.SynchronizeResponse, error) {
				s.ev("recv.sync", "p", full, "ids", ctrIDs(q.Containers))
				return &api.SynchronizeResponse{}, nil
			},
			Create: func(_ context.Context, q *api.CreateContainerRequest) (*api.CreateContainerResponse, error) {
				s.ev("recv", "p", full, "req", q.GetPod().GetId(), "event", "CreateContainer", "ctr", q.GetContainer().GetId())
				a := &api.ContainerAdjustment{}
				a.AddAnnotation("tag/"+full, q.GetPod().GetId())
				return &api.CreateContainerResponse{Adjust: a}, nil
			},
			StateChange: func(_ context.Context, e *api.StateChangeEvent) error {
				if e.GetPod().GetId() != rig.ProbePod {
					s.ev("recv", "p", full, "req", e.GetPod().GetId(), "event", stateChangeNames[e.Event], "ctr", e.GetContainer().GetId())
				}
				return nil
			},
		}
		p, err := rawpeer.Connect(r.Socket, base, idx, ph)
		if err != nil {
			return err
		}
		mu.Lock()
		peers = append(peers, p)
		mu.Unlock()
		if a.Stall != "noregister" {
			go func() {
				if a.Stall == "lateregister" {
					time.Sleep(regTimeout + 600*time.Millisecond)
				}
				err := p.Register(3 * time.Second)
				s.ev("reg.result", "p", full, "err", err != nil)
			}()
		}
		all = append(all, started{full, false})
	}
	// give the sequential accept loop the time the specification allows: one timeout per attempt plus slack
	budget := time.Duration(len(sc.Attempts))*regTimeout + 2*time.Second
	deadline := t0.Add(budget)
	for time.Now().Before(deadline) {
		// done as soon as every attempt has either finished its sync or cannot any more
		s.fmu.Lock()
		n := len(s.finished)
		s.fmu.Unlock()
		minWait := time.Duration(countStalls(sc))*regTimeout + 50*time.Millisecond
		if late {
			minWait = regTimeout + 1100*time.Millisecond // the late registration and what might follow it have had their time
		}
		if n >= countWellFormed(sc) && time.Since(t0) > minWait {
			break
		}
		time.Sleep(time.Millisecond)
	}
	s.ev("reg.waited", "ms", int(time.Since(t0).Milliseconds()), "budget_ms", int(budget.Milliseconds()))
	// two requests every active plugin subscribed to them must see - and nobody else
	s.timedRequest(r, "c1", fmt.Sprintf("g%d-1", s.run), "CreateContainer", len(sc.Attempts))
	s.timedRequest(r, "c1", fmt.Sprintf("g%d-2", s.run), "StartContainer", len(sc.Attempts))
	s.ev("End", "stuck", []string{}, "hung", []string{})
	vhook.Set(nil)
	return w.WriteScenario(s.log.Events())
}

func wellFormed(a RegAttempt) bool {
	return a.Name == "ok" && a.Idx == "ok" && (a.Mask == "zero" || a.Mask == "subset" || a.Mask == "all") && a.Stall == "none"
}

func countWellFormed(sc RegScenario) int {
	n := 0
	for _, a := range sc.Attempts {
		if wellFormed(a) {
			n++
		}
	}
	return n
}

func countStalls(sc RegScenario) int {
	n := 0
	for _, a := range sc.Attempts {
		if a.Stall != "none" {
			n++
		}
	}
	return n
}

// socketChecks records how the socket is served for several umasks and with
// external connections disabled.
func (s *session) socketRun(w *rec.Writer) error {
	s.log = &rec.Buf{}
	s.ev("Begin", "plugins", 0, "callers", 0, "timeout_ms", int(regTimeout.Milliseconds()))
	for _, um := range []int{0, 0o022, 0o077, 0o007} {
		for _, mode := range []string{"enabled", "disabled-last", "disabled-first"} {
			disabled := mode != "enabled"
			root, err := os.MkdirTemp("", "vsock")
			if err != nil {
				return err
			}
			sock := filepath.Join(root, "a", "b", "c", "nri.sock")
			opts := []adaptation.Option{
				adaptation.WithSocketPath(sock),
				adaptation.WithPluginPath(filepath.Join(root, "plugins")),
				adaptation.WithPluginConfigPath(filepath.Join(root, "conf")),
			}
			// the options are independent of each other: their order must not matter
			switch mode {
			case "disabled-last":
				opts = append(opts, adaptation.WithDisabledExternalConnections())
			case "disabled-first":
				opts = append([]adaptation.Option{adaptation.WithDisabledExternalConnections()}, opts...)
			}
			ad, err := adaptation.New("verif", "1", func(ctx context.Context, cb adaptation.SyncCB) error {
				_, e := cb(ctx, nil, nil)
				return e
			}, func(context.Context, []*api.ContainerUpdate) ([]*api.ContainerUpdate, error) { return nil, nil }, opts...)
			if err != nil {
				os.RemoveAll(root)
				return err
			}
			old := syscall.Umask(um)
			err = ad.Start()
			syscall.Umask(old)
			if err != nil {
				os.RemoveAll(root)
				return err
			}
			modes := []int{}
			for _, d := range []string{"a", "a/b", "a/b/c"} {
				if fi, err := os.Stat(filepath.Join(root, d)); err == nil {
					modes = append(modes, int(fi.Mode().Perm()))
				}
			}
			_, statErr := os.Stat(sock)
			c, dialErr := net.DialTimeout("unix", sock, 500*time.Millisecond)
			if c != nil {
				c.Close()
			}
			s.ev("socket.check", "umask", um, "disabled", disabled, "options", mode, "modes", modes, "exists", statErr == nil, "dial_ok", dialErr == nil)
			ad.Stop()
			os.RemoveAll(root)
		}
	}
	s.ev("End", "stuck", []string{}, "hung", []string{})
	return w.WriteScenario(s.log.Events())
}

// RunRegs replays registration scenarios (ndjson) and the socket checks.
func RunRegs(in, out string, seed int64) (int, error) {
	f, err := os.Open(in)
	if err != nil {
		return 0, err
	}
	defer f.Close()
	w, err := rec.NewWriter(out)
	if err != nil {
		return 0, err
	}
	defer w.Close()
	adaptation.SetPluginRegistrationTimeout(regTimeout)
	adaptation.SetPluginRequestTimeout(regTimeout)
	s := &session{o: Options{}, rng: rand.New(rand.NewSource(seed))}
	s.run = 0
	if err := s.socketRun(w); err != nil {
		return 0, err
	}
	sc := bufio.NewScanner(f)
	sc.Buffer(make([]byte, 1<<20), 1<<24)
	n := 0
	for sc.Scan() {
		line := strings.TrimSpace(sc.Text())
		if line == "" {
			continue
		}
		var rs RegScenario
		if err := json.Unmarshal([]byte(line), &rs); err != nil {
			return 0, err
		}
		n++
		s.run = n
		if err := s.regRun(w, rs); err != nil {
			return 0, fmt.Errorf("scenario %d: %w", n, err)
		}
	}
	return w.Lines(), sc.Err()
}
