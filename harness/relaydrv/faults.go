package relaydrv

import (
	"bufio"
	"context"
	"encoding/json"
	"fmt"
	"math/rand"
	"os"
	"runtime"
	"strings"
	"time"

	"github.com/containerd/nri/pkg/adaptation"
	"github.com/containerd/nri/pkg/api"
	"github.com/containerd/nri/pkg/vhook"

	"verif/harness/isolate"
	"verif/harness/rawpeer"
	"verif/harness/rec"
	"verif/harness/rig"
)

// FaultScenario places one fault of a plugin relative to a request (C07).
type FaultScenario struct {
	Pos   int    `json:"pos"`   // position of the faulty plugin in the chain (0..2)
	Req   string `json:"req"`   // request kind
	Fault string `json:"fault"` // none | close-before | cut-request | close-during | cut-response | hang | hang-ctx | handler-error | close-after | garbage
	K     int    `json:"k"`     // byte offset for the cut faults
}

const faultTimeout = 300 * time.Millisecond

// within runs f and reports whether it returned in time (it keeps running otherwise).
func within(d time.Duration, f func()) bool {
	done := make(chan struct{})
	go func() { f(); close(done) }()
	select {
	case <-done:
		return true
	case <-time.After(d):
		return false
	}
}

func (s *session) waitFinished(names []string, d time.Duration) []string {
	deadline := time.Now().Add(d)
	for {
		missing := []string{}
		s.fmu.Lock()
		for _, n := range names {
			if !s.finished[n] {
				missing = append(missing, n)
			}
		}
		s.fmu.Unlock()
		if len(missing) == 0 || time.Now().After(deadline) {
			return missing
		}
		time.Sleep(100 * time.Microsecond)
	}
}

// issue one request of the given kind and log call/ret (with latency and a hang watchdog)
func (s *session) timedRequest(r *rig.Rig, c, id, ev string, np int) (hung bool) {
	ctr := "x-" + id
	pod := &api.PodSandbox{Id: id, Name: "pod"}
	cont := &api.Container{Id: ctr, PodSandboxId: id, Name: "ctr"}
	s.ev("call", "c", c, "req", id, "event", ev, "ctr", ctr)
	type res struct {
		err  error
		tags []string
	}
	done := make(chan res, 1)
	t0 := time.Now()
	go func() {
		ctx := context.Background()
		if s.callerDeadline {
			var cancel context.CancelFunc
			ctx, cancel = context.WithTimeout(ctx, 60*time.Second)
			defer cancel()
		}
		var (
			err  error
			tags = []string{}
		)
		switch ev {
		case "CreateContainer":
			var rpl *api.CreateContainerResponse
			rpl, err = r.Ad.CreateContainer(ctx, &api.CreateContainerRequest{Pod: pod, Container: cont})
			if rpl != nil { // (a result handed back together with an error is recorded as well: there must be none)
				tags = tagsOfAdjust(rpl.Adjust)
			}
		case "UpdateContainer":
			var rpl *api.UpdateContainerResponse
			rpl, err = r.Ad.UpdateContainer(ctx, &api.UpdateContainerRequest{Pod: pod, Container: cont, LinuxResources: &api.LinuxResources{}})
			if rpl != nil {
				tags = tagsOfUpdates(rpl.Update)
			}
		case "StopContainer":
			var rpl *api.StopContainerResponse
			rpl, err = r.Ad.StopContainer(ctx, &api.StopContainerRequest{Pod: pod, Container: cont})
			if rpl != nil {
				tags = tagsOfUpdates(rpl.Update)
			}
		case "UpdatePodSandbox":
			_, err = r.Ad.UpdatePodSandbox(ctx, &api.UpdatePodSandboxRequest{Pod: pod})
		case "StartContainer":
			err = r.Ad.StartContainer(ctx, &api.StateChangeEvent{Pod: pod, Container: cont})
		case "RunPodSandbox":
			err = r.Ad.RunPodSandbox(ctx, &api.StateChangeEvent{Pod: pod})
		case "RemoveContainer":
			err = r.Ad.RemoveContainer(ctx, &api.StateChangeEvent{Pod: pod, Container: cont})
		case "RemovePodSandbox":
			err = r.Ad.RemovePodSandbox(ctx, &api.StateChangeEvent{Pod: pod})
		case "StopPodSandbox":
			err = r.Ad.StopPodSandbox(ctx, &api.StateChangeEvent{Pod: pod})
		case "PostCreateContainer":
			err = r.Ad.PostCreateContainer(ctx, &api.StateChangeEvent{Pod: pod, Container: cont})
		default:
			err = fmt.Errorf("driver: unsupported request kind %s", ev)
		}
		done <- res{err, tags}
	}()
	watchdog := time.Duration(np)*faultTimeout*8 + 2*time.Second
	select {
	case x := <-done:
		ms := time.Since(t0).Milliseconds()
		et := ""
		if x.err != nil {
			et = x.err.Error()
		}
		s.ev("ret", "c", c, "req", id, "event", ev, "err", x.err != nil, "errtext", et,
			"veto", x.err != nil && (strings.Contains(et, errVeto.Error()) || (s.vetoText != "" && strings.Contains(et, s.vetoText))),
			"tags", x.tags, "ms", int(ms), "hung", false)
	case <-time.After(watchdog):
		s.ev("ret", "c", c, "req", id, "event", ev, "err", true, "errtext", "watchdog: request did not return",
			"veto", false, "tags", []string{}, "ms", int(watchdog.Milliseconds()), "hung", true)
		return true
	}
	return false
}

func (s *session) faultRun(r *rig.Rig, w *rec.Writer, sc FaultScenario) error {
	s.log = &rec.Buf{}
	s.finished = map[string]bool{}
	const np = 3
	s.ev("Begin", "plugins", np, "callers", 1, "timeout_ms", int(faultTimeout.Milliseconds()), "fault", sc.Fault,
		"pos", sc.Pos, "k", sc.K, "kind", sc.Req)
	vhook.Set(s.hook)
	defer vhook.Set(nil)

	h := s.handlers()
	var (
		peer  *rawpeer.Plugin
		stubs []*rig.Plugin
		names []string
	)
	peerName := ""
	tagAdj := func(id string) *api.ContainerAdjustment {
		a := &api.ContainerAdjustment{}
		a.AddAnnotation("tag/"+peerName, id)
		return a
	}
	tagUpd := func(id string) []*api.ContainerUpdate {
		u := &api.ContainerUpdate{ContainerId: "u/" + id + "/" + peerName}
		u.SetLinuxCPUShares(7)
		return []*api.ContainerUpdate{u}
	}
	first := true // the fault is placed in the first request only
	// behave decides what the faulty peer does inside a handler; it returns an error to veto
	behave := func(ctx context.Context, id, ev, ctr string) error {
		s.ev("recv", "p", peerName, "req", id, "event", ev, "ctr", ctr)
		if !first {
			return nil
		}
		first = false
		switch sc.Fault {
		case "close-during":
			peer.Cut.Close()
		case "cut-response":
			peer.Cut.CutAfterWrite(int64(sc.K))
		case "hang":
			time.Sleep(3 * faultTimeout)
		case "hang-ctx":
			select {
			case <-ctx.Done():
			case <-time.After(6 * faultTimeout):
			}
		case "handler-error":
			s.ev("reply", "p", peerName, "req", id, "veto", true)
			return fmt.Errorf("%w (%s/%s)", errVeto, peerName, id)
		case "handler-error-deadline":
			// a deliberate handler error that happens to be a deadline error of the plugin's own (it answers at once)
			s.ev("reply", "p", peerName, "req", id, "veto", true)
			return context.DeadlineExceeded
		case "close-after":
			go func() {
				time.Sleep(300 * time.Microsecond)
				peer.Cut.Close()
			}()
		case "garbage":
			peer.WriteGarbage()
		case "wrong-frame":
			// a well-formed ttrpc frame of the wrong type (data instead of response) on the stream of this call
			peer.WriteDataFrames()
			time.Sleep(3 * faultTimeout)
		}
		return nil
	}
	ph := &rawpeer.Handlers{
		Create: func(ctx context.Context, q *api.CreateContainerRequest) (*api.CreateContainerResponse, error) {
			if err := behave(ctx, q.GetPod().GetId(), "CreateContainer", q.GetContainer().GetId()); err != nil {
				return nil, err
			}
			return &api.CreateContainerResponse{Adjust: tagAdj(q.GetPod().GetId())}, nil
		},
		Update: func(ctx context.Context, q *api.UpdateContainerRequest) (*api.UpdateContainerResponse, error) {
			if err := behave(ctx, q.GetPod().GetId(), "UpdateContainer", q.GetContainer().GetId()); err != nil {
				return nil, err
			}
			return &api.UpdateContainerResponse{Update: tagUpd(q.GetPod().GetId())}, nil
		},
		Stop: func(ctx context.Context, q *api.StopContainerRequest) (*api.StopContainerResponse, error) {
			if err := behave(ctx, q.GetPod().GetId(), "StopContainer", q.GetContainer().GetId()); err != nil {
				return nil, err
			}
			return &api.StopContainerResponse{Update: tagUpd(q.GetPod().GetId())}, nil
		},
		UpdatePod: func(ctx context.Context, q *api.UpdatePodSandboxRequest) (*api.UpdatePodSandboxResponse, error) {
			if err := behave(ctx, q.GetPod().GetId(), "UpdatePodSandbox", ""); err != nil {
				return nil, err
			}
			return &api.UpdatePodSandboxResponse{}, nil
		},
		StateChange: func(ctx context.Context, e *api.StateChangeEvent) error {
			if e.GetPod().GetId() == rig.ProbePod {
				return nil
			}
			return behave(ctx, e.GetPod().GetId(), stateChangeNames[e.Event], e.GetContainer().GetId())
		},
		Synchronize: func(q *api.SynchronizeRequest) (*api.SynchronizeResponse, error) {
			s.ev("recv.sync", "p", peerName, "ids", ctrIDs(q.Containers))
			return &api.SynchronizeResponse{}, nil
		},
	}
	defer func() {
		cleanup := func() {
			for _, p := range stubs {
				p.Stub.Stop()
			}
			if peer != nil {
				peer.Close()
			}
		}
		// the peers run the code under test as well: a teardown that does not return is abandoned
		if s.wedged {
			go cleanup()
		} else if !within(3*time.Second, cleanup) {
			s.wedged = true
		}
	}()
	for pos := 0; pos < np; pos++ {
		idx := 10 * (pos + 1)
		name := fmt.Sprintf("f%dp%d", s.run, pos+1)
		full := fmt.Sprintf("%02d-%s", idx, name)
		s.conf.Store(full, pconf{name: full, idx: idx, mask: 0})
		names = append(names, full)
		if pos == sc.Pos {
			peerName = full
			p, err := rawpeer.Connect(r.Socket, name, fmt.Sprintf("%02d", idx), ph)
			if err != nil {
				return err
			}
			peer = p
			if err := p.Register(20 * time.Second); err != nil {
				return fmt.Errorf("raw peer registration: %w", err)
			}
		} else {
			p, err := r.AddPluginMask(name, fmt.Sprintf("%02d", idx), pos, 0, h)
			if err != nil {
				return err
			}
			stubs = append(stubs, p)
		}
		if miss := s.waitFinished([]string{full}, 20*time.Second); len(miss) > 0 {
			buf := make([]byte, 1<<20)
			n := runtime.Stack(buf, true)
			os.Stderr.Write(buf[:n])
			return fmt.Errorf("plugin %s did not finish registration", full)
		}
	}
	// place the faults that precede the request
	if sc.Fault != "none" && sc.Fault != "handler-error" && sc.Fault != "handler-error-deadline" {
		s.ev("leaving", "p", peerName) // from here on the peer is a plugin that fails
	}
	s.vetoText = ""
	if sc.Fault == "handler-error-deadline" {
		s.vetoText = "context deadline exceeded"
	}
	// every other scenario: the runtime's caller brings a (long) deadline of its own, as a CRI server does
	s.callerDeadline = s.run%2 == 0
	switch sc.Fault {
	case "close-before":
		peer.Cut.Close()
		time.Sleep(2 * time.Millisecond)
	case "deaf-before":
		// the plugin stops reading (its socket's read side is shut down) without closing anything: the runtime gets no
		// end-of-file, its next write fails with EPIPE - a disconnected plugin all the same
		peer.Cut.GoDeaf()
		time.Sleep(2 * time.Millisecond)
	case "cut-request":
		peer.Cut.CutAfterRead(int64(sc.K))
	}
	if s.timedRequest(r, "c1", fmt.Sprintf("q%d-1", s.run), sc.Req, np) {
		// the adaptation is wedged: record that, leave its teardown to a goroutine that may never finish
		s.ev("End", "stuck", []string{}, "hung", []string{}, "peer_read", 0, "peer_written", 0, "faulty", peerName, "fired", false)
		vhook.Set(nil)
		s.wedged = true
		return w.WriteScenario(s.log.Events())
	}
	// a second request: the dropped plugin must not be reached any more, the others must be
	s.timedRequest(r, "c1", fmt.Sprintf("q%d-2", s.run), sc.Req, np)
	rd, wr := peer.Cut.Counts()
	// did the fault actually happen (a cut placed beyond the traffic never fires)?
	fired := false
	switch sc.Fault {
	case "none", "handler-error", "handler-error-deadline":
	case "hang-ctx":
		// the handler gives up exactly at the deadline the runtime set: its answer may still make it in time
	case "cut-request", "cut-response":
		fired = peer.Cut.IsCut()
	default:
		fired = true
	}
	if fired {
		// the runtime notices a lost connection on its own; give the notification time to arrive
		for t0 := time.Now(); time.Since(t0) < 5*time.Second; time.Sleep(200 * time.Microsecond) {
			if _, ok := s.closedSeen.Load(peerName); ok {
				break
			}
		}
	}
	s.ev("End", "stuck", []string{}, "hung", []string{}, "peer_read", int(rd), "peer_written", int(wr), "faulty", peerName, "fired", fired)
	vhook.Set(nil)
	return w.WriteScenario(s.log.Events())
}

// RunFaults replays fault scenarios (ndjson) and records one run per scenario.
func RunFaults(in, out string, seed int64, skip int) (int, error) {
	f, err := os.Open(in)
	if err != nil {
		return 0, err
	}
	defer f.Close()
	w, err := rec.NewWriter(out)
	if err != nil {
		return 0, err
	}
	defer w.Close()
	w.Sync = true
	adaptation.SetPluginRequestTimeout(faultTimeout)
	s := &session{o: Options{}, rng: rand.New(rand.NewSource(seed))}
	sc := bufio.NewScanner(f)
	n := 0
	for sc.Scan() {
		line := strings.TrimSpace(sc.Text())
		if line == "" {
			continue
		}
		var fs FaultScenario
		if err := json.Unmarshal([]byte(line), &fs); err != nil {
			return 0, err
		}
		n++
		if n <= skip {
			continue
		}
		s.run = n
		// a fresh adaptation per scenario: nothing lingers from the previous one; a scenario whose set-up
		// fails (a registration timing out on an overloaded machine) is set up again, nothing was recorded yet
		var err error
		done := isolate.Guard(90*time.Second, fmt.Sprintf("fault scenario %d", n))
		for attempt := 0; attempt < 3; attempt++ {
			var r *rig.Rig
			r, err = rig.New()
			if err != nil {
				return 0, err
			}
			s.installSync(r)
			s.wedged = false
			err = s.faultRun(r, w, fs)
			if s.wedged {
				go r.Close()
			} else if !within(5*time.Second, r.Close) {
				s.wedged = true
			}
			if err == nil {
				break
			}
		}
		done()
		if err != nil {
			return 0, fmt.Errorf("scenario %d (%s): %w", n, line, err)
		}
	}
	return w.Lines(), sc.Err()
}
