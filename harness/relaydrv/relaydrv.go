// Package relaydrv records concurrent executions of the real Adaptation:
// runtime goroutines issuing the thirteen lifecycle requests (creations inside
// plugin-sync blocks, with the runtime's own bookkeeping), plugins registering
// and leaving at random times, handler errors, unsolicited updates. Every event
// is appended to one log under one mutex; hook points inside the adaptation
// (build tag verif) contribute the internal linearisation points and perturb
// the schedule. The log is validated by TLC against Relay.tla.
package relaydrv

import (
	"context"
	"errors"
	"fmt"
	"math/rand"
	"os"
	"runtime"
	"sort"
	"strings"
	"sync"
	"sync/atomic"
	"time"

	"github.com/containerd/nri/pkg/adaptation"
	"github.com/containerd/nri/pkg/api"
	"github.com/containerd/nri/pkg/stub"
	"github.com/containerd/nri/pkg/vhook"

	"verif/harness/isolate"
	"verif/harness/rawpeer"
	"verif/harness/rec"
	"verif/harness/rig"
)

// EventNames in bit order of the subscription mask.
var EventNames = []string{
	"RunPodSandbox", "StopPodSandbox", "RemovePodSandbox", "CreateContainer", "PostCreateContainer",
	"StartContainer", "PostStartContainer", "UpdateContainer", "PostUpdateContainer", "StopContainer",
	"RemoveContainer", "UpdatePodSandbox", "PostUpdatePodSandbox",
}

func MaskNames(m api.EventMask) []string {
	out := []string{}
	if m == 0 {
		m = api.ValidEvents
	}
	for i, n := range EventNames {
		if m&(1<<uint(i)) != 0 {
			out = append(out, n)
		}
	}
	return out
}

var stateChangeNames = map[api.Event]string{
	api.Event_RUN_POD_SANDBOX: "RunPodSandbox", api.Event_STOP_POD_SANDBOX: "StopPodSandbox",
	api.Event_REMOVE_POD_SANDBOX: "RemovePodSandbox", api.Event_POST_CREATE_CONTAINER: "PostCreateContainer",
	api.Event_START_CONTAINER: "StartContainer", api.Event_POST_START_CONTAINER: "PostStartContainer",
	api.Event_POST_UPDATE_CONTAINER: "PostUpdateContainer", api.Event_REMOVE_CONTAINER: "RemoveContainer",
	api.Event_POST_UPDATE_POD_SANDBOX: "PostUpdatePodSandbox",
}

// Options of a recording session.
type Options struct {
	Out      string
	Seed     int64
	Runs     int
	Plugins  int  // plugins per run
	Callers  int  // runtime goroutines per run
	Requests int  // requests per caller
	Updates  bool // plugins issue unsolicited updates
	SlowUpd  bool // with Updates: the runtime's callback takes longer than the request timeout for some of them, and some of the plugins that asked are gone before it returns
	Leave    bool // some plugins stop while requests are in flight
	Vetoes   bool // handlers sometimes fail a request deliberately
	NoBlocks bool // negative self-test: the runtime forgets the sync blocks
	AllMasks bool // masks: enumerate instead of random (plugin k of run r gets mask number r*Plugins+k+1)
	MaskBase int
	Skip     int // runs already done by an earlier (crashed) process
}

type pconf struct {
	name string
	idx  int
	mask api.EventMask
}

type session struct {
	o      Options
	rng    *rand.Rand
	rmu    sync.Mutex // protects rng use from many goroutines
	log    *rec.Buf
	run    int
	conf   sync.Map // full plugin name -> pconf
	cfgUpd sync.Map // full plugin name -> issues an update from within Configure
	// runtime bookkeeping
	smu   sync.Mutex
	store []string
	// registration progress
	fmu      sync.Mutex
	finished map[string]bool
	// what each runtime caller is in the middle of (watchdog report)
	phase sync.Map
	// fault sessions: the adaptation of the current scenario is wedged (a request never returned)
	wedged bool
	// fault sessions: what else counts as the text of a deliberate handler error; the caller has a deadline of its own
	vetoText       string
	callerDeadline bool
	// plugins whose connection the runtime has closed (hook plugin.closed)
	closedSeen sync.Map
	// the last (released) sync block of each caller
	prevBlock sync.Map
	// the one unsolicited update of this run that carries no updates at all (0 = not issued yet), and its id
	emptyTaken int32
	emptyUID   atomic.Value
}

// uidOf names an unsolicited update on the runtime's side: its first container id; the run's only empty one by the
// id its issuer announced
func (s *session) uidOf(us []*api.ContainerUpdate) string {
	if len(us) > 0 {
		return us[0].ContainerId
	}
	if v, ok := s.emptyUID.Load().(string); ok {
		return v
	}
	return ""
}

func (s *session) rnd(n int) int {
	s.rmu.Lock()
	defer s.rmu.Unlock()
	return s.rng.Intn(n)
}

func (s *session) ev(name string, kv ...any) {
	e := rec.Event{"ev": name, "scn": s.run}
	for i := 0; i+1 < len(kv); i += 2 {
		e[kv[i].(string)] = kv[i+1]
	}
	s.log.Add(e)
}

func (s *session) perturb() {
	switch x := s.rnd(12); {
	case x < 4:
		runtime.Gosched()
	case x == 4:
		time.Sleep(time.Duration(20+s.rnd(150)) * time.Microsecond)
	}
}

func reqIDOf(req any) (string, string, string) { // id, event, container
	switch r := req.(type) {
	case *api.CreateContainerRequest:
		return r.GetPod().GetId(), "CreateContainer", r.GetContainer().GetId()
	case *api.UpdateContainerRequest:
		return r.GetPod().GetId(), "UpdateContainer", r.GetContainer().GetId()
	case *api.StopContainerRequest:
		return r.GetPod().GetId(), "StopContainer", r.GetContainer().GetId()
	case *api.UpdatePodSandboxRequest:
		return r.GetPod().GetId(), "UpdatePodSandbox", ""
	case *api.StateChangeEvent:
		return r.GetPod().GetId(), stateChangeNames[r.Event], r.GetContainer().GetId()
	}
	return "?", "?", ""
}

func errText(x any) string {
	if e, ok := x.(error); ok && e != nil {
		return e.Error()
	}
	return ""
}

// hook translates hook points of the adaptation into log events.
func (s *session) hook(point string, args ...interface{}) {
	switch point {
	case "adapt.locked":
		op := args[0].(string)
		switch op {
		case "register":
			s.ev("locked", "op", "register", "p", args[1].(string))
		case "UpdateContainers":
			us, _ := args[1].([]*api.ContainerUpdate)
			s.ev("locked", "op", "update", "uid", s.uidOf(us))
		default:
			id, ev, ctr := reqIDOf(args[1])
			if id == rig.ProbePod {
				return
			}
			s.ev("locked", "op", "request", "req", id, "event", ev, "ctr", ctr)
		}
	case "adapt.unlocking":
		op := args[0].(string)
		switch op {
		case "register":
			s.ev("unlocking", "op", "register", "p", args[1].(string))
		case "UpdateContainers":
			s.ev("unlocking", "op", "update")
		default:
			id, _, _ := reqIDOf(args[1])
			if id == rig.ProbePod {
				return
			}
			s.ev("unlocking", "op", "request", "req", id)
		}
	case "sync.request":
		name := args[0].(string)
		c := pconf{}
		if v, ok := s.conf.Load(name); ok {
			c = v.(pconf)
		}
		s.ev("sync.request", "p", name, "idx", c.idx, "mask", MaskNames(c.mask))
	case "sync.exclusive":
		s.ev("sync.exclusive", "p", args[0].(string))
	case "sync.synced":
		s.ev("sync.synced", "p", args[0].(string), "err", errText(args[1]))
	case "sync.activated":
		s.ev("sync.activated", "p", args[0].(string), "order", append([]string{}, args[1].([]string)...))
	case "sync.finish":
		name := args[0].(string)
		s.ev("sync.finish", "p", name)
		s.fmu.Lock()
		s.finished[name] = true
		s.fmu.Unlock()
	case "plugin.closed":
		s.ev("closed", "p", args[0].(string))
		s.closedSeen.Store(args[0].(string), true)
	default:
		return
	}
	s.perturb()
}

func ctrIDs(cs []*api.Container) []string {
	out := []string{}
	for _, c := range cs {
		out = append(out, c.Id)
	}
	sort.Strings(out)
	return out
}

var errVeto = errors.New("verif: deliberate handler error")

func (s *session) handlers() *rig.Handlers {
	veto := func(p *rig.Plugin, id string) error {
		if s.o.Vetoes && s.rnd(25) == 0 {
			s.ev("reply", "p", p.FullName(), "req", id, "veto", true)
			return fmt.Errorf("%w (%s/%s)", errVeto, p.FullName(), id)
		}
		return nil
	}
	return &rig.Handlers{
		Configure: func(p *rig.Plugin, _, _, _ string) (api.EventMask, error) {
			if _, ok := s.cfgUpd.Load(p.FullName()); ok && p.Stub != nil {
				// a registered (not yet configured) plugin issues an unsolicited update
				s.update(p, "cfg", 0)
			}
			return p.Mask, nil
		},
		Sync: func(p *rig.Plugin, pods []*api.PodSandbox, ctrs []*api.Container) ([]*api.ContainerUpdate, error) {
			s.ev("recv.sync", "p", p.FullName(), "ids", ctrIDs(ctrs))
			return nil, nil
		},
		Create: func(p *rig.Plugin, pod *api.PodSandbox, c *api.Container) (*api.ContainerAdjustment, []*api.ContainerUpdate, error) {
			id := pod.GetId()
			s.ev("recv", "p", p.FullName(), "req", id, "event", "CreateContainer", "ctr", c.GetId())
			s.perturb()
			if err := veto(p, id); err != nil {
				return nil, nil, err
			}
			a := &api.ContainerAdjustment{}
			a.AddAnnotation("tag/"+p.FullName(), id)
			return a, nil, nil
		},
		Update: func(p *rig.Plugin, pod *api.PodSandbox, c *api.Container, _ *api.LinuxResources) ([]*api.ContainerUpdate, error) {
			id := pod.GetId()
			s.ev("recv", "p", p.FullName(), "req", id, "event", "UpdateContainer", "ctr", c.GetId())
			s.perturb()
			if err := veto(p, id); err != nil {
				return nil, err
			}
			u := &api.ContainerUpdate{ContainerId: "u/" + id + "/" + p.FullName()}
			u.SetLinuxCPUShares(7)
			return []*api.ContainerUpdate{u}, nil
		},
		Stop: func(p *rig.Plugin, pod *api.PodSandbox, c *api.Container) ([]*api.ContainerUpdate, error) {
			id := pod.GetId()
			s.ev("recv", "p", p.FullName(), "req", id, "event", "StopContainer", "ctr", c.GetId())
			s.perturb()
			if err := veto(p, id); err != nil {
				return nil, err
			}
			u := &api.ContainerUpdate{ContainerId: "u/" + id + "/" + p.FullName()}
			u.SetLinuxCPUShares(7)
			return []*api.ContainerUpdate{u}, nil
		},
		Event: func(p *rig.Plugin, ev string, pod *api.PodSandbox, c *api.Container) error {
			id := pod.GetId()
			s.ev("recv", "p", p.FullName(), "req", id, "event", ev, "ctr", c.GetId())
			s.perturb()
			return veto(p, id)
		},
	}
}

// rawHandlers are the handlers of the stub-less plugin; they log and answer like the stub plugins (no vetoes).
func (s *session) rawHandlers(full string) *rawpeer.Handlers {
	upd := func(id string) []*api.ContainerUpdate {
		u := &api.ContainerUpdate{ContainerId: "u/" + id + "/" + full}
		u.SetLinuxCPUShares(7)
		return []*api.ContainerUpdate{u}
	}
	return &rawpeer.Handlers{
		Synchronize: func(r *api.SynchronizeRequest) (*api.SynchronizeResponse, error) {
			if !r.More {
				s.ev("recv.sync", "p", full, "ids", ctrIDs(r.Containers))
			}
			return &api.SynchronizeResponse{More: r.More}, nil
		},
		Create: func(_ context.Context, r *api.CreateContainerRequest) (*api.CreateContainerResponse, error) {
			id := r.GetPod().GetId()
			s.ev("recv", "p", full, "req", id, "event", "CreateContainer", "ctr", r.GetContainer().GetId())
			s.perturb()
			a := &api.ContainerAdjustment{}
			a.AddAnnotation("tag/"+full, id)
			return &api.CreateContainerResponse{Adjust: a}, nil
		},
		Update: func(_ context.Context, r *api.UpdateContainerRequest) (*api.UpdateContainerResponse, error) {
			id := r.GetPod().GetId()
			s.ev("recv", "p", full, "req", id, "event", "UpdateContainer", "ctr", r.GetContainer().GetId())
			s.perturb()
			return &api.UpdateContainerResponse{Update: upd(id)}, nil
		},
		Stop: func(_ context.Context, r *api.StopContainerRequest) (*api.StopContainerResponse, error) {
			id := r.GetPod().GetId()
			s.ev("recv", "p", full, "req", id, "event", "StopContainer", "ctr", r.GetContainer().GetId())
			s.perturb()
			return &api.StopContainerResponse{Update: upd(id)}, nil
		},
		UpdatePod: func(_ context.Context, r *api.UpdatePodSandboxRequest) (*api.UpdatePodSandboxResponse, error) {
			id := r.GetPod().GetId()
			s.ev("recv", "p", full, "req", id, "event", "UpdatePodSandbox", "ctr", "")
			s.perturb()
			return &api.UpdatePodSandboxResponse{}, nil
		},
		StateChange: func(_ context.Context, e *api.StateChangeEvent) error {
			id := e.GetPod().GetId()
			if id == rig.ProbePod {
				return nil
			}
			s.ev("recv", "p", full, "req", id, "event", stateChangeNames[e.Event], "ctr", e.GetContainer().GetId())
			s.perturb()
			return nil
		},
	}
}

const slowTimeout = 700 * time.Millisecond

// update issues one unsolicited update from plugin p and logs call and return (with a watchdog); it reports whether
// the plugin stopped itself while the update was under way (it issues nothing afterwards)
func (s *session) update(p *rig.Plugin, tag string, i int) bool {
	full := p.FullName()
	kind := []string{"ok", "part", "err"}[s.rnd(3)]
	gone := false
	if s.o.SlowUpd && tag == "u" && s.rnd(2) == 0 {
		kind = "slow-" + []string{"part", "err"}[s.rnd(2)]
		gone = s.rnd(2) == 0
	}
	uid := fmt.Sprintf("upd%d-%s-%s%d-%s", s.run, p.Name, tag, i, kind)
	us := []*api.ContainerUpdate{{ContainerId: uid}, {ContainerId: uid + "/2"}}
	us[0].SetLinuxCPUShares(uint64(100 + i))
	us[1].IgnoreFailure = true // whatever its flags, what the callback reports as failed goes back unchanged
	ids := []string{uid, uid + "/2"}
	if tag == "u" && atomic.CompareAndSwapInt32(&s.emptyTaken, 0, 1) {
		// once per run: a request without any update in it (nil / empty list) - it reaches the callback all the same
		uid = fmt.Sprintf("upd%d-%s-%s%d-empty-%s", s.run, p.Name, tag, i, []string{"ok", "err"}[s.rnd(2)])
		s.emptyUID.Store(uid)
		us, ids = nil, []string{}
		if s.run%2 == 0 {
			us = []*api.ContainerUpdate{}
		}
	}
	if strings.Contains(uid, "-empty-") {
		gone = false
	}
	s.ev("upd.call", "p", full, "uid", uid, "ids", ids)
	if gone {
		// the plugin goes away while the runtime's callback is still working on its update: the callback finishes
		// under the lock all the same; what the plugin is told is its own affair (gone: not compared)
		go func() {
			time.Sleep(300 * time.Millisecond)
			s.ev("leaving", "p", full)
			p.Stub.Stop()
		}()
	}
	type res struct {
		failed []*api.ContainerUpdate
		err    error
	}
	done := make(chan res, 1)
	go func() {
		f, e := p.Stub.UpdateContainers(us)
		done <- res{f, e}
	}()
	select {
	case x := <-done:
		fids := []string{}
		for _, u := range x.failed {
			fids = append(fids, u.ContainerId)
		}
		et := ""
		if x.err != nil {
			et = x.err.Error()
		}
		s.ev("upd.ret", "p", full, "uid", uid, "ids", ids, "failed", fids, "err", x.err != nil, "errtext", et, "hung", false, "gone", gone)
	case <-time.After(4*time.Second + 4*slowTimeout):
		s.ev("upd.ret", "p", full, "uid", uid, "ids", ids, "failed", []string{}, "err", true, "errtext", "watchdog: update did not return", "hung", true, "gone", gone)
	}
	if gone {
		time.Sleep(slowTimeout + 700*time.Millisecond) // the callback has returned before the run may end
	}
	return gone
}

func tagsOfAdjust(a *api.ContainerAdjustment) []string {
	out := []string{}
	for k, v := range a.GetAnnotations() {
		if strings.HasPrefix(k, "tag/") {
			out = append(out, strings.TrimPrefix(k, "tag/")+"="+v)
		} else {
			out = append(out, "?"+k+"="+v)
		}
	}
	sort.Strings(out)
	return out
}

func tagsOfUpdates(us []*api.ContainerUpdate) []string {
	out := []string{}
	for _, u := range us {
		if u == nil {
			continue // placeholder for the request's own container
		}
		if strings.HasPrefix(u.ContainerId, "u/") {
			p := strings.SplitN(strings.TrimPrefix(u.ContainerId, "u/"), "/", 2)
			if len(p) == 2 {
				out = append(out, p[1]+"="+p[0])
				continue
			}
		}
		out = append(out, "?"+u.ContainerId)
	}
	sort.Strings(out)
	return out
}

// one request of a runtime goroutine
// request issues one runtime request; it returns a function that reads the reply the caller got once more
// (the reply belongs to the caller: it must not change when later requests are processed)
func (s *session) request(r *rig.Rig, c string, n int) (recheck func()) {
	ctx := context.Background()
	id := fmt.Sprintf("r%d-%s-%d", s.run, c, n)
	ev := EventNames[s.rnd(len(EventNames))]
	if s.rnd(3) == 0 {
		ev = "CreateContainer"
	}
	ctr := fmt.Sprintf("x%d-%s-%d", s.run, c, n)
	pod := &api.PodSandbox{Id: id, Name: "pod"}
	cont := &api.Container{Id: ctr, PodSandboxId: id, Name: "ctr"}
	var (
		err   error
		tags  = []string{}
		block *adaptation.PluginSyncBlock
		again func() []string
	)
	defer func() {
		if again != nil {
			first := append([]string{}, tags...)
			recheck = func() { s.ev("recheck", "c", c, "req", id, "tags", first, "tags2", again()) }
		}
	}()
	s.ev("call", "c", c, "req", id, "event", ev, "ctr", ctr)
	t0 := time.Now()
	if ev == "CreateContainer" && !s.o.NoBlocks {
		s.phase.Store(c, "BlockPluginSync")
		block = r.Ad.BlockPluginSync()
		s.ev("block.acquired", "c", c, "req", id)
		s.perturb()
		// Unblock is documented to be idempotent: releasing an already released block again - while this
		// caller (and possibly others) hold newer blocks - must change nothing
		if old, ok := s.prevBlock.Load(c); ok && s.rnd(2) == 0 {
			s.ev("block.unblock.again", "c", c, "req", id)
			old.(*adaptation.PluginSyncBlock).Unblock()
			s.perturb()
		}
	}
	s.phase.Store(c, ev)
	defer s.phase.Delete(c)
	switch ev {
	case "CreateContainer":
		var rpl *api.CreateContainerResponse
		rpl, err = r.Ad.CreateContainer(ctx, &api.CreateContainerRequest{Pod: pod, Container: cont})
		if rpl != nil { // (a result handed back together with an error is recorded as well: there must be none)
			tags = tagsOfAdjust(rpl.Adjust)
			again = func() []string { return tagsOfAdjust(rpl.Adjust) }
		}
	case "UpdateContainer":
		var rpl *api.UpdateContainerResponse
		rpl, err = r.Ad.UpdateContainer(ctx, &api.UpdateContainerRequest{Pod: pod, Container: cont, LinuxResources: &api.LinuxResources{}})
		if rpl != nil {
			tags = tagsOfUpdates(rpl.Update)
			again = func() []string { return tagsOfUpdates(rpl.Update) }
		}
	case "StopContainer":
		var rpl *api.StopContainerResponse
		rpl, err = r.Ad.StopContainer(ctx, &api.StopContainerRequest{Pod: pod, Container: cont})
		if rpl != nil {
			tags = tagsOfUpdates(rpl.Update)
			again = func() []string { return tagsOfUpdates(rpl.Update) }
		}
	case "UpdatePodSandbox":
		_, err = r.Ad.UpdatePodSandbox(ctx, &api.UpdatePodSandboxRequest{Pod: pod})
	case "RunPodSandbox":
		err = r.Ad.RunPodSandbox(ctx, &api.StateChangeEvent{Pod: pod})
	case "StopPodSandbox":
		err = r.Ad.StopPodSandbox(ctx, &api.StateChangeEvent{Pod: pod})
	case "RemovePodSandbox":
		err = r.Ad.RemovePodSandbox(ctx, &api.StateChangeEvent{Pod: pod})
	case "PostUpdatePodSandbox":
		err = r.Ad.PostUpdatePodSandbox(ctx, &api.StateChangeEvent{Pod: pod})
	case "PostCreateContainer":
		err = r.Ad.PostCreateContainer(ctx, &api.StateChangeEvent{Pod: pod, Container: cont})
	case "StartContainer":
		err = r.Ad.StartContainer(ctx, &api.StateChangeEvent{Pod: pod, Container: cont})
	case "PostStartContainer":
		err = r.Ad.PostStartContainer(ctx, &api.StateChangeEvent{Pod: pod, Container: cont})
	case "PostUpdateContainer":
		err = r.Ad.PostUpdateContainer(ctx, &api.StateChangeEvent{Pod: pod, Container: cont})
	case "RemoveContainer":
		err = r.Ad.RemoveContainer(ctx, &api.StateChangeEvent{Pod: pod, Container: cont})
	}
	et := ""
	if err != nil {
		et = err.Error()
	}
	s.ev("ret", "c", c, "req", id, "event", ev, "err", err != nil, "errtext", et,
		"veto", err != nil && strings.Contains(et, errVeto.Error()), "tags", tags,
		"ms", int(time.Since(t0).Milliseconds()), "hung", false)
	if ev == "CreateContainer" {
		if err == nil {
			s.perturb()
			s.smu.Lock()
			s.store = append(s.store, ctr)
			s.ev("store.add", "x", ctr)
			s.smu.Unlock()
		}
		if block != nil {
			s.ev("block.releasing", "c", c, "req", id)
			block.Unblock()
			s.prevBlock.Store(c, block)
		}
	}
	return nil // set by the deferred function when there is a reply to re-read
}

// installSync makes the runtime hand out its own store and log the snapshot
func (s *session) installSync(r *rig.Rig) {
	r.SyncOverride = func(ctx context.Context, cb adaptation.SyncCB) error {
		s.smu.Lock()
		ids := append([]string{}, s.store...)
		sort.Strings(ids)
		s.ev("snapshot", "ids", ids)
		s.smu.Unlock()
		s.perturb()
		ctrs := []*api.Container{}
		for _, id := range ids {
			ctrs = append(ctrs, &api.Container{Id: id, Name: "ctr"})
		}
		_, err := cb(ctx, nil, ctrs)
		return err
	}
}

func (s *session) oneRun(w *rec.Writer) error {
	s.log = &rec.Buf{}
	s.store = nil
	s.phase = sync.Map{}
	s.prevBlock = sync.Map{}
	s.finished = map[string]bool{}
	s.conf = sync.Map{}
	s.cfgUpd = sync.Map{}
	o := s.o
	s.ev("Begin", "plugins", o.Plugins, "callers", o.Callers, "timeout_ms", 2000)
	if o.SlowUpd {
		// the stubs learn the request timeout when they are configured; an unsolicited update is not a request to a
		// plugin and has no deadline of its own
		adaptation.SetPluginRequestTimeout(slowTimeout)
		defer adaptation.SetPluginRequestTimeout(adaptation.DefaultPluginRequestTimeout)
	}
	// every other run the runtime holds a sync block from before Start() until a little into the run: a block is a
	// block whenever it was taken - nobody is synchronized while it is held
	var early *adaptation.PluginSyncBlock
	earlyID := fmt.Sprintf("early%d", s.run)
	if s.run%2 == 0 && !o.NoBlocks {
		rig.BeforeStart = func(ad *adaptation.Adaptation) {
			early = ad.BlockPluginSync()
			s.ev("block.acquired", "c", 0, "req", earlyID)
		}
	}
	r, err := rig.New()
	rig.BeforeStart = nil
	if err != nil {
		return err
	}
	wedged := false
	defer func() {
		if wedged {
			go r.Close() // may never return
		} else {
			r.Close()
		}
	}()
	s.installSync(r)
	updSeen := map[string]int{}
	var umu sync.Mutex
	r.OnUpd = func(_ context.Context, us []*api.ContainerUpdate) ([]*api.ContainerUpdate, error) {
		uid := s.uidOf(us)
		ids := []string{}
		for _, u := range us {
			ids = append(ids, u.ContainerId)
		}
		s.ev("updatefn.enter", "uid", uid, "ids", ids)
		s.perturb()
		if strings.Contains(uid, "-slow-") {
			time.Sleep(slowTimeout + 400*time.Millisecond)
		}
		umu.Lock()
		updSeen[uid]++
		umu.Unlock()
		var failed []*api.ContainerUpdate
		var e error
		switch {
		case strings.HasSuffix(uid, "-err"):
			e = errors.New("verif: update callback failed " + uid)
		case strings.HasSuffix(uid, "-part") && len(us) > 1:
			failed = us[1:]
		}
		fids := []string{}
		for _, u := range failed {
			fids = append(fids, u.ContainerId)
		}
		s.ev("updatefn.leave", "uid", uid, "failed", fids, "err", e != nil)
		return failed, e
	}
	vhook.Set(s.hook)
	defer vhook.Set(nil)

	h := s.handlers()
	if o.Updates {
		// a stub that was never started must report that it has no service, at once
		np := &rig.Plugin{Name: "never-started", Idx: "99"}
		if st, err := stub.New(np, stub.WithPluginName("never-started"), stub.WithPluginIdx("99"),
			stub.WithSocketPath(r.Socket)); err == nil {
			resC := make(chan error, 1)
			go func() {
				_, e := st.UpdateContainers([]*api.ContainerUpdate{{ContainerId: "nostart"}})
				resC <- e
			}()
			select {
			case e := <-resC:
				s.ev("nostart", "noservice", errors.Is(e, stub.ErrNoService), "blocked", false, "errtext", fmt.Sprint(e))
			case <-time.After(3 * time.Second):
				s.ev("nostart", "noservice", false, "blocked", true, "errtext", "")
			}
		}
	}
	var wg sync.WaitGroup
	if early != nil {
		wg.Add(1)
		go func() {
			defer wg.Done()
			time.Sleep(time.Duration(5+s.rnd(15)) * time.Millisecond)
			s.ev("block.releasing", "c", 0, "req", earlyID)
			early.Unblock()
		}()
	}
	started := []string{}
	var stmu sync.Mutex
	var raws []*rawpeer.Plugin
	var rawMu sync.Mutex
	defer func() {
		rawMu.Lock()
		for _, rp := range raws {
			rp.Close()
		}
		rawMu.Unlock()
	}()
	for k := 0; k < o.Plugins; k++ {
		k := k
		idx := s.rnd(100)
		switch s.rnd(4) {
		case 0:
			idx = 10 * s.rnd(3) // provoke equal indices
		case 1:
			idx = s.rnd(13) // leading-zero indices 00..12
		}
		var mask api.EventMask
		if o.AllMasks {
			mask = api.EventMask((o.MaskBase + (s.run-1)*o.Plugins + k) % (int(api.ValidEvents) + 1))
		} else {
			switch s.rnd(4) {
			case 0:
				mask = 0
			case 1:
				mask = api.EventMask(1 << uint(s.rnd(13)))
			default:
				mask = api.EventMask(s.rnd(int(api.ValidEvents)) + 1)
			}
		}
		name := fmt.Sprintf("r%dp%d", s.run, k+1)
		full := fmt.Sprintf("%02d-%s", idx, name)
		s.conf.Store(full, pconf{name: full, idx: idx, mask: mask})
		delay := time.Duration(s.rnd(3000)) * time.Microsecond
		leave := o.Leave && s.rnd(4) == 0
		leaveAfter := time.Duration(500+s.rnd(4000)) * time.Microsecond
		nupd := 0
		if o.Updates && s.rnd(2) == 0 {
			nupd = 1 + s.rnd(2)
		}
		// (not next to slow callbacks: an update issued from inside Configure that queues behind one makes Configure
		// itself miss the request timeout, and the plugin is rightly dropped)
		if o.Updates && !o.SlowUpd && s.rnd(4) == 0 {
			s.cfgUpd.Store(full, true)
		}
		wg.Add(1)
		go func() {
			defer wg.Done()
			time.Sleep(delay)
			p, err := r.AddPluginMask(name, fmt.Sprintf("%02d", idx), k, mask, h)
			if err != nil {
				s.ev("start.failed", "p", full, "err", err.Error())
				return
			}
			s.ev("started", "p", full)
			stmu.Lock()
			started = append(started, full)
			stmu.Unlock()
			for i := 0; i < nupd; i++ {
				time.Sleep(time.Duration(s.rnd(1500)) * time.Microsecond)
				if s.update(p, "u", i) {
					return
				}
			}
			if leave {
				time.Sleep(leaveAfter)
				s.ev("leaving", "p", full)
				p.Stub.Stop()
			}
		}()
	}
	// one plugin speaking the protocol directly (no stub) that answers Configure with the empty mask on the
	// wire (= every event); the stub never sends it (it substitutes the mask of the implemented handlers)
	if s.rnd(2) == 0 {
		idx := s.rnd(100)
		name := fmt.Sprintf("r%draw", s.run)
		full := fmt.Sprintf("%02d-%s", idx, name)
		s.conf.Store(full, pconf{name: full, idx: idx, mask: 0})
		delay := time.Duration(s.rnd(3000)) * time.Microsecond
		wg.Add(1)
		go func() {
			defer wg.Done()
			time.Sleep(delay)
			rp, err := rawpeer.Connect(r.Socket, name, fmt.Sprintf("%02d", idx), s.rawHandlers(full))
			if err != nil {
				s.ev("start.failed", "p", full, "err", err.Error())
				return
			}
			rawMu.Lock()
			raws = append(raws, rp)
			rawMu.Unlock()
			if err := rp.Register(5 * time.Second); err != nil {
				s.ev("start.failed", "p", full, "err", err.Error())
				return
			}
			s.ev("started", "p", full)
			stmu.Lock()
			started = append(started, full)
			stmu.Unlock()
		}()
	}
	for c := 0; c < o.Callers; c++ {
		cname := fmt.Sprintf("c%d", c+1)
		wg.Add(1)
		go func() {
			defer wg.Done()
			var kept []func()
			for n := 1; n <= o.Requests; n++ {
				time.Sleep(time.Duration(s.rnd(400)) * time.Microsecond)
				if f := s.request(r, cname, n); f != nil {
					kept = append(kept, f)
				}
				if len(kept) > 1 {
					kept[len(kept)-2]()
				}
			}
			for _, f := range kept {
				f()
			}
		}()
	}
	// watchdog: nothing in a run may block for ever (a wedged lock is reported, not waited for)
	allDone := make(chan struct{})
	go func() { wg.Wait(); close(allDone) }()
	select {
	case <-allDone:
	case <-time.After(60 * time.Second):
		hung := []string{}
		s.phase.Range(func(k, v any) bool {
			hung = append(hung, fmt.Sprintf("%v:%v", k, v))
			return true
		})
		sort.Strings(hung)
		if len(hung) == 0 {
			hung = append(hung, "plugin:Start/Stop/UpdateContainers")
		}
		s.ev("End", "stuck", []string{}, "hung", hung)
		vhook.Set(nil)
		if err := w.WriteScenario(s.log.Events()); err != nil {
			return err
		}
		wedged = true
		return errWedged
	}
	// all sync blocks are released: pending registrations must complete
	deadline := time.Now().Add(20 * time.Second)
	stuck := []string{}
	for {
		stuck = stuck[:0]
		s.fmu.Lock()
		stmu.Lock()
		for _, n := range started {
			if !s.finished[n] {
				stuck = append(stuck, n)
			}
		}
		stmu.Unlock()
		s.fmu.Unlock()
		if len(stuck) == 0 || time.Now().After(deadline) {
			break
		}
		time.Sleep(200 * time.Microsecond)
	}
	umu.Lock()
	counts := map[string]int{}
	for k, v := range updSeen {
		counts[k] = v
	}
	umu.Unlock()
	s.ev("End", "stuck", append([]string{}, stuck...), "hung", []string{})
	vhook.Set(nil)
	return w.WriteScenario(s.log.Events())
}

var errWedged = errors.New("run wedged")

// Run records o.Runs concurrent executions.
func Run(o Options) (int, error) {
	w, err := rec.NewWriter(o.Out)
	if err != nil {
		return 0, err
	}
	defer w.Close()
	w.Sync = true
	s := &session{o: o}
	for i := o.Skip + 1; i <= o.Runs; i++ {
		s.run = i
		// every run has its own random stream: a restart after a crash continues with the same runs
		s.rng = rand.New(rand.NewSource(o.Seed*1000003 + int64(i)))
		done := isolate.Guard(150*time.Second, fmt.Sprintf("run %d", i))
		err := s.oneRun(w)
		done()
		if err != nil {
			if err == errWedged { // the process is wedged: what was recorded is kept, a new process continues
				w.Close()
				fmt.Fprintln(os.Stderr, "wedged: restarting")
				os.Exit(3)
			}
			return 0, err
		}
	}
	return w.Lines(), nil
}
