// Package helpdrv calls small exported helpers of pkg/api on enumerated inputs (X04, ApiHelpers.tla).
package helpdrv

import (
	"bufio"
	"encoding/json"
	"fmt"
	"os"
	"strings"

	"github.com/containerd/nri/pkg/api"

	"verif/harness/abs"
	"verif/harness/rec"
)

type Tok struct {
	W     string `json:"w"`
	Style string `json:"style"`
}
type Mnt struct {
	Dest string   `json:"dest"`
	Type string   `json:"type"`
	Src  string   `json:"src"`
	Opts abs.Strs `json:"opts"`
}
type Dev struct {
	Major int64 `json:"major"`
	Minor int64 `json:"minor"`
}
type HookPair struct {
	Prestart abs.Strs `json:"prestart"`
	Poststop abs.Strs `json:"poststop"`
}
type Scenario struct {
	Kind  string          `json:"kind"`
	Toks  []Tok           `json:"toks"`
	Split []int           `json:"split"`
	Key   string          `json:"key"`
	Set   abs.Strs        `json:"set"`
	Clr   abs.Strs        `json:"clr"`
	Extra string          `json:"extra"`
	A     json.RawMessage `json:"a"`
	B     json.RawMessage `json:"b"`
}

func spell(t Tok) string {
	w := t.W
	switch t.Style {
	case "lower":
		return strings.ToLower(w)
	case "upper":
		return strings.ToUpper(w)
	case "padded":
		return " " + strings.ToLower(w) + " "
	}
	if w == "podsandbox" {
		return "PodSandbox"
	}
	if len(w) > 0 && w == strings.ToLower(w) {
		return strings.ToUpper(w[:1]) + w[1:]
	}
	return w
}

var names = []string{"RunPodSandbox", "StopPodSandbox", "RemovePodSandbox", "CreateContainer", "PostCreateContainer",
	"StartContainer", "PostStartContainer", "UpdateContainer", "PostUpdateContainer", "StopContainer",
	"RemoveContainer", "UpdatePodSandbox", "PostUpdatePodSandbox"}

func hooksOf(p HookPair) *api.Hooks {
	mk := func(ids []string) []*api.Hook {
		var out []*api.Hook
		for _, id := range ids {
			out = append(out, abs.HookFromID(id))
		}
		return out
	}
	return &api.Hooks{Prestart: mk(p.Prestart), Poststop: mk(p.Poststop)}
}

func ids(hs []*api.Hook) []string {
	out := []string{}
	for _, h := range hs {
		out = append(out, strings.TrimPrefix(h.Path, "/hooks/"))
	}
	return out
}

func one(n int, s Scenario, raw string) rec.Event {
	var sc any
	json.Unmarshal([]byte(raw), &sc)
	ev := rec.Event{"ev": "Help", "scn": n, "scenario": sc}
	switch s.Kind {
	case "parse":
		args := []string{}
		i := 0
		for _, k := range s.Split {
			parts := []string{}
			for j := 0; j < k && i < len(s.Toks); j++ {
				parts = append(parts, spell(s.Toks[i]))
				i++
			}
			args = append(args, strings.Join(parts, ","))
		}
		m, err := api.ParseEventMask(args...)
		got := []string{}
		for b, nm := range names {
			if m&(1<<uint(b)) != 0 {
				got = append(got, nm)
			}
		}
		et := ""
		if err != nil {
			et = err.Error()
		}
		panicked := false
		func() {
			defer func() {
				if recover() != nil {
					panicked = true
				}
			}()
			api.MustParseEventMask(args...)
		}()
		ev["args"], ev["names"], ev["err"], ev["mustpanic"] = args, got, et, panicked
	case "marker":
		k, marked := api.IsMarkedForRemoval(s.Key)
		ev["key"], ev["marked"], ev["mark"], ev["clear"] = k, marked, api.MarkForRemoval(s.Key), api.ClearRemovalMarker(s.Key)
	case "plugin-name":
		name := s.Key
		if name == "ARABIC-a" {
			name = "\u0660\u0661-a"
		}
		idx, base, err := api.ParsePluginName(name)
		et := ""
		if err != nil {
			et = err.Error()
		}
		ev["idx"], ev["base"], ev["err"], ev["idxok"] = idx, base, et, api.CheckPluginIndex(name) == nil
	case "mask":
		evOf := func(nm string) api.Event {
			for b, n := range names {
				if n == nm {
					return api.Event(b + 1)
				}
			}
			return api.Event_UNKNOWN
		}
		var m api.EventMask
		for _, nm := range s.Set {
			m.Set(evOf(nm))
		}
		if len(s.Clr) > 0 {
			var evs []api.Event
			for _, nm := range s.Clr {
				evs = append(evs, evOf(nm))
			}
			m.Clear(evs...)
		}
		got, isset := []string{}, []string{}
		for b, nm := range names {
			if m&(1<<uint(b)) != 0 {
				got = append(got, nm)
			}
			if m.IsSet(api.Event(b + 1)) {
				isset = append(isset, nm)
			}
		}
		switch s.Extra {
		case "b20":
			m |= 1 << 19
		case "b14":
			m |= 1 << 13
		}
		before := m
		pretty := m.PrettyString()
		parts := []string{}
		if pretty != "" {
			parts = strings.Split(pretty, ",")
		}
		rm, rerr := api.ParseEventMask(pretty)
		reparsed := []string{}
		for b, nm := range names {
			if rm&(1<<uint(b)) != 0 {
				reparsed = append(reparsed, nm)
			}
		}
		ret := ""
		if rerr != nil {
			ret = rerr.Error()
		}
		if m != before {
			ret = "PrettyString changed the mask"
		}
		ev["names"], ev["isset"], ev["pretty"], ev["reparsed"], ev["reparse_err"] = got, isset, parts, reparsed, ret
	case "cmp-mount":
		var a, b Mnt
		json.Unmarshal(s.A, &a)
		json.Unmarshal(s.B, &b)
		ma := &api.Mount{Destination: a.Dest, Type: a.Type, Source: a.Src, Options: a.Opts}
		mb := &api.Mount{Destination: b.Dest, Type: b.Type, Source: b.Src, Options: b.Opts}
		ev["eq"] = ma.Cmp(mb)
	case "cmp-device":
		var a, b Dev
		json.Unmarshal(s.A, &a)
		json.Unmarshal(s.B, &b)
		ev["eq"] = (&api.LinuxDevice{Path: "/dev/x", Type: "c", Major: a.Major, Minor: a.Minor}).Cmp(
			&api.LinuxDevice{Path: "/dev/x", Type: "c", Major: b.Major, Minor: b.Minor})
	case "hooks":
		var a, b HookPair
		json.Unmarshal(s.A, &a)
		json.Unmarshal(s.B, &b)
		ha := hooksOf(a)
		ev["nonnil"] = ha.Hooks() != nil
		r := ha.Append(hooksOf(b))
		ev["prestart"], ev["poststop"] = ids(r.Prestart), ids(r.Poststop)
	default:
		ev["err"] = "unknown kind"
	}
	return ev
}

func Run(in, out string) error {
	f, err := os.Open(in)
	if err != nil {
		return err
	}
	defer f.Close()
	w, err := rec.NewWriter(out)
	if err != nil {
		return err
	}
	defer w.Close()
	sc := bufio.NewScanner(f)
	n := 0
	for sc.Scan() {
		line := strings.TrimSpace(sc.Text())
		if line == "" {
			continue
		}
		n++
		var s Scenario
		if err := json.Unmarshal([]byte(line), &s); err != nil {
			return fmt.Errorf("scenario %d: %w", n, err)
		}
		if err := w.WriteScenario([]rec.Event{one(n, s, line)}); err != nil {
			return err
		}
	}
	return sc.Err()
}
