// Package alifedrv steps schedules generated from AdaptLife.tla (X02) through a
// real Adaptation: Start / Stop / Start again against plugin registrations in
// flight. A registration is held at the two points the runtime itself controls
// (its synchronization callback, before and after handing out the state); the
// hook points sync.exclusive / sync.finish tell which plugin is where.
package alifedrv

import (
	"bufio"
	"context"
	"encoding/json"
	"fmt"
	"os"
	"runtime"
	"sort"
	"strconv"
	"strings"
	"sync"
	"time"

	"github.com/containerd/nri/pkg/adaptation"
	"github.com/containerd/nri/pkg/api"
	"github.com/containerd/nri/pkg/vhook"

	"verif/harness/rec"
	"verif/harness/rig"
)

type Step struct {
	A string `json:"a"`
	P string `json:"p"`
}

type Scenario struct {
	Plugins []string `json:"plugins"`
	Sched   []Step   `json:"sched"`
}

const stepTimeout = 3 * time.Second

type gate struct {
	activated              bool
	excl, synced, finished chan struct{}
	letSync, letActivate   chan struct{}
}

func newGate() *gate {
	return &gate{excl: make(chan struct{}, 1), synced: make(chan struct{}, 1), finished: make(chan struct{}, 1),
		letSync: make(chan struct{}), letActivate: make(chan struct{})}
}

// run is one scenario on its own Adaptation.
type run struct {
	scn   int
	mu    sync.Mutex
	gates map[string]*gate // by full plugin name
	cur   map[uint64]string // accept goroutine -> plugin entering the exclusive section (hook sync.exclusive)
	got   map[string][]string
	quit  chan struct{}
}

var (
	runsMu sync.Mutex
	runs   = map[string]*run{} // name prefix "s<scn>x" -> run
)

func prefixOf(name string) string {
	if i := strings.Index(name, "x"); i > 0 {
		return name[:i+1]
	}
	return ""
}

func hook(point string, args ...interface{}) {
	if point != "sync.exclusive" && point != "sync.finish" && point != "sync.activated" {
		return
	}
	name, _ := args[0].(string) // "<idx>-<name>"
	base := name
	if i := strings.Index(name, "-"); i >= 0 {
		base = name[i+1:]
	}
	runsMu.Lock()
	r := runs[prefixOf(base)]
	runsMu.Unlock()
	if r == nil {
		return
	}
	r.mu.Lock()
	g := r.gates[base]
	if point == "sync.exclusive" {
		r.cur[goid()] = base
	}
	if point == "sync.activated" && g != nil {
		g.activated = true
	}
	r.mu.Unlock()
	if g == nil {
		return
	}
	if point == "sync.finish" {
		select {
		case g.finished <- struct{}{}:
		default:
		}
	}
}

// goid returns the number of the calling goroutine (the hook point and the
// synchronization callback of one registration run on the same goroutine).
func goid() uint64 {
	var buf [64]byte
	n := runtime.Stack(buf[:], false)
	f := strings.Fields(string(buf[:n]))
	if len(f) < 2 {
		return 0
	}
	id, _ := strconv.ParseUint(f[1], 10, 64)
	return id
}

func wait(c chan struct{}) bool {
	select {
	case <-c:
		return true
	case <-time.After(stepTimeout):
		return false
	}
}

func send(c chan struct{}) bool {
	select {
	case c <- struct{}{}:
		return true
	case <-time.After(stepTimeout):
		return false
	}
}

func sorted(m map[string]bool) []string {
	out := []string{}
	for k := range m {
		out = append(out, k)
	}
	sort.Strings(out)
	return out
}

func runOne(scn int, s Scenario) []rec.Event {
	r := &run{scn: scn, gates: map[string]*gate{}, cur: map[uint64]string{}, got: map[string][]string{}, quit: make(chan struct{})}
	pfx := fmt.Sprintf("s%dx", scn)
	runsMu.Lock()
	runs[pfx] = r
	runsMu.Unlock()
	defer func() {
		runsMu.Lock()
		delete(runs, pfx)
		runsMu.Unlock()
	}()
	evs := []rec.Event{{"ev": "Begin", "scn": scn, "plugins": s.Plugins, "sched": s.Sched}}
	rg, err := rig.New()
	if err != nil {
		return append(evs, rec.Event{"ev": "End", "scn": scn, "aborted": true, "err": err.Error(), "closed": []string{}, "up": false})
	}
	full := func(p string) string { return pfx + p }
	for _, p := range s.Plugins {
		r.gates[full(p)] = newGate()
	}
	rg.SyncOverride = func(ctx context.Context, cb adaptation.SyncCB) error {
		r.mu.Lock()
		id := goid()
		g := r.gates[r.cur[id]] // none for the synchronization of pre-installed plugins in Start()
		delete(r.cur, id)
		r.mu.Unlock()
		if g == nil {
			_, err := cb(ctx, nil, nil)
			return err
		}
		g.excl <- struct{}{}
		select {
		case <-g.letSync:
		case <-r.quit:
		}
		_, err := cb(ctx, nil, nil)
		g.synced <- struct{}{}
		select {
		case <-g.letActivate:
		case <-r.quit:
		}
		return err
	}
	plugs := map[string]*rig.Plugin{}
	h := &rig.Handlers{Event: func(p *rig.Plugin, ev string, pod *api.PodSandbox, _ *api.Container) error {
		r.mu.Lock()
		r.got[pod.GetId()] = append(r.got[pod.GetId()], p.Name)
		r.mu.Unlock()
		return nil
	}}
	closedNow := func() []string {
		m := map[string]bool{}
		for p, pl := range plugs {
			if pl.Closed.Load() > 0 {
				m[p] = true
			}
		}
		return sorted(m)
	}
	upNow := func() bool {
		_, err := os.Stat(rg.Socket)
		return err == nil
	}
	nreq := 0
	for i, st := range s.Sched {
		ok, errs := true, ""
		got := []string{}
		g := r.gates[full(st.P)]
		switch st.A {
		case "Start":
			done := make(chan error, 1)
			go func() { done <- rg.Ad.Start() }()
			select {
			case err := <-done:
				if err != nil {
					ok, errs = false, err.Error()
				}
			case <-time.After(stepTimeout):
				ok, errs = false, "Start did not return"
			}
		case "Stop":
			done := make(chan struct{})
			go func() { rg.Ad.Stop(); close(done) }()
			ok = wait(done)
		case "Accept":
			type res struct {
				p   *rig.Plugin
				err error
			}
			c := make(chan res, 1)
			go func() {
				p, err := rg.AddPlugin(full(st.P), "10", i, h)
				c <- res{p, err}
			}()
			select {
			case x := <-c:
				if x.err != nil {
					ok, errs = false, x.err.Error()
				} else {
					plugs[st.P] = x.p
				}
			case <-time.After(stepTimeout):
				ok, errs = false, "registration did not complete"
			}
		case "Excl":
			ok = wait(g.excl)
		case "Sync":
			ok = send(g.letSync) && wait(g.synced)
		case "Activate":
			ok = send(g.letActivate) && wait(g.finished)
		case "Request":
			nreq++
			id := fmt.Sprintf("req-%d", nreq)
			done := make(chan error, 1)
			go func() {
				done <- rg.Ad.RunPodSandbox(context.Background(), &api.StateChangeEvent{Pod: &api.PodSandbox{Id: id}})
			}()
			select {
			case err := <-done:
				if err != nil {
					ok, errs = false, err.Error()
				}
			case <-time.After(stepTimeout):
				ok, errs = false, "request did not return"
			}
			r.mu.Lock()
			m := map[string]bool{}
			for _, n := range r.got[id] {
				m[strings.TrimPrefix(n, pfx)] = true
			}
			r.mu.Unlock()
			got = sorted(m)
		default:
			ok, errs = false, "unknown step "+st.A
		}
		activated := false
		if st.A == "Activate" {
			r.mu.Lock()
			activated = g.activated
			r.mu.Unlock()
		}
		evs = append(evs, rec.Event{"ev": "Step", "scn": scn, "i": i + 1, "a": st.A, "p": st.P, "ok": ok, "err": errs, "activated": activated,
			"up": upNow(), "closed": closedNow(), "got": got})
		if !ok {
			break
		}
	}
	// let close notifications settle: no change for 150 ms, at most 2 s
	last, stable, t0 := fmt.Sprint(closedNow()), time.Now(), time.Now()
	for time.Since(stable) < 150*time.Millisecond && time.Since(t0) < 2*time.Second {
		time.Sleep(10 * time.Millisecond)
		if c := fmt.Sprint(closedNow()); c != last {
			last, stable = c, time.Now()
		}
	}
	evs = append(evs, rec.Event{"ev": "End", "scn": scn, "aborted": false, "err": "", "closed": closedNow(), "up": upNow()})
	close(r.quit)
	rg.Close()
	return evs
}

// Run replays the schedules with `par` scenarios in flight.
func Run(in, out string, par int) error {
	f, err := os.Open(in)
	if err != nil {
		return err
	}
	defer f.Close()
	w, err := rec.NewWriter(out)
	if err != nil {
		return err
	}
	defer w.Close()
	vhook.Set(hook)
	defer vhook.Set(nil)
	sc := bufio.NewScanner(f)
	sc.Buffer(make([]byte, 1<<20), 1<<26)
	var scs []Scenario
	for sc.Scan() {
		line := strings.TrimSpace(sc.Text())
		if line == "" {
			continue
		}
		var s Scenario
		if err := json.Unmarshal([]byte(line), &s); err != nil {
			return fmt.Errorf("scenario %d: %w", len(scs)+1, err)
		}
		scs = append(scs, s)
	}
	if err := sc.Err(); err != nil {
		return err
	}
	if par < 1 {
		par = 1
	}
	results := make([][]rec.Event, len(scs))
	sem := make(chan struct{}, par)
	var wg sync.WaitGroup
	for i := range scs {
		wg.Add(1)
		sem <- struct{}{}
		go func(i int) {
			defer wg.Done()
			defer func() { <-sem }()
			results[i] = runOne(i+1, scs[i])
		}(i)
	}
	wg.Wait()
	for _, evs := range results {
		if err := w.WriteScenario(evs); err != nil {
			return err
		}
	}
	return nil
}
