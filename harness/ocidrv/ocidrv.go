// Package ocidrv replays (spec, adjustment) pairs on the project's OCI spec
// generator, R times each on fresh generators (Go randomises map iteration per
// range statement, so repetitions sample the internal iteration orders).
package ocidrv

import (
	"bufio"
	"encoding/json"
	"fmt"
	"math/rand"
	"os"
	"strings"

	"github.com/containerd/nri/pkg/api"
	nrigen "github.com/containerd/nri/pkg/runtime-tools/generate"
	rspec "github.com/opencontainers/runtime-spec/specs-go"
	rgen "github.com/opencontainers/runtime-tools/generate"

	"verif/harness/abs"
	"verif/harness/adjdrv"
	"verif/harness/rec"
)

type Scenario struct {
	Orig abs.Container `json:"orig"`
	Adj  abs.Adjust    `json:"adj"`
}

func newGen(spec *rspec.Spec, cdi *[]string) *nrigen.Generator {
	g := rgen.NewFromSpec(spec)
	return nrigen.SpecGenerator(&g,
		nrigen.WithBlockIOResolver(abs.ResolveBlockIO),
		nrigen.WithRdtResolver(abs.ResolveRdt),
		nrigen.WithCDIDeviceInjector(func(_ *rspec.Spec, names []string) error {
			*cdi = append(*cdi, names...)
			return nil
		}))
}

// safeAdjust applies the adjustment; a panic of the generator is an outcome ("panic: ..."), not the end of the run.
func safeAdjust(g *nrigen.Generator, a *api.ContainerAdjustment) (ge string) {
	defer func() {
		if r := recover(); r != nil {
			ge = fmt.Sprint("panic: ", r)
		}
	}()
	if err := g.Adjust(a); err != nil {
		return err.Error()
	}
	return ""
}

func Run(in, out string, reps int) error {
	f, err := os.Open(in)
	if err != nil {
		return err
	}
	defer f.Close()
	w, err := rec.NewWriter(out)
	if err != nil {
		return err
	}
	defer w.Close()
	sc := bufio.NewScanner(f)
	sc.Buffer(make([]byte, 1<<20), 1<<26)
	n := 0
	for sc.Scan() {
		line := strings.TrimSpace(sc.Text())
		if line == "" {
			continue
		}
		n++
		var s Scenario
		if err := json.Unmarshal([]byte(line), &s); err != nil {
			return fmt.Errorf("scenario %d: %w", n, err)
		}
		s.Orig, s.Adj = s.Orig.Norm(), s.Adj.Norm()
		results := []abs.Oci{}
		rests := []string{}
		gerrs := []string{}
		ords := []abs.Strs{}
		rest0 := abs.Rest(abs.ToOCISpec(s.Orig))
		for i := 0; i < reps; i++ {
			var cdi []string
			// odd repetitions list the original's mounts children-first
			g := newGen(abs.ToOCISpecOrd(s.Orig, i%2 == 1), &cdi)
			ords = append(ords, abs.FromOCISpec(abs.ToOCISpecOrd(s.Orig, i%2 == 1), nil).Mord)
			ge := safeAdjust(g, abs.ToAPIAdjust(s.Adj))
			results = append(results, abs.FromOCISpec(g.Config, cdi))
			rests = append(rests, abs.Rest(g.Config))
			gerrs = append(gerrs, ge)
		}
		ev := rec.Event{"ev": "Oci", "scn": n, "orig": s.Orig, "adj": s.Adj, "results": results,
			"rests": rests, "rest0": rest0, "gerrs": gerrs, "ords": ords}
		if err := w.WriteScenario([]rec.Event{ev}); err != nil {
			return err
		}
	}
	return sc.Err()
}

// Generate writes random (spec, adjustment) pairs.
func Generate(out string, n int, seed int64) error {
	f, err := os.Create(out)
	if err != nil {
		return err
	}
	defer f.Close()
	w := bufio.NewWriter(f)
	defer w.Flush()
	r := rand.New(rand.NewSource(seed))
	for i := 0; i < n; i++ {
		s := Scenario{Orig: adjdrv.RandOrig(r), Adj: adjdrv.RandAdjust(r, 1, []float64{0.1, 0.3, 0.6}[r.Intn(3)])}
		b, err := json.Marshal(s)
		if err != nil {
			return err
		}
		w.Write(b)
		w.WriteByte('\n')
	}
	return nil
}
