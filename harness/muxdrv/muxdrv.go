// Package muxdrv records executions of the real connection multiplexer over a
// unix socket pair: concurrent writers on both ends, readers per logical
// connection, and faults (trunk cut at a byte offset, close by any number of
// concurrent closers, queue overflow). Hook points in mux.go (build tag verif)
// give the frame-level events under the write lock and in the reader and
// perturb the schedule. Traces are validated by TLC against Mux.tla.
package muxdrv

import (
	"bufio"
	"encoding/json"
	"errors"
	"fmt"
	"io"
	"math/rand"
	"net"
	"os"
	"runtime"
	"strings"
	"sync"
	"sync/atomic"
	"syscall"
	"time"

	nrinet "github.com/containerd/nri/pkg/net"
	"github.com/containerd/nri/pkg/net/multiplex"
	"github.com/containerd/nri/pkg/vhook"

	"verif/harness/isolate"
	"verif/harness/rawpeer"
	"verif/harness/rec"
)

// MaxPayload is the multiplexer's maximum frame payload (ttRPC header + 4 MiB).
const MaxPayload = 10 + 4*1024*1024

// Scenario of one recorded run.
type Scenario struct {
	QLen    int      `json:"qlen"`
	Conns   []int    `json:"conns"`
	Writers []Writer `json:"writers"`
	Fault   string   `json:"fault"`   // none | cutAB | cutBA | closeA | closeB | overflow
	At      int      `json:"at"`      // byte offset (cut) or number of frames written before the close
	Closers int      `json:"closers"` // concurrent closers
	Stall   int      `json:"stall"`   // overflow: connection whose reader at end B does not read
}

// Writer writes messages of the given sizes to one connection from one end.
type Writer struct {
	End  string `json:"end"`
	Conn int    `json:"conn"`
	Msgs []int  `json:"msgs"`
}

const descLen = 12

// nFrames is the number of frames a message of the given size is sent as.
func nFrames(size int) int {
	n := (size + MaxPayload - 1) / MaxPayload
	if n == 0 {
		n = 1
	}
	return n
}

func fill(buf []byte, w, msg int) {
	n := len(buf)
	nchunks := (n + MaxPayload - 1) / MaxPayload
	if nchunks == 0 {
		nchunks = 1
	}
	for c := 0; c*MaxPayload < n || (c == 0 && n == 0); c++ {
		lo := c * MaxPayload
		hi := lo + MaxPayload
		if hi > n {
			hi = n
		}
		chunk := buf[lo:hi]
		fillChunk(chunk, w, msg, c+1, nchunks)
		if n == 0 {
			break
		}
	}
}

func fillChunk(chunk []byte, w, msg, c, nchunks int) {
	size := len(chunk)
	if size < descLen {
		for i := range chunk {
			chunk[i] = byte(0xA0 + size%16)
		}
		return
	}
	chunk[0] = 'V'
	chunk[1] = byte(w)
	chunk[2] = byte(msg >> 8)
	chunk[3] = byte(msg)
	chunk[4] = byte(c)
	chunk[5] = byte(nchunks)
	chunk[6] = byte(size >> 24)
	chunk[7] = byte(size >> 16)
	chunk[8] = byte(size >> 8)
	chunk[9] = byte(size)
	chunk[10] = 'F'
	chunk[11] = 'R'
	seed := byte(w*31 + msg*7 + c*3)
	// a sparse pattern is enough to detect mixing and keeps big frames cheap
	for i := descLen; i < size; i += 61 {
		chunk[i] = seed + byte(i)
	}
}

// frameID returns writer, message, chunk and chunk count of a frame payload (zeros for tiny/garbled frames).
func frameID(b []byte) (int, int, int, int) {
	if len(b) < descLen || b[0] != 'V' || b[10] != 'F' || b[11] != 'R' {
		return 0, 0, 0, 0
	}
	return int(b[1]), int(b[2])<<8 | int(b[3]), int(b[4]), int(b[5])
}

// decode identifies a frame payload and tells whether its content is intact.
func decode(b []byte) (string, bool) {
	size := len(b)
	if size < descLen {
		ok := true
		for _, x := range b {
			if x != byte(0xA0+size%16) {
				ok = false
			}
		}
		return fmt.Sprintf("tiny/%d", size), ok
	}
	if b[0] != 'V' || b[10] != 'F' || b[11] != 'R' {
		return fmt.Sprintf("garbled/%d", size), false
	}
	w, msg, c, nch := int(b[1]), int(b[2])<<8|int(b[3]), int(b[4]), int(b[5])
	dsize := int(b[6])<<24 | int(b[7])<<16 | int(b[8])<<8 | int(b[9])
	ok := dsize == size
	seed := byte(w*31 + msg*7 + c*3)
	for i := descLen; i < size; i += 61 {
		if b[i] != seed+byte(i) {
			ok = false
			break
		}
	}
	return fmt.Sprintf("w%d/m%d/c%d of %d/%d", w, msg, c, nch, size), ok
}

type run struct {
	scn  int
	rng  *rand.Rand
	rmu  sync.Mutex
	log  *rec.Buf
	muxA multiplex.Mux
	muxB multiplex.Mux
	nhdr map[string]int // frames whose header was written, per direction
	hmu  sync.Mutex
	trig func(dir string, n int)
	cur  sync.Mutex // guards log / muxA / muxB against hook events of an earlier scenario's multiplexers
	// scenarios in which some operation hung (each costs several watchdog periods): after a few of them the
	// remaining scenarios are recorded as not replayed - the verdict is there, the rest would take hours
	hungNow  int32
	hungScns int
}

func (r *run) rnd(n int) int {
	r.rmu.Lock()
	defer r.rmu.Unlock()
	return r.rng.Intn(n)
}

func (r *run) ev(name string, kv ...any) {
	e := rec.Event{"ev": name, "scn": r.scn}
	for i := 0; i+1 < len(kv); i += 2 {
		e[kv[i].(string)] = kv[i+1]
		if kv[i].(string) == "hung" && kv[i+1] == true {
			atomic.StoreInt32(&r.hungNow, 1)
		}
	}
	r.log.Add(e)
}

func (r *run) perturb() {
	switch x := r.rnd(10); {
	case x < 4:
		runtime.Gosched()
	case x == 4:
		time.Sleep(time.Duration(10+r.rnd(100)) * time.Microsecond)
	}
}

func (r *run) endOf(m interface{}) string {
	switch m {
	case interface{}(r.muxA):
		return "A"
	case interface{}(r.muxB):
		return "B"
	}
	return ""
}

func errClass(err error) string {
	switch {
	case err == nil:
		return ""
	case errors.Is(err, io.EOF):
		return "eof"
	case errors.Is(err, syscall.ENOMEM):
		return "enomem"
	default:
		return "error"
	}
}

func (r *run) hook(point string, args ...interface{}) {
	if !strings.HasPrefix(point, "mux.") {
		return
	}
	// which end - and which scenario's log - the event belongs to is decided in one step: a reader of the
	// previous scenario's multiplexer that reports late must not write into this scenario's log
	r.cur.Lock()
	end := r.endOf(args[0])
	lg, scn := r.log, r.scn
	r.cur.Unlock()
	if end == "" {
		return
	}
	ev := func(name string, kv ...any) {
		e := rec.Event{"ev": name, "scn": scn}
		for i := 0; i+1 < len(kv); i += 2 {
			e[kv[i].(string)] = kv[i+1]
		}
		lg.Add(e)
	}
	wdir := map[string]string{"A": "AB", "B": "BA"}[end] // direction written at this end
	rdir := map[string]string{"A": "BA", "B": "AB"}[end] // direction read at this end
	switch point {
	case "mux.wlocked":
		ev("wlocked", "dir", wdir, "conn", int(args[1].(uint32)), "total", args[2].(int))
	case "mux.whdr":
		data := args[2].([]byte)
		f, _ := decode(data)
		fw, fm, fc, fn := frameID(data)
		ev("whdr", "dir", wdir, "conn", int(args[1].(uint32)), "f", f, "size", len(data), "fw", fw, "fm", fm, "fc", fc, "fn", fn)
		r.hmu.Lock()
		r.nhdr[wdir]++
		n := r.nhdr[wdir]
		r.hmu.Unlock()
		if r.trig != nil {
			r.trig(wdir, n)
		}
		r.perturb()
	case "mux.wpay":
		ev("wpay", "dir", wdir, "conn", int(args[1].(uint32)), "size", args[2].(int), "ok", args[3] == nil || args[3].(error) == nil)
	case "mux.wunlocking":
		ev("wunlocking", "dir", wdir, "conn", int(args[1].(uint32)))
	case "mux.rframe":
		buf := args[2].([]byte)
		f, _ := decode(buf)
		ev("rframe", "dir", rdir, "conn", int(args[1].(uint32)), "f", f, "size", len(buf), "open", args[3].(bool))
		r.perturb()
	case "mux.rovf":
		ev("rovf", "dir", rdir, "conn", int(args[1].(uint32)))
	case "mux.rerr":
		e, _ := args[2].(error)
		ev("rerr", "dir", rdir, "phase", args[1].(string), "class", errClass(e))
	case "mux.close":
		ev("close", "end", end)
	}
}

func socketPair() (net.Conn, net.Conn, error) {
	fds, err := syscall.Socketpair(syscall.AF_UNIX, syscall.SOCK_STREAM, 0)
	if err != nil {
		return nil, nil, err
	}
	mk := func(fd int) (net.Conn, error) {
		f := os.NewFile(uintptr(fd), "sp")
		defer f.Close()
		return net.FileConn(f)
	}
	a, err := mk(fds[0])
	if err != nil {
		return nil, nil, err
	}
	b, err := mk(fds[1])
	if err != nil {
		return nil, nil, err
	}
	return a, b, nil
}

// timed runs f and reports whether it returned within d.
func timed(d time.Duration, f func()) (bool, int) {
	done := make(chan struct{})
	t0 := time.Now()
	go func() { f(); close(done) }()
	select {
	case <-done:
		return true, int(time.Since(t0).Milliseconds())
	case <-time.After(d):
		return false, int(d.Milliseconds())
	}
}

const watchdog = 3 * time.Second

func (r *run) exec(sc Scenario, w *rec.Writer) error {
	r.cur.Lock()
	r.log = &rec.Buf{}
	r.nhdr = map[string]int{}
	r.muxA, r.muxB, r.trig = nil, nil, nil // late hook events of the previous run's multiplexers are not ours
	r.cur.Unlock()
	if sc.Fault == "closeA" || sc.Fault == "closeB" {
		// the close must fall inside the run: not later than the last frame
		total := 0
		for _, wr := range sc.Writers {
			for _, m := range wr.Msgs {
				total += nFrames(m)
			}
		}
		if sc.At > total {
			sc.At = total
		}
	}
	// a cut is a fault only if that many bytes are written in its direction at all
	if sc.Fault == "cutAB" || sc.Fault == "cutBA" || sc.Fault == "halfAB" || sc.Fault == "halfBA" {
		from := sc.Fault[len(sc.Fault)-2 : len(sc.Fault)-1]
		bytes := 0
		for _, wr := range sc.Writers {
			if wr.End == from {
				for _, m := range wr.Msgs {
					bytes += m + 8*(1+m/MaxPayload)
				}
			}
		}
		if bytes <= sc.At {
			sc.Fault = "none"
		}
	}
	if sc.Fault == "overflow" {
		// the queue overflows only if more frames than it holds go to the stalled consumer
		n := 0
		for _, wr := range sc.Writers {
			if wr.End == "A" && wr.Conn == sc.Stall {
				for _, m := range wr.Msgs {
					n += nFrames(m)
				}
			}
		}
		if n <= sc.QLen {
			sc.Fault = "none"
		}
	}
	if sc.Fault == "none" {
		// C10 assumes the receiver keeps up with the configured queue length: without a fault the
		// number of frames in flight per connection stays within the queue
		per := map[string]int{}
		for _, wr := range sc.Writers {
			for _, m := range wr.Msgs {
				per[fmt.Sprintf("%s%d", wr.End, wr.Conn)] += nFrames(m)
			}
		}
		for _, n := range per {
			if n > sc.QLen {
				sc.QLen = 256
			}
		}
	}
	r.ev("Begin", "qlen", sc.QLen, "conns", sc.Conns, "fault", sc.Fault, "at", sc.At, "closers", sc.Closers, "stall", sc.Stall)
	ca, cb, err := socketPair()
	if err != nil {
		return err
	}
	cutA, cutB := rawpeer.NewCutter(ca), rawpeer.NewCutter(cb)
	if r.scn%2 == 1 {
		// a transport whose Close reports an error (it is closed all the same): nothing may depend on the report
		cutA.CloseErr, cutB.CloseErr = errors.New("verif: transport reports an error on close"), errors.New("verif: transport reports an error on close")
	}
	// arm byte-exact cuts before any traffic
	switch sc.Fault {
	case "cutAB":
		cutA.CutAfterWrite(int64(sc.At))
	case "cutBA":
		cutB.CutAfterWrite(int64(sc.At))
	case "halfAB": // writes of end A start failing inside a frame; nothing is closed by the fault itself
		cutA.FailWritesAfter(int64(sc.At))
	case "halfBA":
		cutB.FailWritesAfter(int64(sc.At))
	}
	vhook.Set(r.hook)
	defer vhook.Set(nil)
	// every third scenario: ends that were never blocked. Unblock() is called on them all the same further down -
	// documented as releasing a blocked reader, it has nothing to do on these (MuxTable.Unblock: once, later calls
	// and calls on an unblocked end do nothing); the connections are open at both ends before anybody writes
	aopts := []multiplex.Option{multiplex.WithReadQueueLength(sc.QLen)}
	bopts := []multiplex.Option{multiplex.WithReadQueueLength(sc.QLen)}
	if r.scn%3 != 2 {
		aopts = append(aopts, multiplex.WithBlockedRead())
	}
	if r.scn%3 != 2 || r.scn%2 == 0 {
		bopts = append(bopts, multiplex.WithBlockedRead())
	}
	ma := multiplex.Multiplex(cutA, aopts...)
	mb := multiplex.Multiplex(cutB, bopts...)
	r.cur.Lock()
	r.muxA, r.muxB = ma, mb
	r.cur.Unlock()
	conns := map[string]net.Conn{}
	for _, id := range sc.Conns {
		a, err := r.muxA.Open(multiplex.ConnID(id))
		if err != nil {
			return err
		}
		b, err := r.muxB.Open(multiplex.ConnID(id))
		if err != nil {
			return err
		}
		conns[fmt.Sprintf("A%d", id)] = a
		conns[fmt.Sprintf("B%d", id)] = b
	}
	// the wrapped listener: Accept returns the connection once, then blocks until closed
	lid := 999
	la, err := r.muxA.Listen(multiplex.ConnID(lid))
	if err != nil {
		return err
	}
	if ok, _ := timed(watchdog, func() {
		c, e := la.Accept()
		r.ev("accept", "n", 1, "got", c != nil, "class", errClass(e), "hung", false)
	}); !ok {
		r.ev("accept", "n", 1, "got", false, "class", "", "hung", true)
	}
	// two accepters blocked at once: closing the listener releases both
	acc2 := make(chan string, 2)
	for k := 0; k < 2; k++ {
		go func() {
			_, e := la.Accept()
			acc2 <- errClass(e)
		}()
	}

	// expected bytes per reader
	expect := map[string]int{}
	for _, wr := range sc.Writers {
		other := map[string]string{"A": "B", "B": "A"}[wr.End]
		for _, m := range wr.Msgs {
			expect[fmt.Sprintf("%s%d", other, wr.Conn)] += m
			if m == 0 {
				expect[fmt.Sprintf("%s%d", other, wr.Conn)] += 0
			}
		}
	}
	nframes := map[string]int{}
	for _, wr := range sc.Writers {
		other := map[string]string{"A": "B", "B": "A"}[wr.End]
		for _, m := range wr.Msgs {
			n := (m + MaxPayload - 1) / MaxPayload
			if n == 0 {
				n = 1
			}
			nframes[fmt.Sprintf("%s%d", other, wr.Conn)] += n
		}
	}
	// closers triggered by the number of frames written
	var closeOnce sync.Once
	var cwg sync.WaitGroup
	if sc.Fault == "closeA" || sc.Fault == "closeB" {
		target := r.muxA
		end := "A"
		if sc.Fault == "closeB" {
			target, end = r.muxB, "B"
		}
		fire := func() {
			closeOnce.Do(func() {
				n := sc.Closers
				if n < 1 {
					n = 1
				}
				for i := 0; i < n; i++ {
					cwg.Add(1)
					go func(i int) {
						defer cwg.Done()
						ok, ms := timed(watchdog, func() { target.Close() })
						r.ev("closed.by", "end", end, "i", i, "hung", !ok, "ms", ms)
					}(i)
				}
			})
		}
		if sc.At <= 0 {
			fire()
		} else {
			r.trig = func(dir string, n int) {
				r.hmu.Lock()
				tot := r.nhdr["AB"] + r.nhdr["BA"]
				r.hmu.Unlock()
				if tot >= sc.At {
					go fire()
				}
			}
		}
		defer fire()
	}
	var wg sync.WaitGroup
	// readers
	for key, c := range conns {
		key, c := key, c
		end, id := key[:1], 0
		fmt.Sscanf(key[1:], "%d", &id)
		if sc.Fault == "overflow" && end == "B" && id == sc.Stall {
			continue // the stalled consumer
		}
		want := nframes[key]
		wg.Add(1)
		go func() {
			defer wg.Done()
			buf := make([]byte, MaxPayload+64)
			got := 0
			for got < want || sc.Fault != "none" {
				var n int
				var e error
				ok, _ := timed(watchdog, func() { n, e = c.Read(buf) })
				if !ok {
					r.ev("read", "end", end, "conn", id, "f", "", "size", 0, "intact", true, "class", "", "hung", true)
					return
				}
				if e != nil {
					r.ev("read", "end", end, "conn", id, "f", "", "size", 0, "intact", true, "class", errClass(e), "hung", false)
					return
				}
				f, intact := decode(buf[:n])
				r.ev("read", "end", end, "conn", id, "f", f, "size", n, "intact", intact, "class", "", "hung", false)
				got++
				if sc.Fault != "none" && got >= want+2 {
					return
				}
			}
		}()
	}
	// writers
	for wi, wr := range sc.Writers {
		wi, wr := wi, wr
		c := conns[fmt.Sprintf("%s%d", wr.End, wr.Conn)]
		wg.Add(1)
		go func() {
			defer wg.Done()
			for mi, size := range wr.Msgs {
				buf := make([]byte, size)
				fill(buf, wi+1, mi+1)
				r.ev("wcall", "end", wr.End, "conn", wr.Conn, "w", wi+1, "msg", mi+1, "size", size)
				var n int
				var e error
				ok, _ := timed(watchdog, func() { n, e = c.Write(buf) })
				if !ok {
					r.ev("wret", "end", wr.End, "conn", wr.Conn, "w", wi+1, "msg", mi+1, "n", 0, "class", "", "hung", true)
					return
				}
				r.ev("wret", "end", wr.End, "conn", wr.Conn, "w", wi+1, "msg", mi+1, "n", n, "class", errClass(e), "hung", false)
				if e != nil {
					return
				}
			}
		}()
	}
	r.muxA.Unblock()
	r.muxB.Unblock()
	if r.scn%4 == 1 {
		r.muxA.Unblock() // a second call does nothing
	}
	done := make(chan struct{})
	go func() { wg.Wait(); close(done) }()
	select {
	case <-done:
	case <-time.After(4 * watchdog):
	}
	cwg.Wait()
	r.ev("quiet")
	// one id opened from several goroutines at once (a dialer and a listener for it, say), a dozen fresh ids: every
	// handle handed out is a connection of this multiplexer - it fails with it like any other (checked below)
	racers := map[net.Conn]int{}
	{
		var rmu sync.Mutex
		for round := 0; round < 12; round++ {
			id := 2000 + round
			start := make(chan struct{})
			var rw sync.WaitGroup
			for k := 0; k < 6; k++ {
				rw.Add(1)
				go func() {
					defer rw.Done()
					<-start
					if c, err := r.muxA.Open(multiplex.ConnID(id)); err == nil {
						rmu.Lock()
						racers[c] = id
						rmu.Unlock()
					}
				}()
			}
			close(start)
			rw.Wait()
		}
	}
	// after the run: on a broken multiplexer everything must fail promptly; Close is idempotent
	broken := sc.Fault != "none"
	if broken {
		for key, c := range conns {
			end, id := key[:1], 0
			fmt.Sscanf(key[1:], "%d", &id)
			var e error
			ok, ms := timed(watchdog, func() { _, e = c.Write([]byte("post-fault write")) })
			r.ev("post.write", "end", end, "conn", id, "class", errClass(e), "hung", !ok, "ms", ms)
		}
	}
	for i := 0; i < 2; i++ {
		for _, m := range []struct {
			end string
			m   multiplex.Mux
		}{{"A", r.muxA}, {"B", r.muxB}} {
			m := m
			ok, ms := timed(watchdog, func() { m.m.Close() })
			r.ev("post.close", "end", m.end, "i", i, "hung", !ok, "ms", ms)
		}
	}
	for key, c := range conns {
		end, id := key[:1], 0
		fmt.Sscanf(key[1:], "%d", &id)
		// drain what was queued, then the error must come
		cls, hung, n := "", false, 0
		for ; n < sc.QLen+4; n++ {
			var e error
			buf := make([]byte, 4096)
			ok, _ := timed(watchdog, func() { _, e = c.Read(buf) })
			if !ok {
				hung = true
				break
			}
			if e != nil {
				cls = errClass(e)
				break
			}
		}
		r.ev("post.read", "end", end, "conn", id, "class", cls, "hung", hung, "reads", n)
		var e error
		ok, ms := timed(watchdog, func() { _, e = c.Write([]byte("x")) })
		r.ev("post.write", "end", end, "conn", id, "class", errClass(e), "hung", !ok, "ms", ms)
	}
	for c, id := range racers {
		var e error
		ok, _ := timed(watchdog, func() { _, e = c.Read(make([]byte, 16)) })
		r.ev("post.read", "end", "A", "conn", id, "class", errClass(e), "hung", !ok, "reads", 0)
		if !ok {
			break // one hang is a verdict
		}
	}
	// a connection opened now, on the closed multiplexer: refused, or at least one that fails like the others
	{
		c, err := r.muxA.Open(multiplex.ConnID(3000))
		hung, cls := false, ""
		if err == nil && c != nil {
			var e error
			ok, _ := timed(watchdog, func() { _, e = c.Read(make([]byte, 16)) })
			hung, cls = !ok, errClass(e)
		}
		r.ev("post.open", "refused", err != nil, "class", cls, "hung", hung)
	}
	// the listener is closed by several goroutines at once (closing concurrently never panics or hangs)
	{
		var cw sync.WaitGroup
		for k := 0; k < 6; k++ {
			cw.Add(1)
			go func() { defer cw.Done(); la.Close() }()
		}
		if ok, _ := timed(watchdog, cw.Wait); !ok {
			r.ev("accept", "n", 3, "got", false, "class", "", "hung", true)
		}
	}
	// the same for fresh wrapped listeners, all closers released at the same instant, many times over: a guard
	// that is not atomic needs two closers inside a window of a few instructions
	for i := 0; i < 200; i++ {
		pa, pb := net.Pipe()
		l := nrinet.NewConnListener(pa)
		start := make(chan struct{})
		var cw sync.WaitGroup
		for k := 0; k < 8; k++ {
			cw.Add(1)
			go func() { defer cw.Done(); <-start; l.Close() }()
		}
		close(start)
		if ok, _ := timed(watchdog, cw.Wait); !ok {
			r.ev("accept", "n", 3, "got", false, "class", "", "hung", true)
		}
		if i%20 == 0 {
			// closed before anybody accepted: a later Accept returns at once (the connection, closed by now, may
			// still be handed out once), the one after it reports end-of-file
			var e error
			if ok, _ := timed(watchdog, func() { l.Accept(); _, e = l.Accept() }); !ok {
				r.ev("accept", "n", 5, "got", false, "class", "", "hung", true)
				pb.Close()
				break // one hang is a verdict; every further one would cost another watchdog period
			} else {
				r.ev("accept", "n", 5, "got", false, "class", errClass(e), "hung", false)
			}
		}
		pb.Close()
	}
	for k := 0; k < 2; k++ {
		select {
		case cls := <-acc2:
			r.ev("accept", "n", 2, "got", false, "class", cls, "hung", false)
		case <-time.After(watchdog):
			r.ev("accept", "n", 2, "got", false, "class", "", "hung", true)
		}
	}
	// and an Accept after the close: end-of-file, at once
	{
		var e error
		if ok, _ := timed(watchdog, func() { _, e = la.Accept() }); !ok {
			r.ev("accept", "n", 4, "got", false, "class", "", "hung", true)
		} else {
			r.ev("accept", "n", 4, "got", false, "class", errClass(e), "hung", false)
		}
	}
	r.ev("End")
	vhook.Set(nil)
	return w.WriteScenario(r.log.Events())
}

// Run executes the scenarios of `in` (skipping the first `skip`) and writes the trace to `out`.
func Run(in, out string, seed int64, skip int) (int, error) {
	f, err := os.Open(in)
	if err != nil {
		return 0, err
	}
	defer f.Close()
	w, err := rec.NewWriter(out)
	if err != nil {
		return 0, err
	}
	defer w.Close()
	w.Sync = true
	r := &run{rng: rand.New(rand.NewSource(seed))}
	sc := bufio.NewScanner(f)
	sc.Buffer(make([]byte, 1<<20), 1<<24)
	for sc.Scan() {
		line := strings.TrimSpace(sc.Text())
		if line == "" {
			continue
		}
		var s Scenario
		if err := json.Unmarshal([]byte(line), &s); err != nil {
			return 0, err
		}
		r.scn++
		if r.scn <= skip {
			continue
		}
		if r.hungScns >= 8 {
			if err := w.WriteScenario([]rec.Event{{"ev": "Begin", "scn": r.scn, "qlen": s.QLen, "conns": s.Conns, "fault": "none", "at": 0,
				"closers": 0, "stall": 0}, {"ev": "skipped", "scn": r.scn}, {"ev": "End", "scn": r.scn}}); err != nil {
				return 0, err
			}
			continue
		}
		atomic.StoreInt32(&r.hungNow, 0)
		done := isolate.Guard(60*time.Second, fmt.Sprintf("mux scenario %d", r.scn))
		err := r.exec(s, w)
		done()
		if err != nil {
			return 0, fmt.Errorf("scenario %d: %w", r.scn, err)
		}
		if atomic.LoadInt32(&r.hungNow) == 1 {
			r.hungScns++
		}
	}
	return w.Lines(), sc.Err()
}

// Generate writes random scenarios.
func Generate(out string, n int, seed int64, big bool, sweep int) error {
	f, err := os.Create(out)
	if err != nil {
		return err
	}
	defer f.Close()
	w := bufio.NewWriter(f)
	defer w.Flush()
	rng := rand.New(rand.NewSource(seed))
	boundary := []int{0, 1, 11, 12, 13, MaxPayload - 1, MaxPayload, MaxPayload + 1, 2 * MaxPayload, 2*MaxPayload + 1, 3*MaxPayload + 5}
	// size sweeps: one writer, one message per size; every size near a power of two (buffer-size boundaries of
	// any implementation), every size up to `sweep`, and random ones - "every payload size"
	sizes := []int{}
	for k := 6; k <= 17; k++ {
		for d := -9; d <= 9; d++ {
			sizes = append(sizes, (1<<uint(k))+d)
		}
	}
	for v := 0; v <= sweep; v++ {
		sizes = append(sizes, v)
	}
	for k := 0; k < 120; k++ {
		sizes = append(sizes, rng.Intn(70000))
	}
	rng.Shuffle(len(sizes), func(a, b int) { sizes[a], sizes[b] = sizes[b], sizes[a] })
	for a := 0; a < len(sizes); a += 40 {
		b := a + 40
		if b > len(sizes) {
			b = len(sizes)
		}
		s := Scenario{QLen: 256, Fault: "none", Conns: []int{1, 2}}
		s.Writers = []Writer{{End: []string{"A", "B"}[rng.Intn(2)], Conn: 1, Msgs: sizes[a:b]}, {End: "A", Conn: 2, Msgs: []int{7, 4090, 33}}}
		js, _ := json.Marshal(s)
		w.Write(js)
		w.WriteByte('\n')
	}
	for i := 0; i < n; i++ {
		if big && i%20 == 7 {
			// several writers on the same end and connection, multi-frame messages among them
			s := Scenario{QLen: 256, Fault: "none", Conns: []int{1, 2}}
			end := []string{"A", "B"}[rng.Intn(2)]
			for k := 0; k < 2+rng.Intn(2); k++ {
				wr := Writer{End: end, Conn: 1}
				for m := 0; m < 2; m++ {
					wr.Msgs = append(wr.Msgs, []int{2*MaxPayload + 1, MaxPayload + 1, 100, 3*MaxPayload + 5}[rng.Intn(4)])
				}
				s.Writers = append(s.Writers, wr)
			}
			b, _ := json.Marshal(s)
			w.Write(b)
			w.WriteByte('\n')
			continue
		}
		s := Scenario{QLen: []int{1, 2, 16, 256}[rng.Intn(4)], Fault: "none"}
		nc := 1 + rng.Intn(3)
		for c := 0; c < nc; c++ {
			s.Conns = append(s.Conns, 1+c)
		}
		nw := 1 + rng.Intn(5)
		frames := 0
		for k := 0; k < nw; k++ {
			wr := Writer{End: []string{"A", "B"}[rng.Intn(2)], Conn: s.Conns[rng.Intn(nc)]}
			nm := 1 + rng.Intn(6)
			for m := 0; m < nm; m++ {
				size := rng.Intn(3000)
				switch rng.Intn(8) {
				case 0:
					size = 0
				case 1:
					size = boundary[rng.Intn(5)]
				case 2:
					if big && rng.Intn(3) == 0 {
						size = boundary[5+rng.Intn(len(boundary)-5)]
					}
				}
				wr.Msgs = append(wr.Msgs, size)
				frames += nFrames(size)
			}
			s.Writers = append(s.Writers, wr)
		}
		// readers keep up only if the queue cannot overflow while perturbed: bound the frames per connection
		switch rng.Intn(6) {
		case 0:
			s.Fault = []string{"cutAB", "cutBA"}[rng.Intn(2)]
			s.At = rng.Intn(400)
		case 1:
			s.Fault = []string{"closeA", "closeB"}[rng.Intn(2)]
			s.At = rng.Intn(frames + 1)
			s.Closers = 1 + rng.Intn(8)
		case 2:
			s.Fault = "overflow"
			s.QLen = 1 + rng.Intn(2)
			s.Stall = s.Conns[0]
			s.Writers = append(s.Writers, Writer{End: "A", Conn: s.Stall, Msgs: []int{10, 20, 30, 40, 50}})
		}
		if s.Fault == "none" {
			// "as long as the receiver keeps up with the configured queue length": keep bursts within the queue
			for s.QLen < 16 && frames > s.QLen {
				s.QLen = 256
			}
		}
		b, _ := json.Marshal(s)
		w.Write(b)
		w.WriteByte('\n')
	}
	return nil
}
