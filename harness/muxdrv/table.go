package muxdrv

// Operation sequences on the connection table of one multiplexer end
// (MuxTable.tla): Open / Close of connection handles, frames sent by the other
// end, reads, Close of the multiplexer.

import (
	"bufio"
	"encoding/json"
	"errors"
	"fmt"
	"net"
	"os"
	"strconv"
	"strings"
	"sync"
	"time"

	"github.com/containerd/nri/pkg/net/multiplex"
	"github.com/containerd/nri/pkg/vhook"

	"verif/harness/isolate"
	"verif/harness/rawpeer"
	"verif/harness/rec"
)

type TabOp struct {
	Op string `json:"op"`
	X  int    `json:"x"`
}

type TabScenario struct {
	Ops     []TabOp `json:"ops"`
	Blocked bool    `json:"blocked"` // created WithBlockedRead(): the reader starts with the first Unblock
}

// realID maps the connection ids of the scenarios to ids spread over the whole 32-bit range.
func realID(x int) multiplex.ConnID {
	switch x {
	case 2:
		return multiplex.ConnID(0x80000001)
	case 3:
		return multiplex.ConnID(0xFFFFFFFE)
	}
	return multiplex.ConnID(x)
}

type readRes struct {
	R string `json:"r"`
	N int    `json:"n"`
}

func readOnce(c net.Conn, wait time.Duration) readRes {
	type res struct {
		n   int
		err error
		buf []byte
	}
	ch := make(chan res, 1)
	go func() {
		buf := make([]byte, 256)
		n, err := c.Read(buf)
		ch <- res{n, err, buf}
	}()
	select {
	case x := <-ch:
		if x.err != nil {
			return readRes{R: "err"}
		}
		v, _ := strconv.Atoi(strings.TrimPrefix(string(x.buf[:x.n]), "m"))
		return readRes{R: "data", N: v}
	case <-time.After(wait):
		return readRes{R: "blocked"}
	}
}

// hangs counts scenarios in which Close of the multiplexer did not return; after a few of them the remaining
// scenarios of that shape are not replayed (each would cost seconds, the verdict is already there)
var hangs int

// readHangs counts scenarios in which a read that must return did not (seconds each): after ten of them nothing more is replayed
var readHangs int

func tabOne(scn int, sc TabScenario) ([]rec.Event, error) {
	evs := []rec.Event{{"ev": "Begin", "scn": scn, "ops": sc.Ops, "blocked": sc.Blocked}}
	ca, cb, err := socketPair()
	if err != nil {
		return nil, err
	}
	var (
		mu     sync.Mutex
		muxA   multiplex.Mux
		routed = map[string]chan bool{}
	)
	vhook.Set(func(point string, args ...interface{}) {
		if point != "mux.rframe" {
			return
		}
		mu.Lock()
		mine := muxA != nil && args[0] == interface{}(muxA)
		ch := routed[string(args[2].([]byte))]
		mu.Unlock()
		if mine && ch != nil {
			ch <- args[3].(bool)
		}
	})
	defer vhook.Set(nil)
	var ta net.Conn = ca
	if scn%2 == 1 {
		// a transport whose Close reports an error (it is closed all the same): nothing may depend on the report
		cut := rawpeer.NewCutter(ca)
		cut.CloseErr = errors.New("verif: transport reports an error on close")
		ta = cut
	}
	aopts := []multiplex.Option{multiplex.WithReadQueueLength(64)}
	if sc.Blocked {
		aopts = append(aopts, multiplex.WithBlockedRead())
	}
	a := multiplex.Multiplex(ta, aopts...)
	b := multiplex.Multiplex(cb, multiplex.WithReadQueueLength(64))
	// Close of the multiplexer under a deadline: it must return whether or not the reader was ever started
	hungA := false
	closeA := func() bool {
		if hungA {
			return false
		}
		ch := make(chan struct{})
		go func() { a.Close(); close(ch) }()
		select {
		case <-ch:
			return true
		case <-time.After(2 * time.Second):
			hungA = true
			return false
		}
	}
	mu.Lock()
	muxA = a
	mu.Unlock()
	defer b.Close()
	defer closeA()
	handles := []net.Conn{}
	peers := map[int]net.Conn{}
	sent := 0
	closed := false
	for i, op := range sc.Ops {
		e := rec.Event{"ev": "Op", "scn": scn, "i": i + 1, "op": op.Op, "x": op.X, "r": "", "n": 0, "h": 0, "same": true}
		switch op.Op {
		case "Open":
			// Open is atomic: several goroutines opening the same id at once all get the same connection
			const par = 4
			got := make([]net.Conn, par)
			var ow sync.WaitGroup
			for k := 0; k < par; k++ {
				ow.Add(1)
				go func(k int) {
					defer ow.Done()
					got[k], _ = a.Open(realID(op.X))
				}(k)
			}
			ow.Wait()
			c := got[0]
			if c == nil {
				return nil, fmt.Errorf("scenario %d: Open failed", scn)
			}
			same := true
			for _, g := range got {
				if g != c {
					same = false
				}
			}
			e["same"] = same
			h := 0
			for k, x := range handles {
				if x == c {
					h = k + 1
				}
			}
			if h == 0 {
				handles = append(handles, c)
				h = len(handles)
			}
			e["h"] = h
		case "Close":
			if op.X < 1 || op.X > len(handles) {
				// the real table already diverged from the specification's (an Open returned another handle): that
				// was recorded at the Open; the rest of the scenario cannot be performed
				e["r"] = "nohandle"
				evs = append(evs, e)
				goto done
			}
			done := make(chan struct{})
			go func() { handles[op.X-1].Close(); close(done) }()
			select {
			case <-done:
				e["r"] = "ok"
			case <-time.After(2 * time.Second):
				e["r"] = "blocked"
			}
		case "Send":
			p, ok := peers[op.X]
			if !ok {
				p, err = b.Open(realID(op.X))
				if err != nil {
					return nil, err
				}
				peers[op.X] = p
			}
			sent++
			payload := fmt.Sprintf("m%d", sent)
			ch := make(chan bool, 1)
			mu.Lock()
			routed[payload] = ch
			mu.Unlock()
			if _, err := p.Write([]byte(payload)); err != nil {
				e["r"] = "lost"
				break
			}
			select {
			case ok := <-ch:
				if ok {
					e["r"] = "routed"
				} else {
					e["r"] = "dropped"
				}
			case <-time.After(2 * time.Second):
				e["r"] = "lost"
			}
		case "Read":
			if op.X < 1 || op.X > len(handles) {
				e["r"] = "nohandle"
				evs = append(evs, e)
				goto done
			}
			r := readOnce(handles[op.X-1], time.Second)
			e["r"], e["n"] = r.R, r.N
		case "MClose":
			closed = true
			if !closeA() {
				// the rest of the scenario would only wait for the same hang again
				e["r"] = "hung"
				evs = append(evs, e)
				hangs++
				return append(evs, rec.Event{"ev": "End", "scn": scn, "final": []readRes{}}), nil
			}
		case "OpenLate":
			// the multiplexer is closed: no connection may come into being
			c, err := a.Open(realID(op.X))
			switch {
			case err != nil:
				e["r"] = "refused"
			case c == nil:
				e["r"] = "nil"
			default:
				e["r"] = "opened:" + readOnce(c, time.Second).R
			}
		case "Unblock":
			a.Unblock()
		default:
			return nil, fmt.Errorf("unknown table operation %q", op.Op)
		}
		evs = append(evs, e)
	}
done:
	if !closed {
		r := ""
		if !closeA() {
			r = "hung"
			hangs++
		}
		evs = append(evs, rec.Event{"ev": "Op", "scn": scn, "i": len(sc.Ops) + 1, "op": "MClose", "x": 0, "r": r, "n": 0, "h": 0, "same": true})
		if r == "hung" {
			return append(evs, rec.Event{"ev": "End", "scn": scn, "final": []readRes{}}), nil
		}
	}
	final := []readRes{}
	stuck := false
	for _, h := range handles {
		final = append(final, readOnce(h, time.Second))
		stuck = stuck || final[len(final)-1].R == "blocked"
	}
	if stuck {
		readHangs++
	}
	evs = append(evs, rec.Event{"ev": "End", "scn": scn, "final": final})
	return evs, nil
}

// RunTable replays table scenarios.
func RunTable(in, out string, skip int) error {
	f, err := os.Open(in)
	if err != nil {
		return err
	}
	defer f.Close()
	w, err := rec.NewWriter(out)
	if err != nil {
		return err
	}
	defer w.Close()
	w.Sync = true
	sc := bufio.NewScanner(f)
	sc.Buffer(make([]byte, 1<<20), 1<<24)
	n := 0
	for sc.Scan() {
		line := strings.TrimSpace(sc.Text())
		if line == "" {
			continue
		}
		n++
		if n <= skip {
			continue
		}
		var s TabScenario
		if err := json.Unmarshal([]byte(line), &s); err != nil {
			return fmt.Errorf("scenario %d: %w", n, err)
		}
		if (hangs >= 5 && s.Blocked) || readHangs >= 10 {
			// not replayed (see hangs): recorded as such
			if err := w.WriteScenario([]rec.Event{{"ev": "Begin", "scn": n, "ops": s.Ops, "blocked": s.Blocked}, {"ev": "skipped", "scn": n}, {"ev": "End", "scn": n, "final": []readRes{}}}); err != nil {
				return err
			}
			continue
		}
		done := isolate.Guard(30*time.Second, fmt.Sprintf("table scenario %d", n))
		evs, err := tabOne(n, s)
		done()
		if err != nil {
			return err
		}
		if err := w.WriteScenario(evs); err != nil {
			return err
		}
	}
	return sc.Err()
}
