// driver runs verification scenarios against the real containerd/nri code and
// records ndjson traces for validation by TLC.
package main

import (
	"encoding/json"
	"flag"
	"fmt"
	"os"

	"verif/harness/adjdrv"
	"verif/harness/ocidrv"
)

func fail(err error) {
	fmt.Fprintln(os.Stderr, "driver:", err)
	os.Exit(2)
}

func main() {
	if len(os.Args) < 2 {
		fail(fmt.Errorf("usage: driver <module> [flags]"))
	}
	mod, args := os.Args[1], os.Args[2:]
	switch mod {
	case "adjust":
		fs := flag.NewFlagSet(mod, flag.ExitOnError)
		o := adjdrv.Options{}
		fs.StringVar(&o.In, "in", "", "scenario file (ndjson)")
		fs.StringVar(&o.Out, "out", "", "trace file (ndjson)")
		fs.Int64Var(&o.Seed, "seed", 1, "seed")
		fs.IntVar(&o.Conc, "conc", 1, "concurrent callers")
		fs.IntVar(&o.Batch, "batch", 4000, "scenarios per adaptation instance")
		fs.Parse(args)
		st, err := adjdrv.Run(o)
		if err != nil {
			fail(err)
		}
		json.NewEncoder(os.Stdout).Encode(st)
	case "adjust-gen":
		fs := flag.NewFlagSet(mod, flag.ExitOnError)
		o := adjdrv.GenOptions{}
		fs.StringVar(&o.Out, "out", "", "scenario file (ndjson)")
		fs.IntVar(&o.N, "n", 1000, "number of scenarios")
		fs.Int64Var(&o.Seed, "seed", 1, "seed")
		fs.IntVar(&o.MaxNP, "maxnp", 6, "maximum number of plugins")
		fs.Float64Var(&o.Density, "density", 0, "write density (0 = mixed)")
		fs.Parse(args)
		if err := adjdrv.Generate(o); err != nil {
			fail(err)
		}
	case "oci":
		fs := flag.NewFlagSet(mod, flag.ExitOnError)
		in := fs.String("in", "", "scenario file")
		out := fs.String("out", "", "trace file")
		reps := fs.Int("reps", 16, "repetitions per pair")
		fs.Int64("seed", 1, "unused")
		fs.Parse(args)
		if err := ocidrv.Run(*in, *out, *reps); err != nil {
			fail(err)
		}
	case "oci-gen":
		fs := flag.NewFlagSet(mod, flag.ExitOnError)
		out := fs.String("out", "", "scenario file")
		n := fs.Int("n", 1000, "number of pairs")
		seed := fs.Int64("seed", 1, "seed")
		fs.Parse(args)
		if err := ocidrv.Generate(*out, *n, *seed); err != nil {
			fail(err)
		}
	default:
		fail(fmt.Errorf("unknown module %q", mod))
	}
}
