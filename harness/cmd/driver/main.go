// driver runs verification scenarios against the real containerd/nri code and
// records ndjson traces for validation by TLC.
package main

import (
	"encoding/json"
	"flag"
	"fmt"
	"os"
	"time"

	"verif/harness/adjdrv"
	"verif/harness/alifedrv"
	"verif/harness/builddrv"
	"verif/harness/convdrv"
	"verif/harness/helpdrv"
	"verif/harness/injdrv"
	"verif/harness/isolate"
	"verif/harness/launchdrv"
	"verif/harness/legacydrv"
	"verif/harness/muxdrv"
	"verif/harness/ocidrv"
	"verif/harness/relaydrv"
	"verif/harness/setupdrv"
	"verif/harness/stubdrv"
	"verif/harness/syncdrv"
)

func fail(err error) {
	fmt.Fprintln(os.Stderr, "driver:", err)
	os.Exit(2)
}

func main() {
	if os.Getenv(legacydrv.SkelEnv) != "" { // the driver executable as a plain skel.Run program (X05)
		os.Exit(legacydrv.PluginMain())
	}
	if len(os.Args) < 2 {
		fail(fmt.Errorf("usage: driver <module> [flags]"))
	}
	mod, args := os.Args[1], os.Args[2:]
	switch mod {
	case "adjust":
		fs := flag.NewFlagSet(mod, flag.ExitOnError)
		o := adjdrv.Options{}
		fs.StringVar(&o.In, "in", "", "scenario file (ndjson)")
		fs.StringVar(&o.Out, "out", "", "trace file (ndjson)")
		fs.Int64Var(&o.Seed, "seed", 1, "seed")
		fs.IntVar(&o.Conc, "conc", 1, "concurrent callers")
		fs.IntVar(&o.Batch, "batch", 4000, "scenarios per adaptation instance")
		fs.Parse(args)
		st, err := adjdrv.Run(o)
		if err != nil {
			fail(err)
		}
		json.NewEncoder(os.Stdout).Encode(st)
	case "adjust-gen":
		fs := flag.NewFlagSet(mod, flag.ExitOnError)
		o := adjdrv.GenOptions{}
		fs.StringVar(&o.Out, "out", "", "scenario file (ndjson)")
		fs.IntVar(&o.N, "n", 1000, "number of scenarios")
		fs.Int64Var(&o.Seed, "seed", 1, "seed")
		fs.IntVar(&o.MaxNP, "maxnp", 6, "maximum number of plugins")
		fs.Float64Var(&o.Density, "density", 0, "write density (0 = mixed)")
		fs.Parse(args)
		if err := adjdrv.Generate(o); err != nil {
			fail(err)
		}
	case "oci":
		fs := flag.NewFlagSet(mod, flag.ExitOnError)
		in := fs.String("in", "", "scenario file")
		out := fs.String("out", "", "trace file")
		reps := fs.Int("reps", 16, "repetitions per pair")
		fs.Int64("seed", 1, "unused")
		fs.Parse(args)
		if err := ocidrv.Run(*in, *out, *reps); err != nil {
			fail(err)
		}
	case "adaptlife":
		fs := flag.NewFlagSet(mod, flag.ExitOnError)
		in := fs.String("in", "", "schedules")
		out := fs.String("out", "", "trace file")
		par := fs.Int("par", 8, "scenarios in flight")
		fs.Parse(args)
		if err := alifedrv.Run(*in, *out, *par); err != nil {
			fail(err)
		}
	case "stubsetup":
		fs := flag.NewFlagSet(mod, flag.ExitOnError)
		in := fs.String("in", "", "scenarios")
		out := fs.String("out", "", "trace file")
		fs.Parse(args)
		if err := setupdrv.Run(*in, *out); err != nil {
			fail(err)
		}
	case "invoke": // the driver executable as a v0.1.0 plugin (X05)
		os.Exit(legacydrv.PluginMain())
	case "legacy":
		fs := flag.NewFlagSet(mod, flag.ExitOnError)
		in := fs.String("in", "", "scenarios")
		out := fs.String("out", "", "trace file")
		fs.Parse(args)
		if err := legacydrv.Run(*in, *out); err != nil {
			fail(err)
		}
	case "stubsetup-child":
		os.Exit(setupdrv.Child())
	case "apihelpers":
		fs := flag.NewFlagSet(mod, flag.ExitOnError)
		in := fs.String("in", "", "scenarios")
		out := fs.String("out", "", "trace file")
		fs.Parse(args)
		if err := helpdrv.Run(*in, *out); err != nil {
			fail(err)
		}
	case "build":
		fs := flag.NewFlagSet(mod, flag.ExitOnError)
		in := fs.String("in", "", "scenarios")
		out := fs.String("out", "", "trace file")
		fs.Parse(args)
		if err := builddrv.Run(*in, *out); err != nil {
			fail(err)
		}
	case "build-gen":
		fs := flag.NewFlagSet(mod, flag.ExitOnError)
		out := fs.String("out", "", "scenario file")
		n := fs.Int("n", 1000, "number of sequences")
		seed := fs.Int64("seed", 1, "seed")
		fs.Parse(args)
		if err := builddrv.Generate(*out, *n, *seed); err != nil {
			fail(err)
		}
	case "oci-gen":
		fs := flag.NewFlagSet(mod, flag.ExitOnError)
		out := fs.String("out", "", "scenario file")
		n := fs.Int("n", 1000, "number of pairs")
		seed := fs.Int64("seed", 1, "seed")
		fs.Parse(args)
		if err := ocidrv.Generate(*out, *n, *seed); err != nil {
			fail(err)
		}
	case "relay", "relay-child":
		fs := flag.NewFlagSet(mod, flag.ExitOnError)
		o := relaydrv.Options{}
		fs.StringVar(&o.Out, "out", "", "trace file")
		fs.Int64Var(&o.Seed, "seed", 1, "seed")
		fs.IntVar(&o.Runs, "runs", 20, "number of recorded runs")
		fs.IntVar(&o.Plugins, "plugins", 4, "plugins per run")
		fs.IntVar(&o.Callers, "callers", 3, "runtime goroutines per run")
		fs.IntVar(&o.Requests, "requests", 12, "requests per goroutine")
		fs.BoolVar(&o.Updates, "updates", false, "unsolicited updates")
		fs.BoolVar(&o.SlowUpd, "slowupd", false, "some update callbacks outlast the request timeout, some of their plugins leave meanwhile")
		fs.BoolVar(&o.Leave, "leave", false, "plugins leave during the run")
		fs.BoolVar(&o.Vetoes, "vetoes", false, "handlers sometimes return errors")
		fs.BoolVar(&o.NoBlocks, "noblocks", false, "self-test: omit the sync blocks")
		fs.BoolVar(&o.AllMasks, "allmasks", false, "enumerate masks")
		fs.IntVar(&o.MaskBase, "maskbase", 0, "first mask number with -allmasks")
		fs.IntVar(&o.Skip, "skip", 0, "runs already recorded")
		fs.String("in", "", "(child) list of runs")
		fs.Parse(args)
		if mod == "relay-child" {
			if _, err := relaydrv.Run(o); err != nil {
				fail(err)
			}
			return
		}
		// the runs are recorded by child processes: a panic or a deadlock of the runtime side ends one child and
		// is a recorded outcome of the run in flight; the next child continues with the following run
		tmp, err := os.CreateTemp("", "relay-runs")
		if err != nil {
			fail(err)
		}
		for i := 0; i < o.Runs; i++ {
			fmt.Fprintln(tmp, "{}")
		}
		tmp.Close()
		defer os.Remove(tmp.Name())
		extra := []string{}
		for _, a := range args { // everything but -out goes to the children unchanged
			extra = append(extra, a)
		}
		for i := 0; i+1 < len(extra); i++ {
			if extra[i] == "-out" {
				extra = append(extra[:i], extra[i+2:]...)
				break
			}
		}
		n, err := isolate.RunWith("relay-child", tmp.Name(), o.Out, extra, 150*time.Second,
			map[string]any{"plugins": o.Plugins, "callers": o.Callers, "timeout_ms": 2000})
		if err != nil {
			fail(err)
		}
		fmt.Printf("{\"events\":%d}\n", n)
	case "faults":
		// one child process for as many scenarios as survive: a panic of the runtime side is a recorded outcome
		fs := flag.NewFlagSet(mod, flag.ExitOnError)
		in := fs.String("in", "", "fault scenarios (ndjson)")
		out := fs.String("out", "", "trace file")
		seed := fs.Int64("seed", 1, "seed")
		fs.Parse(args)
		n, err := isolate.RunWith("faults-child", *in, *out, []string{"-seed", fmt.Sprint(*seed)}, 40*time.Second,
			map[string]any{"plugins": 3, "callers": 1, "timeout_ms": 300, "fault": "crash", "pos": 0, "k": 0, "kind": ""})
		if err != nil {
			fail(err)
		}
		fmt.Printf("{\"events\":%d}\n", n)
	case "faults-child":
		fs := flag.NewFlagSet(mod, flag.ExitOnError)
		in := fs.String("in", "", "fault scenarios (ndjson)")
		out := fs.String("out", "", "trace file")
		seed := fs.Int64("seed", 1, "seed")
		skip := fs.Int("skip", 0, "scenarios to skip")
		fs.Parse(args)
		if _, err := relaydrv.RunFaults(*in, *out, *seed, *skip); err != nil {
			fail(err)
		}
	case "regs":
		fs := flag.NewFlagSet(mod, flag.ExitOnError)
		in := fs.String("in", "", "registration scenarios (ndjson)")
		out := fs.String("out", "", "trace file")
		seed := fs.Int64("seed", 1, "seed")
		fs.Parse(args)
		n, err := relaydrv.RunRegs(*in, *out, *seed)
		if err != nil {
			fail(err)
		}
		fmt.Printf("{\"events\":%d}\n", n)
	case "sync":
		fs := flag.NewFlagSet(mod, flag.ExitOnError)
		in := fs.String("in", "", "size profiles (ndjson)")
		out := fs.String("out", "", "trace file")
		fs.Int64("seed", 1, "unused")
		fs.Parse(args)
		n, err := syncdrv.Run(*in, *out)
		if err != nil {
			fail(err)
		}
		fmt.Printf("{\"events\":%d}\n", n)
	case "sync-child":
		fs := flag.NewFlagSet(mod, flag.ExitOnError)
		n := fs.Int("n", 1, "scenario number")
		scen := fs.String("scenario", "", "scenario json")
		out := fs.String("out", "", "event file")
		fs.Parse(args)
		var sc syncdrv.Scenario
		if err := json.Unmarshal([]byte(*scen), &sc); err != nil {
			fail(err)
		}
		if err := syncdrv.RunChild(*n, sc, *out); err != nil {
			fail(err)
		}
	case "mux":
		fs := flag.NewFlagSet(mod, flag.ExitOnError)
		in := fs.String("in", "", "scenarios")
		out := fs.String("out", "", "trace file")
		seed := fs.Int64("seed", 1, "seed")
		fs.Parse(args)
		n, err := isolate.Run("mux-child", *in, *out, []string{"-seed", fmt.Sprint(*seed)}, 15*time.Second)
		if err != nil {
			fail(err)
		}
		fmt.Printf("{\"events\":%d}\n", n)
	case "mux-child":
		fs := flag.NewFlagSet(mod, flag.ExitOnError)
		in := fs.String("in", "", "scenarios")
		out := fs.String("out", "", "trace file")
		seed := fs.Int64("seed", 1, "seed")
		skip := fs.Int("skip", 0, "scenarios to skip")
		fs.Parse(args)
		if _, err := muxdrv.Run(*in, *out, *seed, *skip); err != nil {
			fail(err)
		}
	case "muxtable":
		fs := flag.NewFlagSet(mod, flag.ExitOnError)
		in := fs.String("in", "", "scenarios")
		out := fs.String("out", "", "trace file")
		fs.Parse(args)
		n, err := isolate.RunWith("muxtable-child", *in, *out, nil, 5*time.Second, map[string]any{"ops": []int{}, "blocked": false})
		if err != nil {
			fail(err)
		}
		fmt.Printf("{\"events\":%d}\n", n)
	case "muxtable-child":
		fs := flag.NewFlagSet(mod, flag.ExitOnError)
		in := fs.String("in", "", "scenarios")
		out := fs.String("out", "", "trace file")
		skip := fs.Int("skip", 0, "scenarios to skip")
		fs.Parse(args)
		if err := muxdrv.RunTable(*in, *out, *skip); err != nil {
			fail(err)
		}
	case "mux-gen":
		fs := flag.NewFlagSet(mod, flag.ExitOnError)
		out := fs.String("out", "", "scenario file")
		n := fs.Int("n", 100, "number of scenarios")
		seed := fs.Int64("seed", 1, "seed")
		big := fs.Bool("big", false, "include multi-megabyte boundary sizes")
		sweep := fs.Int("sweep", 300, "every message size up to this one")
		fs.Parse(args)
		if err := muxdrv.Generate(*out, *n, *seed, *big, *sweep); err != nil {
			fail(err)
		}
	case "life":
		fs := flag.NewFlagSet(mod, flag.ExitOnError)
		in := fs.String("in", "", "scenarios")
		out := fs.String("out", "", "trace file")
		fs.Int64("seed", 1, "unused")
		skip := fs.Int("skip", 0, "scenarios to skip")
		fs.Parse(args)
		n, err := stubdrv.RunLife(*in, *out, *skip)
		if err != nil {
			fail(err)
		}
		fmt.Printf("{\"events\":%d}\n", n)
	case "convert":
		fs := flag.NewFlagSet(mod, flag.ExitOnError)
		in := fs.String("in", "", "scenarios")
		out := fs.String("out", "", "trace file")
		fs.Parse(args)
		if err := convdrv.Run(*in, *out); err != nil {
			fail(err)
		}
	case "inject":
		fs := flag.NewFlagSet(mod, flag.ExitOnError)
		in := fs.String("in", "", "scenarios")
		out := fs.String("out", "", "trace file")
		bin := fs.String("bindir", "", "directory with the built sample plugin binaries")
		fs.Parse(args)
		if err := injdrv.Run(*in, *out, *bin); err != nil {
			fail(err)
		}
	case "launch":
		fs := flag.NewFlagSet(mod, flag.ExitOnError)
		in := fs.String("in", "", "scenarios")
		out := fs.String("out", "", "trace file")
		probe := fs.String("probe", "", "the built probe plugin binary")
		fs.Parse(args)
		if err := launchdrv.Run(*in, *out, *probe); err != nil {
			fail(err)
		}
	default:
		fail(fmt.Errorf("unknown module %q", mod))
	}
}
