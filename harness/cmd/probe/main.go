// probe is a plugin built on the real stub that reports how it was launched:
// its environment, open descriptors, the configuration it was given and the
// events it receives. Its behaviour is chosen by a control file
// <plugin dir>/../ctl/<binary name>.json written by the driver (C18).
package main

import (
	"context"
	"encoding/json"
	"errors"
	"fmt"
	"os"
	"os/signal"
	"path/filepath"
	"sort"
	"strings"
	"sync"
	"syscall"
	"time"

	"github.com/containerd/nri/pkg/api"
	"github.com/containerd/nri/pkg/stub"
)

type ctl struct {
	Behaviour string `json:"behaviour"` // healthy | exit | noregister | dielater
	Reports   string `json:"reports"`
}

type report struct {
	Name   string            `json:"name"`
	Pid    int               `json:"pid"`
	Env    []string          `json:"env"`
	Fds    map[string]string `json:"fds"`
	Args   []string          `json:"args"`
	Config string            `json:"config"`
	Cfgd   bool              `json:"configured"`
}

type plugin struct {
	mu       sync.Mutex
	rep      *report
	path     string
	dir      string
	die      bool
	failSync bool
	hang     bool
	linger   bool
	st       stub.Stub
}

func (p *plugin) save() {
	b, _ := json.Marshal(p.rep)
	tmp := p.path + ".tmp"
	os.WriteFile(tmp, b, 0o644)
	os.Rename(tmp, p.path)
}

func (p *plugin) Configure(_ context.Context, cfg, rt, ver string) (api.EventMask, error) {
	p.mu.Lock()
	p.rep.Config, p.rep.Cfgd = cfg, true
	p.save()
	p.mu.Unlock()
	return 0, nil
}

func (p *plugin) Synchronize(context.Context, []*api.PodSandbox, []*api.Container) ([]*api.ContainerUpdate, error) {
	if p.failSync {
		return nil, errors.New("probe: deliberate synchronization failure")
	}
	if p.linger && p.st != nil {
		// closes its connection soon after it was synchronized - and stays around: NRI has to kill it when it stops
		go func() { time.Sleep(100 * time.Millisecond); p.st.Stop() }()
	}
	return nil, nil
}

func (p *plugin) RunPodSandbox(_ context.Context, pod *api.PodSandbox) error {
	f, err := os.OpenFile(filepath.Join(p.dir, "order.log"), os.O_APPEND|os.O_CREATE|os.O_WRONLY, 0o644)
	if err == nil {
		fmt.Fprintf(f, "%s %s\n", p.rep.Name, pod.GetId())
		f.Close()
	}
	if p.die {
		go func() { time.Sleep(2 * time.Millisecond); os.Exit(3) }()
	}
	if p.hang {
		time.Sleep(time.Hour) // never answers: the runtime drops the plugin after the request timeout - and must kill it
	}
	return nil
}

func main() {
	exe, _ := os.Executable()
	name := filepath.Base(os.Args[0])
	root := filepath.Dir(filepath.Dir(exe))
	var c ctl
	if b, err := os.ReadFile(filepath.Join(root, "ctl", name+".json")); err == nil {
		json.Unmarshal(b, &c)
	}
	if c.Reports == "" {
		c.Reports = filepath.Join(root, "reports")
	}
	rep := &report{Name: name, Pid: os.Getpid(), Env: os.Environ(), Args: os.Args, Fds: map[string]string{}}
	sort.Strings(rep.Env)
	if ents, err := os.ReadDir("/proc/self/fd"); err == nil {
		for _, e := range ents {
			t, err := os.Readlink("/proc/self/fd/" + e.Name())
			if err != nil {
				continue // the descriptor of the directory listing itself
			}
			if strings.HasPrefix(t, "/proc/") && strings.HasSuffix(t, "/fd") {
				continue
			}
			rep.Fds[e.Name()] = t
		}
	}
	p := &plugin{rep: rep, dir: c.Reports, path: filepath.Join(c.Reports, fmt.Sprintf("%s.%d.json", name, os.Getpid())), die: c.Behaviour == "dielater", failSync: c.Behaviour == "failsync", hang: c.Behaviour == "hang",
		linger: c.Behaviour == "linger"}
	stays := c.Behaviour == "hang" || c.Behaviour == "linger" || c.Behaviour == "stubborn"
	if c.Behaviour == "stubborn" {
		// healthy, but deaf to polite requests to leave: only a kill ends it
		signal.Ignore(syscall.SIGINT, syscall.SIGTERM, syscall.SIGHUP, syscall.SIGQUIT)
	}
	p.save()
	switch c.Behaviour {
	case "exit":
		os.Exit(1)
	case "noregister":
		time.Sleep(time.Hour)
	}
	opts := []stub.Option{stub.WithOnClose(func() {
		if !stays { // these do not even leave when their connection is closed: they have to be killed
			os.Exit(0)
		}
	})}
	if c.Behaviour == "liar" {
		// registers under an identity of its own choosing (the environment was recorded above)
		os.Unsetenv("NRI_PLUGIN_NAME")
		os.Unsetenv("NRI_PLUGIN_IDX")
		opts = append(opts, stub.WithPluginName("liar"), stub.WithPluginIdx("90"))
	}
	st, err := stub.New(p, opts...)
	if err != nil {
		fmt.Fprintln(os.Stderr, "probe:", err)
		os.Exit(2)
	}
	p.st = st
	err = st.Run(context.Background())
	if stays {
		time.Sleep(time.Hour)
	}
	if err != nil {
		os.Exit(4)
	}
}
