// Package rec writes ndjson traces for TLC: one scenario = a contiguous run of
// events starting with a "Begin" event; every line carries "nb", the 1-based
// line number of the next scenario's Begin (so the trace specification can skip
// the rest of a rejected scenario in one step).
package rec

import (
	"bufio"
	"encoding/json"
	"os"
	"sync"
)

type Event map[string]any

type Writer struct {
	mu    sync.Mutex
	f     *os.File
	w     *bufio.Writer
	lines int
	Scns  int
	Sync  bool // flush after every scenario (crash isolation)
}

func NewWriter(path string) (*Writer, error) {
	f, err := os.Create(path)
	if err != nil {
		return nil, err
	}
	return &Writer{f: f, w: bufio.NewWriterSize(f, 1<<20)}, nil
}

// WriteScenario appends all events of one scenario atomically.
func (w *Writer) WriteScenario(evs []Event) error {
	w.mu.Lock()
	defer w.mu.Unlock()
	nb := w.lines + len(evs) + 1
	for _, e := range evs {
		e["nb"] = nb
		b, err := json.Marshal(e)
		if err != nil {
			return err
		}
		w.w.Write(b)
		w.w.WriteByte('\n')
	}
	w.lines += len(evs)
	w.Scns++
	if w.Sync {
		return w.w.Flush()
	}
	return nil
}

func (w *Writer) Lines() int {
	w.mu.Lock()
	defer w.mu.Unlock()
	return w.lines
}

func (w *Writer) Close() error {
	w.mu.Lock()
	defer w.mu.Unlock()
	if err := w.w.Flush(); err != nil {
		return err
	}
	return w.f.Close()
}

// Buf collects the events of one scenario from several goroutines.
type Buf struct {
	mu  sync.Mutex
	evs []Event
}

func (b *Buf) Add(e Event) {
	b.mu.Lock()
	b.evs = append(b.evs, e)
	b.mu.Unlock()
}

func (b *Buf) Events() []Event {
	b.mu.Lock()
	defer b.mu.Unlock()
	return b.evs
}
