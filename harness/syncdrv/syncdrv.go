// Package syncdrv registers one real stub plugin against a real Adaptation
// whose runtime state has a given size profile (C09). Each scenario runs in a
// child process, so that a panic or hang of the runtime side is observed as
// such and attributed to its scenario.
package syncdrv

import (
	"bufio"
	"bytes"
	"context"
	"encoding/json"
	"errors"
	"fmt"
	"os"
	"os/exec"
	"strings"
	"sync"
	"time"

	"github.com/containerd/nri/pkg/adaptation"
	"github.com/containerd/nri/pkg/api"
	"github.com/containerd/nri/pkg/stub"
	"github.com/containerd/nri/pkg/vhook"
	"github.com/containerd/ttrpc"

	"verif/harness/rec"
	"verif/harness/rig"
)

// Scenario is a size profile: object sizes in units of Unit bytes.
type Scenario struct {
	Pods []int `json:"pods"`
	Ctrs []int `json:"ctrs"`
	// Small > 0: sizes are in bytes instead of units (many small objects)
	Small bool `json:"small"`
	// Expect: what the specified policy makes of this profile ("ok" | "fail"; "" = not computed)
	Expect string `json:"expect"`
}

const Unit = 512 * 1024
const slack = 2 * 1024

func payload(size int, small bool) string {
	n := size*Unit - slack
	if small {
		n = size
	}
	if n < 0 {
		n = 0
	}
	return strings.Repeat("x", n)
}

// RunChild executes one scenario and writes its events (ndjson, no nb) to out.
func RunChild(scn int, sc Scenario, out string) error {
	f, err := os.Create(out)
	if err != nil {
		return err
	}
	defer f.Close()
	var mu sync.Mutex
	phase := "" // "other": another plugin registers with the same state; "again": second session of the first stub
	ev := func(name string, kv ...any) {
		mu.Lock()
		if phase != "" && name != "End" && !strings.HasPrefix(name, phase+".") {
			name = phase + "." + name
		}
		mu.Unlock()
		e := rec.Event{"ev": name, "scn": scn}
		for i := 0; i+1 < len(kv); i += 2 {
			e[kv[i].(string)] = kv[i+1]
		}
		b, _ := json.Marshal(e)
		mu.Lock()
		f.Write(append(b, '\n'))
		f.Sync()
		mu.Unlock()
	}
	var pods []*api.PodSandbox
	var ctrs []*api.Container
	pids, cids := []string{}, []string{}
	for i, s := range sc.Pods {
		id := fmt.Sprintf("pod%d", i)
		pods = append(pods, &api.PodSandbox{Id: id, Name: id, Annotations: map[string]string{"pad": payload(s, sc.Small)}})
		pids = append(pids, id)
	}
	for i, s := range sc.Ctrs {
		id := fmt.Sprintf("ctr%d", i)
		ctrs = append(ctrs, &api.Container{Id: id, Name: id, Annotations: map[string]string{"pad": payload(s, sc.Small)}})
		cids = append(cids, id)
	}
	ev("Begin", "pods", pids, "ctrs", cids, "psize", sc.Pods, "csize", sc.Ctrs, "small", sc.Small, "limit", 8, "minobjs", 8, "expect", sc.Expect)

	r, err := rig.New()
	if err != nil {
		return err
	}
	defer r.Close()
	r.SyncOverride = func(ctx context.Context, cb adaptation.SyncCB) error {
		us, err := cb(ctx, pods, ctrs)
		ids := []string{}
		for _, u := range us {
			ids = append(ids, u.ContainerId)
		}
		et := ""
		if err != nil {
			et = err.Error()
		}
		ev("updates", "ids", ids, "err", et)
		return err
	}
	finished := make(chan struct{}, 4)
	vhook.Set(func(point string, args ...interface{}) {
		switch point {
		case "syncmsg.send":
			ev("send", "np", args[1].(int), "nc", args[2].(int), "more", args[3].(bool))
		case "syncmsg.result":
			var e error
			if x, ok := args[1].(error); ok {
				e = x
			}
			var ov *ttrpc.OversizedMessageErr
			et := ""
			if e != nil {
				et = e.Error()
				if len(et) > 200 {
					et = et[:200]
				}
			}
			ev("result", "ok", e == nil, "oversize", e != nil && errors.As(e, &ov), "errtext", et)
		case "sync.synced":
			et := ""
			if x, ok := args[1].(error); ok && x != nil {
				et = x.Error()
				if len(et) > 200 {
					et = et[:200]
				}
			}
			ev("synced", "err", et)
		case "sync.activated":
			ev("activated", "p", args[0].(string))
		case "sync.finish":
			finished <- struct{}{}
		}
	})
	defer vhook.Set(nil)
	h := &rig.Handlers{
		Sync: func(p *rig.Plugin, ps []*api.PodSandbox, cs []*api.Container) ([]*api.ContainerUpdate, error) {
			gp, gc := []string{}, []string{}
			intact := true
			for i, x := range ps {
				gp = append(gp, x.Id)
				if i < len(pods) && x.Annotations["pad"] != pods[i].Annotations["pad"] {
					intact = false
				}
			}
			for i, x := range cs {
				gc = append(gc, x.Id)
				if i < len(ctrs) && x.Annotations["pad"] != ctrs[i].Annotations["pad"] {
					intact = false
				}
			}
			mu.Lock()
			ph := phase
			mu.Unlock()
			switch ph {
			case "again":
				ev("again.handler", "pods", gp, "ctrs", gc)
			case "other":
				ev("other.handler", "pods", gp, "ctrs", gc, "intact", intact)
			default:
				ev("handler", "pods", gp, "ctrs", gc, "intact", intact)
			}
			return []*api.ContainerUpdate{{ContainerId: "su-1"}, {ContainerId: "su-2"}}, nil
		},
	}
	// the stub is created here (not by the rig) so that it can be started again after a failed first session
	plug := &rig.Plugin{Name: "syncp", Idx: "10", H: h}
	st, err := stub.New(plug, stub.WithPluginName("syncp"), stub.WithPluginIdx("10"), stub.WithSocketPath(r.Socket),
		stub.WithOnClose(func() {}))
	if err != nil {
		return err
	}
	plug.Stub = st
	startErr := make(chan error, 1)
	go func() { startErr <- st.Start(context.Background()) }()
	hung := false
	select {
	case <-finished:
	case <-time.After(20 * time.Second):
		hung = true
	}
	se := ""
	select {
	case e := <-startErr:
		if e != nil {
			se = e.Error()
		}
	case <-time.After(3 * time.Second):
		se = "stub start did not return"
	}
	if !hung && se == "" {
		// another plugin registers while the first is active: it gets the same, complete state
		mu.Lock()
		phase = "other"
		mu.Unlock()
		for len(finished) > 0 {
			<-finished
		}
		q := &rig.Plugin{Name: "syncq", Idx: "20", H: h}
		if sq, err := stub.New(q, stub.WithPluginName("syncq"), stub.WithPluginIdx("20"), stub.WithSocketPath(r.Socket),
			stub.WithOnClose(func() {})); err == nil {
			q.Stub = sq
			qerr := make(chan error, 1)
			go func() { qerr <- sq.Start(context.Background()) }()
			hq := false
			select {
			case <-finished:
			case <-time.After(10 * time.Second):
				hq = true
			}
			sq2 := ""
			select {
			case e := <-qerr:
				if e != nil {
					sq2 = e.Error()
				}
			case <-time.After(3 * time.Second):
				sq2 = "stub start did not return"
			}
			ev("other.end", "hung", hq, "text", sq2)
			sq.Stop()
		}
	}
	if !hung {
		// a second session of the same stub with another, small state: nothing of the first session may be left
		st.Stop()
		mu.Lock()
		phase = "again"
		mu.Unlock()
		pods = []*api.PodSandbox{{Id: "again-pod0", Name: "p"}, {Id: "again-pod1", Name: "p"}}
		ctrs = []*api.Container{{Id: "again-ctr0", Name: "c"}, {Id: "again-ctr1", Name: "c"}, {Id: "again-ctr2", Name: "c"}}
		for len(finished) > 0 {
			<-finished
		}
		go func() { startErr <- st.Start(context.Background()) }()
		h2 := false
		select {
		case <-finished:
		case <-time.After(10 * time.Second):
			h2 = true
		}
		s2 := ""
		select {
		case e := <-startErr:
			if e != nil {
				s2 = e.Error()
			}
		case <-time.After(3 * time.Second):
			s2 = "stub start did not return"
		}
		ev("again.end", "hung", h2, "text", s2)
		st.Stop()
	}
	ev("End", "crashed", false, "hung", hung, "text", se)
	return nil
}

// Run executes all scenarios of `in`, each in a child process, and writes the trace.
func Run(in, out string) (int, error) {
	f, err := os.Open(in)
	if err != nil {
		return 0, err
	}
	defer f.Close()
	w, err := rec.NewWriter(out)
	if err != nil {
		return 0, err
	}
	defer w.Close()
	exe, err := os.Executable()
	if err != nil {
		return 0, err
	}
	tmp, err := os.MkdirTemp("", "vsync")
	if err != nil {
		return 0, err
	}
	defer os.RemoveAll(tmp)
	sc := bufio.NewScanner(f)
	sc.Buffer(make([]byte, 1<<20), 1<<26)
	n := 0
	for sc.Scan() {
		line := strings.TrimSpace(sc.Text())
		if line == "" {
			continue
		}
		n++
		cf := fmt.Sprintf("%s/child-%d.ndjson", tmp, n)
		cmd := exec.Command(exe, "sync-child", "-n", fmt.Sprint(n), "-scenario", line, "-out", cf)
		var stderr bytes.Buffer
		cmd.Stderr = &stderr
		done := make(chan error, 1)
		if err := cmd.Start(); err != nil {
			return 0, err
		}
		go func() { done <- cmd.Wait() }()
		var cerr error
		killed := false
		select {
		case cerr = <-done:
		case <-time.After(60 * time.Second):
			cmd.Process.Kill()
			cerr = <-done
			killed = true
		}
		evs := []rec.Event{}
		if b, err := os.ReadFile(cf); err == nil {
			for _, l := range strings.Split(string(b), "\n") {
				if strings.TrimSpace(l) == "" {
					continue
				}
				e := rec.Event{}
				if json.Unmarshal([]byte(l), &e) == nil {
					evs = append(evs, e)
				}
			}
		}
		os.Remove(cf)
		hasEnd := len(evs) > 0 && evs[len(evs)-1]["ev"] == "End"
		if len(evs) == 0 {
			return 0, fmt.Errorf("scenario %d: child produced no events: %v %s", n, cerr, stderr.String())
		}
		if !hasEnd {
			// the runtime side died (panic) or had to be killed: that is an observation
			txt := stderr.String()
			if i := strings.Index(txt, "panic:"); i >= 0 {
				txt = txt[i:]
			}
			if len(txt) > 300 {
				txt = txt[:300]
			}
			evs = append(evs, rec.Event{"ev": "End", "scn": n, "crashed": !killed, "hung": killed, "text": txt})
		}
		if err := w.WriteScenario(evs); err != nil {
			return 0, err
		}
	}
	return w.Lines(), sc.Err()
}
