// Package rig starts a real Adaptation on a unix socket in a scratch directory
// and real stub-based plugins with scriptable handlers.
package rig

import (
	"context"
	"fmt"
	"os"
	"path/filepath"
	"sync"
	"sync/atomic"
	"time"

	"github.com/containerd/nri/pkg/adaptation"
	"github.com/containerd/nri/pkg/api"
	"github.com/containerd/nri/pkg/stub"
	"github.com/sirupsen/logrus"
)

func init() {
	logrus.SetLevel(logrus.PanicLevel)
	logrus.SetOutput(os.Stderr)
}

// Handlers are the scriptable reactions of a plugin. Nil entries behave as a
// plugin that does nothing.
type Handlers struct {
	Create func(p *Plugin, pod *api.PodSandbox, c *api.Container) (*api.ContainerAdjustment, []*api.ContainerUpdate, error)
	Update func(p *Plugin, pod *api.PodSandbox, c *api.Container, r *api.LinuxResources) ([]*api.ContainerUpdate, error)
	Stop   func(p *Plugin, pod *api.PodSandbox, c *api.Container) ([]*api.ContainerUpdate, error)
	Sync   func(p *Plugin, pods []*api.PodSandbox, ctrs []*api.Container) ([]*api.ContainerUpdate, error)
	Event  func(p *Plugin, ev string, pod *api.PodSandbox, c *api.Container) error
	// Configure overrides the default (return p.Mask)
	Configure func(p *Plugin, cfg, runtime, version string) (api.EventMask, error)
}

// Plugin is a real stub-based plugin implementing every handler interface.
type Plugin struct {
	Name   string // base name
	Idx    string // two-digit index
	Pos    int    // position in the driver's own numbering
	Stub   stub.Stub
	Mask   api.EventMask // subscription asked for at configuration time (0 = everything implemented)
	H      *Handlers
	Closed atomic.Int32
	probes atomic.Int32
	// ProbeSeq is the global sequence number of the last probe this plugin saw: the order in which the adaptation
	// invoked the plugins for that probe (needed where two plugins carry the same index and name)
	ProbeSeq atomic.Int64
}

var probeSeq atomic.Int64

func (p *Plugin) FullName() string { return p.Idx + "-" + p.Name }

func (p *Plugin) Synchronize(_ context.Context, pods []*api.PodSandbox, ctrs []*api.Container) ([]*api.ContainerUpdate, error) {
	if p.H != nil && p.H.Sync != nil {
		return p.H.Sync(p, pods, ctrs)
	}
	return nil, nil
}

func (p *Plugin) CreateContainer(_ context.Context, pod *api.PodSandbox, c *api.Container) (*api.ContainerAdjustment, []*api.ContainerUpdate, error) {
	if p.H != nil && p.H.Create != nil {
		return p.H.Create(p, pod, c)
	}
	return nil, nil, nil
}

func (p *Plugin) UpdateContainer(_ context.Context, pod *api.PodSandbox, c *api.Container, r *api.LinuxResources) ([]*api.ContainerUpdate, error) {
	if p.H != nil && p.H.Update != nil {
		return p.H.Update(p, pod, c, r)
	}
	return nil, nil
}

func (p *Plugin) StopContainer(_ context.Context, pod *api.PodSandbox, c *api.Container) ([]*api.ContainerUpdate, error) {
	if p.H != nil && p.H.Stop != nil {
		return p.H.Stop(p, pod, c)
	}
	return nil, nil
}

func (p *Plugin) Configure(_ context.Context, cfg, runtime, version string) (api.EventMask, error) {
	if p.H != nil && p.H.Configure != nil {
		return p.H.Configure(p, cfg, runtime, version)
	}
	return p.Mask, nil
}

func (p *Plugin) event(ev string, pod *api.PodSandbox, c *api.Container) error {
	if p.H != nil && p.H.Event != nil {
		return p.H.Event(p, ev, pod, c)
	}
	return nil
}

func (p *Plugin) UpdatePodSandbox(_ context.Context, pod *api.PodSandbox, _, _ *api.LinuxResources) error {
	return p.event("UpdatePodSandbox", pod, nil)
}
func (p *Plugin) PostUpdatePodSandbox(_ context.Context, pod *api.PodSandbox) error {
	return p.event("PostUpdatePodSandbox", pod, nil)
}
func (p *Plugin) StopPodSandbox(_ context.Context, pod *api.PodSandbox) error {
	return p.event("StopPodSandbox", pod, nil)
}
func (p *Plugin) RemovePodSandbox(_ context.Context, pod *api.PodSandbox) error {
	return p.event("RemovePodSandbox", pod, nil)
}
func (p *Plugin) PostCreateContainer(_ context.Context, pod *api.PodSandbox, c *api.Container) error {
	return p.event("PostCreateContainer", pod, c)
}
func (p *Plugin) StartContainer(_ context.Context, pod *api.PodSandbox, c *api.Container) error {
	return p.event("StartContainer", pod, c)
}
func (p *Plugin) PostStartContainer(_ context.Context, pod *api.PodSandbox, c *api.Container) error {
	return p.event("PostStartContainer", pod, c)
}
func (p *Plugin) PostUpdateContainer(_ context.Context, pod *api.PodSandbox, c *api.Container) error {
	return p.event("PostUpdateContainer", pod, c)
}
func (p *Plugin) RemoveContainer(_ context.Context, pod *api.PodSandbox, c *api.Container) error {
	return p.event("RemoveContainer", pod, c)
}

const ProbePod = "verif-probe-pod"

func (p *Plugin) RunPodSandbox(_ context.Context, pod *api.PodSandbox) error {
	if pod != nil && pod.Id == ProbePod {
		p.ProbeSeq.Store(probeSeq.Add(1))
		p.probes.Add(1)
		return nil
	}
	if p.H != nil && p.H.Event != nil {
		return p.H.Event(p, "RunPodSandbox", pod, nil)
	}
	return nil
}

// Rig is one Adaptation with its plugins.
type Rig struct {
	Dir     string
	Socket  string
	Ad      *adaptation.Adaptation
	Plugins []*Plugin
	mu      sync.Mutex
	// state handed to synchronizing plugins
	Pods  []*api.PodSandbox
	Ctrs  []*api.Container
	OnUpd func(context.Context, []*api.ContainerUpdate) ([]*api.ContainerUpdate, error)
	// SyncOverride replaces the default SyncFn (which hands out Pods/Ctrs)
	SyncOverride func(context.Context, adaptation.SyncCB) error
}

// New creates and starts an Adaptation listening on a socket in a fresh directory.
// BeforeStart, when set, is called with the adaptation between its creation and its Start (a runtime that takes a
// plugin-sync block before it opens the socket).
var BeforeStart func(*adaptation.Adaptation)

func New(opts ...adaptation.Option) (*Rig, error) {
	dir, err := os.MkdirTemp("", "vrig")
	if err != nil {
		return nil, err
	}
	r := &Rig{Dir: dir, Socket: filepath.Join(dir, "nri.sock")}
	syncFn := func(ctx context.Context, cb adaptation.SyncCB) error {
		if r.SyncOverride != nil {
			return r.SyncOverride(ctx, cb)
		}
		r.mu.Lock()
		pods, ctrs := r.Pods, r.Ctrs
		r.mu.Unlock()
		_, err := cb(ctx, pods, ctrs)
		return err
	}
	updFn := func(ctx context.Context, u []*api.ContainerUpdate) ([]*api.ContainerUpdate, error) {
		if r.OnUpd != nil {
			return r.OnUpd(ctx, u)
		}
		return nil, nil
	}
	all := append([]adaptation.Option{
		adaptation.WithSocketPath(r.Socket),
		adaptation.WithPluginPath(filepath.Join(dir, "plugins")),
		adaptation.WithPluginConfigPath(filepath.Join(dir, "conf.d")),
	}, opts...)
	ad, err := adaptation.New("verif", "1.0", syncFn, updFn, all...)
	if err != nil {
		os.RemoveAll(dir)
		return nil, err
	}
	if BeforeStart != nil {
		BeforeStart(ad)
	}
	if err := ad.Start(); err != nil {
		os.RemoveAll(dir)
		return nil, err
	}
	r.Ad = ad
	return r, nil
}

// AddPlugin starts a stub plugin and waits until its Start returned.
func (r *Rig) AddPlugin(name, idx string, pos int, h *Handlers) (*Plugin, error) {
	return r.AddPluginMask(name, idx, pos, 0, h)
}

// AddPluginMask is AddPlugin with a configuration-time subscription mask.
func (r *Rig) AddPluginMask(name, idx string, pos int, mask api.EventMask, h *Handlers) (*Plugin, error) {
	p := &Plugin{Name: name, Idx: idx, Pos: pos, H: h, Mask: mask}
	st, err := stub.New(p,
		stub.WithPluginName(name), stub.WithPluginIdx(idx),
		stub.WithSocketPath(r.Socket),
		stub.WithOnClose(func() { p.Closed.Add(1) }))
	if err != nil {
		return nil, err
	}
	p.Stub = st
	if err := st.Start(context.Background()); err != nil {
		return nil, fmt.Errorf("start %s: %w", p.FullName(), err)
	}
	r.mu.Lock()
	r.Plugins = append(r.Plugins, p)
	r.mu.Unlock()
	return p, nil
}

// WaitActive relays probe events until every plugin in ps has seen one, i.e.
// is part of the active plugin list of the adaptation.
func (r *Rig) WaitActive(ps []*Plugin, timeout time.Duration) error {
	deadline := time.Now().Add(timeout)
	for {
		base := make([]int32, len(ps))
		for i, p := range ps {
			base[i] = p.probes.Load()
		}
		err := r.Ad.RunPodSandbox(context.Background(), &api.StateChangeEvent{Pod: &api.PodSandbox{Id: ProbePod}})
		if err != nil {
			return err
		}
		ok := true
		for i, p := range ps {
			if p.probes.Load() == base[i] {
				ok = false
			}
		}
		if ok {
			return nil
		}
		if time.Now().After(deadline) {
			return fmt.Errorf("plugins did not become active within %v", timeout)
		}
		time.Sleep(200 * time.Microsecond)
	}
}

// Close stops plugins and the adaptation and removes the scratch directory.
func (r *Rig) Close() {
	for _, p := range r.Plugins {
		p.Stub.Stop()
	}
	r.Ad.Stop()
	os.RemoveAll(r.Dir)
}
