// Package isolate runs a scenario-replaying driver mode in child processes so
// that a panic of the code under test is observed and attributed to the
// scenario in flight instead of killing the whole recording.
package isolate

import (
	"bufio"
	"bytes"
	"encoding/json"
	"fmt"
	"os"
	"os/exec"
	"strings"
	"time"
)

// Run executes `<exe> <childMode> -in in -out part -skip N` repeatedly until all
// scenarios of `in` are done; a crashed child yields a scenario "Begin, crash, End".
func Run(childMode, in, out string, extra []string, perScenario time.Duration) (int, error) {
	return RunWith(childMode, in, out, extra, perScenario, map[string]any{"qlen": 0, "conns": []int{}, "fault": "crash", "at": 0, "closers": 0, "stall": 0})
}

// RunWith is Run with the fields the "Begin" event of a crashed scenario carries (what the trace
// specification of the module reads from a Begin line).
func RunWith(childMode, in, out string, extra []string, perScenario time.Duration, crashBegin map[string]any) (int, error) {
	exe, err := os.Executable()
	if err != nil {
		return 0, err
	}
	total := 0
	if b, err := os.ReadFile(in); err == nil {
		for _, l := range strings.Split(string(b), "\n") {
			if strings.TrimSpace(l) != "" {
				total++
			}
		}
	} else {
		return 0, err
	}
	of, err := os.Create(out)
	if err != nil {
		return 0, err
	}
	defer of.Close()
	w := bufio.NewWriterSize(of, 1<<20)
	defer w.Flush()
	lines, done, part := 0, 0, 0
	// scenarios that ended by wedging or hanging the process under test cost a watchdog period each: after a few of
	// them the remaining ones are recorded as not replayed ("skipped") - the verdict is there, the rest would take hours
	wedges := 0
	for done < total {
		if wedges >= MaxWedges {
			for ; done < total; done++ {
				scn := done + 1
				nb := lines + 4
				begin := map[string]any{"ev": "Begin", "scn": scn}
				for k, v := range crashBegin {
					begin[k] = v
				}
				for _, e := range []map[string]any{begin, {"ev": "skipped", "scn": scn}, {"ev": "End", "scn": scn}} {
					e["nb"] = nb
					j, _ := json.Marshal(e)
					w.Write(j)
					w.WriteByte('\n')
				}
				lines += 3
			}
			break
		}
		part++
		pf := fmt.Sprintf("%s.part%d", out, part)
		args := append([]string{childMode, "-in", in, "-out", pf, "-skip", fmt.Sprint(done)}, extra...)
		cmd := exec.Command(exe, args...)
		var stderr bytes.Buffer
		cmd.Stderr = &stderr
		if err := cmd.Start(); err != nil {
			return 0, err
		}
		ch := make(chan error, 1)
		go func() { ch <- cmd.Wait() }()
		var cerr error
		killed := false
		select {
		case cerr = <-ch:
		case <-time.After(time.Duration(total-done)*perScenario + 30*time.Second):
			cmd.Process.Kill()
			cerr = <-ch
			killed = true
		}
		// append the complete scenarios of this part
		n := 0
		if b, err := os.ReadFile(pf); err == nil {
			var cur []map[string]any
			flush := func() {
				nb := lines + len(cur) + 1
				for _, e := range cur {
					e["nb"] = nb
					j, _ := json.Marshal(e)
					w.Write(j)
					w.WriteByte('\n')
				}
				lines += len(cur)
				n++
				cur = nil
			}
			for _, l := range strings.Split(string(b), "\n") {
				if strings.TrimSpace(l) == "" {
					continue
				}
				e := map[string]any{}
				if json.Unmarshal([]byte(l), &e) != nil {
					break // torn last line
				}
				cur = append(cur, e)
				if e["ev"] == "End" {
					flush()
				}
			}
		}
		os.Remove(pf)
		done += n
		if cerr == nil && !killed {
			if done < total {
				return 0, fmt.Errorf("child finished after %d of %d scenarios", done, total)
			}
			break
		}
		if done >= total {
			break
		}
		txt := stderr.String()
		if strings.Contains(txt, "wedged: restarting") && !killed {
			wedges++
			continue // the child recorded the wedged run itself and asked for a fresh process
		}
		if killed || strings.Contains(txt, "panic: watchdog:") {
			wedges++
		}
		// the scenario in flight crashed (or hung) the process
		if i := strings.Index(txt, "panic:"); i >= 0 {
			txt = txt[i:]
		} else if i := strings.Index(txt, "fatal error:"); i >= 0 {
			txt = txt[i:]
		} else if !killed {
			return 0, fmt.Errorf("child failed without a panic: %v: %s", cerr, txt)
		}
		if len(txt) > 400 {
			txt = txt[:400]
		}
		scn := done + 1
		nb := lines + 4
		begin := map[string]any{"ev": "Begin", "scn": scn}
		for k, v := range crashBegin {
			begin[k] = v
		}
		for _, e := range []map[string]any{
			begin,
			{"ev": "crash", "scn": scn, "text": txt, "killed": killed},
			{"ev": "End", "scn": scn},
		} {
			e["nb"] = nb
			j, _ := json.Marshal(e)
			w.Write(j)
			w.WriteByte('\n')
		}
		lines += 3
		done++
	}
	return lines, nil
}

// MaxWedges is the number of wedged / hung scenarios after which the rest is recorded as skipped.
var MaxWedges = 4

// Guard makes the process exit like a crashed one unless the returned function is called within d:
// a scenario that wedges the code under test (a deadlock) becomes a recorded outcome of that scenario.
func Guard(d time.Duration, what string) func() {
	t := time.AfterFunc(d, func() {
		fmt.Fprintf(os.Stderr, "panic: watchdog: %s did not finish within %v (deadlock?)\n", what, d)
		os.Exit(2)
	})
	return func() { t.Stop() }
}
