// Package setupdrv replays StubSetup scenarios (X03): a stub is created and
// started in a child process whose environment, options and executable name
// (argv[0]) are the scenario's; the identity it registers with a scripted
// runtime end and the connection it uses are recorded.
package setupdrv

import (
	"bufio"
	"bytes"
	"context"
	"encoding/json"
	"fmt"
	"net"
	"os"
	"os/exec"
	"strings"
	"syscall"
	"time"

	"github.com/containerd/nri/pkg/api"
	"github.com/containerd/nri/pkg/stub"

	"verif/harness/rawpeer"
	"verif/harness/rec"
)

const none = "<none>"

type Scenario struct {
	Kind    string `json:"kind"`
	EnvName string `json:"envname"`
	EnvIdx  string `json:"envidx"`
	OptName string `json:"optname"`
	OptIdx  string `json:"optidx"`
	Bin     string `json:"bin"`
	Given   bool   `json:"given"`
	EnvSock string `json:"envsock"`
}

type childResult struct {
	NewErr   string `json:"newerr"`
	StartErr string `json:"starterr"`
	RegName  string `json:"regname"`
	RegIdx   string `json:"regidx"`
	Src      string `json:"src"` // given | dial | "" (the parent fills in env)
}

type plugin struct{}

func (plugin) RunPodSandbox(context.Context, *api.PodSandbox) error { return nil }

// serve answers a registration with a Configure call, as the runtime does.
func serve(rt *rawpeer.Runtime) {
	if rt.WaitRegistered(3*time.Second) != nil {
		return
	}
	ctx, cancel := context.WithTimeout(context.Background(), 3*time.Second)
	defer cancel()
	rt.Plugin.Configure(ctx, &api.ConfigureRequest{RuntimeName: "rt", RuntimeVersion: "1", RegistrationTimeout: 2000, RequestTimeout: 2000})
}

// Child runs inside the child process; the scenario arrives as JSON in VERIF_SETUP.
func Child() int {
	var s Scenario
	if err := json.Unmarshal([]byte(os.Getenv("VERIF_SETUP")), &s); err != nil {
		fmt.Fprintln(os.Stderr, "child:", err)
		return 2
	}
	res := childResult{}
	var rt *rawpeer.Runtime
	mkpeer := func() (net.Conn, error) {
		a, b := net.Pipe()
		x, err := rawpeer.AttachRuntime(b, nil)
		if err != nil {
			return nil, err
		}
		rt = x
		go serve(x)
		return a, nil
	}
	opts := []stub.Option{stub.WithOnClose(func() {})}
	if s.OptName != none {
		opts = append(opts, stub.WithPluginName(s.OptName))
	}
	if s.OptIdx != none {
		opts = append(opts, stub.WithPluginIdx(s.OptIdx))
	}
	src := ""
	if s.Given {
		c, err := mkpeer()
		if err != nil {
			return 2
		}
		opts = append(opts, stub.WithConnection(c))
		src = "given"
	}
	dialed := false
	opts = append(opts, stub.WithDialer(func(string) (net.Conn, error) {
		dialed = true
		return mkpeer()
	}))
	st, err := stub.New(plugin{}, opts...)
	if err != nil {
		res.NewErr = err.Error()
	} else {
		done := make(chan error, 1)
		go func() { done <- st.Start(context.Background()) }()
		select {
		case e := <-done:
			if e != nil {
				res.StartErr = e.Error()
			}
		case <-time.After(5 * time.Second):
			res.StartErr = "start did not return"
		}
		if dialed {
			src = "dial"
		}
		if rt != nil && rt.WaitRegistered(10*time.Millisecond) == nil {
			res.RegName, res.RegIdx = rt.Reg.PluginName, rt.Reg.PluginIdx
			res.Src = src
		}
		st.Stop()
	}
	b, _ := json.Marshal(res)
	fmt.Println(string(b))
	return 0
}

func runOne(scn int, s Scenario, line string) rec.Event {
	exe, _ := os.Executable()
	cmd := exec.Command(exe, "stubsetup-child")
	cmd.Args[0] = s.Bin // the executable's name as the stub sees it
	cmd.Args = []string{s.Bin, "stubsetup-child"}
	env := []string{"VERIF_SETUP=" + line, "PATH=" + os.Getenv("PATH"), "HOME=" + os.Getenv("HOME")}
	if s.EnvName != "" {
		env = append(env, api.PluginNameEnvVar+"="+s.EnvName)
	}
	if s.EnvIdx != "" {
		env = append(env, api.PluginIdxEnvVar+"="+s.EnvIdx)
	}
	if s.EnvSock != "" {
		env = append(env, api.PluginSocketEnvVar+"="+s.EnvSock)
	}
	cmd.Env = env
	var prt *rawpeer.Runtime
	if s.EnvSock == "3" {
		// a pre-connected socket pair: the child's end becomes descriptor 3
		fds, err := syscall.Socketpair(syscall.AF_UNIX, syscall.SOCK_STREAM, 0)
		if err == nil {
			mine := os.NewFile(uintptr(fds[0]), "mine")
			theirs := os.NewFile(uintptr(fds[1]), "theirs")
			c, err := net.FileConn(mine)
			mine.Close()
			if err == nil {
				if x, err := rawpeer.AttachRuntime(c, nil); err == nil {
					prt = x
					go serve(x)
				}
			}
			cmd.ExtraFiles = []*os.File{theirs}
			defer theirs.Close()
		}
	}
	var out, errb bytes.Buffer
	cmd.Stdout, cmd.Stderr = &out, &errb
	ev := rec.Event{"ev": "Setup", "scn": scn, "scenario": s, "crashed": false, "newerr": "", "starterr": "", "regname": "", "regidx": "", "src": ""}
	done := make(chan error, 1)
	if err := cmd.Start(); err != nil {
		ev["crashed"] = true
		ev["starterr"] = err.Error()
		return ev
	}
	go func() { done <- cmd.Wait() }()
	select {
	case err := <-done:
		if err != nil {
			ev["crashed"] = true
			ev["starterr"] = strings.TrimSpace(errb.String())
			return ev
		}
	case <-time.After(20 * time.Second):
		cmd.Process.Kill()
		ev["crashed"] = true
		ev["starterr"] = "child did not finish"
		return ev
	}
	var r childResult
	if err := json.Unmarshal(bytes.TrimSpace(out.Bytes()), &r); err != nil {
		ev["crashed"] = true
		ev["starterr"] = "unreadable child output: " + out.String()
		return ev
	}
	if prt != nil {
		if prt.WaitRegistered(10*time.Millisecond) == nil && r.Src == "" {
			r.Src = "env"
			r.RegName, r.RegIdx = prt.Reg.PluginName, prt.Reg.PluginIdx
		}
		prt.Close()
	}
	ev["newerr"], ev["starterr"], ev["regname"], ev["regidx"], ev["src"] = r.NewErr, r.StartErr, r.RegName, r.RegIdx, r.Src
	return ev
}

func Run(in, out string) error {
	f, err := os.Open(in)
	if err != nil {
		return err
	}
	defer f.Close()
	w, err := rec.NewWriter(out)
	if err != nil {
		return err
	}
	defer w.Close()
	sc := bufio.NewScanner(f)
	n := 0
	for sc.Scan() {
		line := strings.TrimSpace(sc.Text())
		if line == "" {
			continue
		}
		n++
		var s Scenario
		if err := json.Unmarshal([]byte(line), &s); err != nil {
			return fmt.Errorf("scenario %d: %w", n, err)
		}
		if err := w.WriteScenario([]rec.Event{runOne(n, s, line)}); err != nil {
			return err
		}
	}
	return sc.Err()
}
