// Package convdrv executes the exported NRI<->OCI conversion, copy, optional
// and event-mask functions of pkg/api on abstract inputs and logs inputs and
// outputs in the abstract vocabulary (C14).
package convdrv

import (
	"bufio"
	"encoding/json"
	"fmt"
	"os"
	"strings"

	"github.com/containerd/nri/pkg/api"
	rspec "github.com/opencontainers/runtime-spec/specs-go"

	"verif/harness/abs"
	"verif/harness/rec"
)

// Scenario: kind selects the function family; the input is abstract.
type Scenario struct {
	Kind string       `json:"kind"` // res | mount | device | hook | env | copy | optional | mask
	Res  abs.ResView  `json:"res"`  // res, copy (hp as map: order irrelevant here)
	HpL  abs.KVs      `json:"hpl"`  // hugepages as a list (order kept)
	DevC abs.Strs     `json:"devc"` // device cgroup rules "allow|type|major|minor|access" ("-" = unset)
	K    string       `json:"k"`    // mount destination / device path / hook stage
	V    string       `json:"v"`    // mount / device value, hook id, env entry
	Mut  abs.Strs     `json:"mut"`  // copy: which parts to mutate
	Side string       `json:"side"` // copy: mutate "copy" or "orig"
	Ctor string       `json:"ctor"` // optional: constructor name
	Arg  string       `json:"arg"`  // optional: argument kind
	Val  string       `json:"val"`  // optional: value
	Mask int          `json:"mask"`
	Hook HookIn       `json:"hook"`
}

// HookIn is a hook with all its fields.
type HookIn struct {
	Path    string   `json:"path"`
	Args    abs.Strs `json:"args"`
	Env     abs.Strs `json:"env"`
	Timeout string   `json:"timeout"` // "" = unset
}

func buildRes(s Scenario) *api.LinuxResources {
	r := abs.ToAPIResources(abs.ResView{Res: s.Res.Res, Hp: nil, Uni: s.Res.Uni})
	if r == nil {
		r = &api.LinuxResources{}
	}
	for _, e := range s.HpL {
		var l uint64
		fmt.Sscan(e.V, &l)
		r.HugepageLimits = append(r.HugepageLimits, &api.HugepageLimit{PageSize: e.K, Limit: l})
	}
	for _, d := range s.DevC {
		p := strings.Split(d, "|")
		dc := &api.LinuxDeviceCgroup{Allow: p[0] == "true", Type: p[1], Access: p[4]}
		if p[2] != "-" {
			var x int64
			fmt.Sscan(p[2], &x)
			dc.Major = &api.OptionalInt64{Value: x}
		}
		if p[3] != "-" {
			var x int64
			fmt.Sscan(p[3], &x)
			dc.Minor = &api.OptionalInt64{Value: x}
		}
		r.Devices = append(r.Devices, dc)
	}
	return r
}

type resOut struct {
	Res  abs.SMap `json:"res"`
	HpL  abs.KVs  `json:"hpl"`
	Uni  abs.SMap `json:"uni"`
	DevC abs.Strs `json:"devc"`
	Nil  bool     `json:"nil"`
}

func optI64(p *int64) string {
	if p == nil {
		return "-"
	}
	return fmt.Sprint(*p)
}

func projAPIRes(r *api.LinuxResources) resOut {
	if r == nil {
		return resOut{Res: abs.SMap{}, HpL: abs.KVs{}, Uni: abs.SMap{}, DevC: abs.Strs{}, Nil: true}
	}
	c := abs.FromAPIContainer(&api.Container{Linux: &api.LinuxContainer{Resources: r}})
	out := resOut{Res: c.Res, HpL: abs.KVs{}, Uni: c.Uni, DevC: abs.Strs{}}
	for _, l := range r.HugepageLimits {
		out.HpL = append(out.HpL, abs.KV{K: l.PageSize, V: fmt.Sprint(l.Limit)})
	}
	for _, d := range r.Devices {
		maj, min := "-", "-"
		if d.Major != nil {
			maj = fmt.Sprint(d.Major.Value)
		}
		if d.Minor != nil {
			min = fmt.Sprint(d.Minor.Value)
		}
		out.DevC = append(out.DevC, fmt.Sprintf("%v|%s|%s|%s|%s", d.Allow, d.Type, maj, min, d.Access))
	}
	return out
}

func projOCIRes(o *rspec.LinuxResources) resOut {
	if o == nil {
		return resOut{Res: abs.SMap{}, HpL: abs.KVs{}, Uni: abs.SMap{}, DevC: abs.Strs{}, Nil: true}
	}
	p := abs.FromOCISpec(&rspec.Spec{Linux: &rspec.Linux{Resources: o}}, nil)
	out := resOut{Res: p.Res, HpL: abs.KVs{}, Uni: p.Uni, DevC: abs.Strs{}}
	for _, l := range o.HugepageLimits {
		out.HpL = append(out.HpL, abs.KV{K: l.Pagesize, V: fmt.Sprint(l.Limit)})
	}
	for _, d := range o.Devices {
		out.DevC = append(out.DevC, fmt.Sprintf("%v|%s|%s|%s|%s", d.Allow, d.Type, optI64(d.Major), optI64(d.Minor), d.Access))
	}
	return out
}

func hookOut(path string, args, env []string, timeout *int) map[string]any {
	t := ""
	if timeout != nil {
		t = fmt.Sprint(*timeout)
	}
	return map[string]any{"path": path, "args": append(abs.Strs{}, args...), "env": append(abs.Strs{}, env...), "timeout": t}
}

// mutate changes every selected mutable part of r in place
func mutate(r *api.LinuxResources, parts []string) {
	for _, p := range parts {
		switch p {
		case "mem":
			if r.Memory != nil {
				if r.Memory.Limit != nil {
					r.Memory.Limit.Value += 7777
				}
				if r.Memory.Swappiness != nil {
					r.Memory.Swappiness.Value += 7
				}
				if r.Memory.DisableOomKiller != nil {
					r.Memory.DisableOomKiller.Value = !r.Memory.DisableOomKiller.Value
				}
				r.Memory.Kernel = &api.OptionalInt64{Value: 123456}
			}
		case "cpu":
			if r.Cpu != nil {
				if r.Cpu.Shares != nil {
					r.Cpu.Shares.Value += 5
				}
				if r.Cpu.Quota != nil {
					r.Cpu.Quota.Value -= 3
				}
				r.Cpu.Cpus += ",63"
			}
		case "hp":
			for _, l := range r.HugepageLimits {
				l.Limit += 11
			}
			if len(r.HugepageLimits) > 0 {
				r.HugepageLimits[0] = &api.HugepageLimit{PageSize: "mutated", Limit: 1}
			}
		case "uni":
			for k := range r.Unified {
				r.Unified[k] = "mutated"
			}
			if r.Unified != nil {
				r.Unified["added"] = "x"
			}
		case "pids":
			if r.Pids != nil {
				r.Pids.Limit += 13
			}
		case "class":
			if r.BlockioClass != nil {
				r.BlockioClass.Value += "-mut"
			}
			if r.RdtClass != nil {
				r.RdtClass.Value += "-mut"
			}
		}
	}
}

func optional(s Scenario) map[string]any {
	// returns {"nil": bool, "val": string}
	out := map[string]any{"nil": true, "val": ""}
	set := func(v any) { out["nil"] = false; out["val"] = fmt.Sprint(v) }
	var i64 int64
	var u64 uint64
	fmt.Sscan(s.Val, &i64)
	fmt.Sscan(s.Val, &u64)
	switch s.Ctor {
	case "String":
		var r *api.OptionalString
		switch s.Arg {
		case "value":
			r = api.String(s.Val)
		case "ptr":
			v := s.Val
			r = api.String(&v)
		case "nilptr":
			r = api.String((*string)(nil))
		case "opt":
			r = api.String(&api.OptionalString{Value: s.Val})
		case "nilopt":
			r = api.String((*api.OptionalString)(nil))
		case "nil":
			r = api.String(nil)
		}
		if r != nil {
			set(r.Value)
			if g := r.Get(); g == nil || *g != r.Value {
				out["val"] = "<Get mismatch>"
			}
		}
	case "Int":
		var r *api.OptionalInt
		switch s.Arg {
		case "value":
			r = api.Int(int(i64))
		case "ptr":
			v := int(i64)
			r = api.Int(&v)
		case "nilptr":
			r = api.Int((*int)(nil))
		case "opt":
			r = api.Int(&api.OptionalInt{Value: i64})
		case "nilopt":
			r = api.Int((*api.OptionalInt)(nil))
		case "nil":
			r = api.Int(nil)
		}
		if r != nil {
			set(r.Value)
			if g := r.Get(); g == nil || int64(*g) != r.Value {
				out["val"] = "<Get mismatch>"
			}
		}
	case "Int32":
		var r *api.OptionalInt32
		switch s.Arg {
		case "value":
			r = api.Int32(int32(i64))
		case "ptr":
			v := int32(i64)
			r = api.Int32(&v)
		case "nilptr":
			r = api.Int32((*int32)(nil))
		case "opt":
			r = api.Int32(&api.OptionalInt32{Value: int32(i64)})
		case "nilopt":
			r = api.Int32((*api.OptionalInt32)(nil))
		case "nil":
			r = api.Int32(nil)
		}
		if r != nil {
			set(r.Value)
		}
	case "UInt32":
		var r *api.OptionalUInt32
		switch s.Arg {
		case "value":
			r = api.UInt32(uint32(u64))
		case "ptr":
			v := uint32(u64)
			r = api.UInt32(&v)
		case "nilptr":
			r = api.UInt32((*uint32)(nil))
		case "opt":
			r = api.UInt32(&api.OptionalUInt32{Value: uint32(u64)})
		case "nilopt":
			r = api.UInt32((*api.OptionalUInt32)(nil))
		case "nil":
			r = api.UInt32(nil)
		}
		if r != nil {
			set(r.Value)
		}
	case "Int64":
		var r *api.OptionalInt64
		switch s.Arg {
		case "value":
			r = api.Int64(i64)
		case "ptr":
			v := i64
			r = api.Int64(&v)
		case "nilptr":
			r = api.Int64((*int64)(nil))
		case "opt":
			r = api.Int64(&api.OptionalInt64{Value: i64})
		case "nilopt":
			r = api.Int64((*api.OptionalInt64)(nil))
		case "nil":
			r = api.Int64(nil)
		}
		if r != nil {
			set(r.Value)
			if g := r.Get(); g == nil || *g != r.Value {
				out["val"] = "<Get mismatch>"
			}
		}
	case "UInt64":
		var r *api.OptionalUInt64
		switch s.Arg {
		case "value":
			r = api.UInt64(u64)
		case "ptr":
			v := u64
			r = api.UInt64(&v)
		case "nilptr":
			r = api.UInt64((*uint64)(nil))
		case "opt":
			r = api.UInt64(&api.OptionalUInt64{Value: u64})
		case "nilopt":
			r = api.UInt64((*api.OptionalUInt64)(nil))
		case "nil":
			r = api.UInt64(nil)
		}
		if r != nil {
			set(r.Value)
			if g := r.Get(); g == nil || *g != r.Value {
				out["val"] = "<Get mismatch>"
			}
		}
	case "Bool":
		b := s.Val == "true"
		var r *api.OptionalBool
		switch s.Arg {
		case "value":
			r = api.Bool(b)
		case "ptr":
			r = api.Bool(&b)
		case "nilptr":
			r = api.Bool((*bool)(nil))
		case "opt":
			r = api.Bool(&api.OptionalBool{Value: b})
		case "nilopt":
			r = api.Bool((*api.OptionalBool)(nil))
		case "nil":
			r = api.Bool(nil)
		}
		if r != nil {
			set(r.Value)
		}
	case "FileMode":
		var r *api.OptionalFileMode
		switch s.Arg {
		case "value":
			r = api.FileMode(os.FileMode(u64))
		case "ptr":
			v := os.FileMode(u64)
			r = api.FileMode(&v)
		case "nilptr":
			r = api.FileMode((*os.FileMode)(nil))
		case "opt":
			r = api.FileMode(&api.OptionalFileMode{Value: uint32(u64)})
		case "nilopt":
			r = api.FileMode((*api.OptionalFileMode)(nil))
		case "nil":
			r = api.FileMode(nil)
		}
		if r != nil {
			set(r.Value)
		}
	}
	return out
}

func one(scn int, line string, w *rec.Writer) error {
	var s Scenario
	if err := json.Unmarshal([]byte(line), &s); err != nil {
		return err
	}
	s.Res = s.Res.Norm()
	var in map[string]any
	json.Unmarshal([]byte(line), &in)
	e := rec.Event{"ev": "Conv", "scn": scn, "kind": s.Kind, "in": in}
	switch s.Kind {
	case "res":
		r := buildRes(s)
		o := r.ToOCI()
		e["tooci"] = projOCIRes(o)
		e["back"] = projAPIRes(api.FromOCILinuxResources(o, nil))
		e["niltooci"] = (*api.LinuxResources)(nil).ToOCI() == nil && api.FromOCILinuxResources(nil, nil) == nil
	case "copy":
		r := buildRes(s)
		c := r.Copy()
		e["copy"] = projAPIRes(c)
		before := projAPIRes(r)
		if s.Side == "orig" {
			before = projAPIRes(c)
			mutate(r, s.Mut)
			e["other"] = projAPIRes(c)
		} else {
			mutate(c, s.Mut)
			e["other"] = projAPIRes(r)
		}
		e["before"] = before
	case "mount":
		m := abs.ToAPIContainer("x", "p", abs.Container{Mnt: abs.SMap{s.K: s.V}}).Mounts[0]
		o := m.ToOCI(nil)
		e["tooci"] = abs.FromOCISpec(&rspec.Spec{Mounts: []rspec.Mount{o}}, nil).Mnt
		// the same conversion when the caller also asks which propagation the mount wants (as the generator does)
		var prop string
		oq := m.ToOCI(&prop)
		e["toociq"] = abs.FromOCISpec(&rspec.Spec{Mounts: []rspec.Mount{oq}}, nil).Mnt
		b := api.FromOCIMounts([]rspec.Mount{o})
		e["back"] = abs.FromAPIContainer(&api.Container{Mounts: b}).Mnt
		// the conversions must not share the options slice
		alias := false
		if len(m.Options) > 0 {
			o.Options[0] = "mutated"
			alias = m.Options[0] == "mutated"
		}
		e["alias"] = alias
	case "device":
		d := abs.ToAPIContainer("x", "p", abs.Container{Dev: abs.SMap{s.K: s.V}}).Linux.Devices[0]
		o := d.ToOCI()
		e["tooci"] = abs.FromOCISpec(&rspec.Spec{Linux: &rspec.Linux{Devices: []rspec.LinuxDevice{o}}}, nil).Dev
		b := api.FromOCILinuxDevices([]rspec.LinuxDevice{o})
		e["back"] = abs.FromAPIContainer(&api.Container{Linux: &api.LinuxContainer{Devices: b}}).Dev
	case "hook":
		h := &api.Hook{Path: s.Hook.Path, Args: s.Hook.Args, Env: s.Hook.Env}
		if s.Hook.Timeout != "" {
			var t int64
			fmt.Sscan(s.Hook.Timeout, &t)
			h.Timeout = &api.OptionalInt{Value: t}
		}
		o := h.ToOCI()
		e["tooci"] = hookOut(o.Path, o.Args, o.Env, o.Timeout)
		oh := &rspec.Hooks{}
		switch s.K {
		case "prestart":
			oh.Prestart = []rspec.Hook{o}
		case "createRuntime":
			oh.CreateRuntime = []rspec.Hook{o}
		case "createContainer":
			oh.CreateContainer = []rspec.Hook{o}
		case "startContainer":
			oh.StartContainer = []rspec.Hook{o}
		case "poststart":
			oh.Poststart = []rspec.Hook{o}
		case "poststop":
			oh.Poststop = []rspec.Hook{o}
		}
		back := api.FromOCIHooks(oh)
		stages := map[string][]*api.Hook{"prestart": back.Prestart, "createRuntime": back.CreateRuntime,
			"createContainer": back.CreateContainer, "startContainer": back.StartContainer,
			"poststart": back.Poststart, "poststop": back.Poststop}
		where := []string{}
		var bh *api.Hook
		for st, l := range stages {
			if len(l) > 0 {
				where = append(where, st)
				bh = l[0]
			}
		}
		e["stages"] = where
		if bh != nil {
			var t *int
			if bh.Timeout != nil {
				x := int(bh.Timeout.Value)
				t = &x
			}
			e["back"] = hookOut(bh.Path, bh.Args, bh.Env, t)
		} else {
			e["back"] = hookOut("", nil, nil, nil)
		}
		alias := false
		if len(h.Args) > 0 {
			o.Args[0] = "mutated"
			alias = h.Args[0] == "mutated"
		}
		e["alias"] = alias
	case "env":
		kv := api.FromOCIEnv([]string{s.V})
		if len(kv) == 1 {
			e["key"], e["val"], e["back"] = kv[0].Key, kv[0].Value, kv[0].ToOCI()
		} else {
			e["key"], e["val"], e["back"] = "", "", fmt.Sprintf("<%d entries>", len(kv))
		}
	case "optional":
		e["out"] = optional(s)
	case "mask":
		m := api.EventMask(s.Mask)
		str := m.PrettyString()
		e["printed"] = str
		names := abs.Strs{}
		if str != "" {
			names = strings.Split(str, ",")
		}
		e["names"] = names
		back, err := api.ParseEventMask(names...)
		e["parsed"] = int(back)
		e["perr"] = err != nil
		bits := abs.Strs{}
		for b := api.Event(1); b < api.Event_LAST; b++ {
			if m.IsSet(b) {
				bits = append(bits, fmt.Sprint(int(b)))
			}
		}
		e["isset"] = bits
	default:
		return fmt.Errorf("unknown kind %q", s.Kind)
	}
	return w.WriteScenario([]rec.Event{e})
}

// Run executes all scenarios.
func Run(in, out string) error {
	f, err := os.Open(in)
	if err != nil {
		return err
	}
	defer f.Close()
	w, err := rec.NewWriter(out)
	if err != nil {
		return err
	}
	defer w.Close()
	sc := bufio.NewScanner(f)
	sc.Buffer(make([]byte, 1<<20), 1<<24)
	n := 0
	for sc.Scan() {
		line := strings.TrimSpace(sc.Text())
		if line == "" {
			continue
		}
		n++
		if err := one(n, line, w); err != nil {
			return fmt.Errorf("scenario %d: %w", n, err)
		}
	}
	return sc.Err()
}
