// Package injdrv runs the built device-injector and ulimit-adjuster binaries as
// pre-installed plugins of a real Adaptation and records what CreateContainer
// returns for pods annotated according to a scenario (C20).
package injdrv

import (
	"bufio"
	"context"
	"encoding/json"
	"fmt"
	"io"
	"os"
	"path/filepath"
	"strings"
	"time"

	"github.com/containerd/nri/pkg/adaptation"
	"github.com/containerd/nri/pkg/api"

	"verif/harness/abs"
	"verif/harness/rec"
	"verif/harness/rig"
)

type Ann struct {
	Key   string `json:"key"`   // dev | mnt | cdi | ulim
	Scope string `json:"scope"` // ctr | pod | bare
	Name  string `json:"name"`
	ID    string `json:"id"`
}

type Scenario struct {
	Ctr  string `json:"ctr"`
	Anns []Ann  `json:"anns"`
}

var keyNames = map[string]string{
	"dev": "devices.nri.io", "mnt": "mounts.nri.io", "cdi": "cdi-devices.nri.io", "ulim": "ulimits.nri.containerd.io",
}

// the concrete annotation texts of the payload ids of Inject.tla
var payloads = map[string]string{
	"D1":     "- path: /dev/d1\n  type: c\n  major: 1\n  minor: 3\n",
	"D2":     "- path: /dev/d2\n  type: b\n  major: 8\n  minor: 0\n  file_mode: 420\n  uid: 1\n  gid: 2\n- path: /dev/d3\n  type: c\n  major: 4\n  minor: 5\n",
	"D3":     "- path: /dev/d4\n  type: c\n  major: 10\n  minor: 200\n  uid: 7\n",
	"D4":     "[{path: /dev/d5, type: c, major: 1, minor: 5}]",
	"Dbad":   "- path: /dev/d9\n  major: not-a-number\n",
	"M1":     "- source: /src1\n  destination: /m1\n  type: bind\n  options:\n  - ro\n  - rbind\n",
	"M2":     "- source: /src2\n  destination: /m2\n  type: tmpfs\n- source: /src3\n  destination: /m2/sub\n  type: bind\n  options: [rw]\n",
	"M3":     "- source: /src4\n  destination: /m3\n  type: bind\n",
	"M4":     "[{source: /src5, destination: /m4, type: bind, options: [ro]}]",
	"Mbad":   "- destination: [unclosed\n",
	"C1":     "- vendor.com/dev=a\n",
	"C2":     "- vendor.com/dev=b\n- other.io/gpu=0\n",
	"C3":     "[vendor.com/dev=c]",
	"C4":     "- vendor.com/dev=d\n",
	"Cbad":   "{not: a-list}",
	"U1":     "- type: nofile\n  hard: 10\n  soft: 5\n",
	"U2":     "- type: RLIMIT_CORE\n  hard: 0\n  soft: 0\n- type: Rlimit_nproc\n  hard: 7\n  soft: 7\n",
	"U3":     "- type: as\n  hard: 9\n  soft: 1\n",
	"Uzero":  "- type: core\n",
	"U4":     "- type: STACK\n  hard: 8\n  soft: 8\n",
	"Uempty": "[]",
	"M5":     "- source: /src6\n  destination: /m5\n",
	"Udup":   "- type: RLIMIT_NOFILE\n  hard: 1024\n  soft: 512\n- type: core\n  hard: 0\n  soft: 0\n- type: nofile\n  hard: 8192\n  soft: 2048\n",
	// present but empty annotations: they select their scope and describe nothing
	"Dempty": "", "Mempty": "", "Cempty": "",
	// unlimited (RLIM_INFINITY) on either side
	"Uinf1":     "- type: nofile\n  hard: 18446744073709551615\n  soft: 65536\n",
	"Uinf2":     "- type: nofile\n  hard: 65536\n  soft: 18446744073709551615\n",
	"Uinf3":     "- type: core\n  hard: 18446744073709551615\n  soft: 18446744073709551615\n",
	"Uinf4":     "- type: as\n  hard: 9223372036854775808\n  soft: 1\n",
	"Ubad":      "- type: [unclosed\n",
	"Utype":     "- type: bogus\n  hard: 1\n  soft: 1\n",
	"Utype2":    "- type: RLIMIT_\n  hard: 1\n  soft: 1\n",
	"Uhardsoft": "- type: nofile\n  hard: 1\n  soft: 2\n",
}

var rtypes = []string{"AS", "CORE", "CPU", "DATA", "FSIZE", "LOCKS", "MEMLOCK", "MSGQUEUE", "NICE", "NOFILE", "NPROC", "RSS",
	"RTPRIO", "RTTIME", "SIGPENDING", "STACK"}

func init() {
	var l, p, m string
	for i, t := range rtypes {
		l += fmt.Sprintf("- type: %s\n  hard: %d\n  soft: %d\n", strings.ToLower(t), i+1, i+1)
		p += fmt.Sprintf("- type: RLIMIT_%s\n  hard: %d\n  soft: %d\n", t, i+1, i+1)
		m += fmt.Sprintf("- type: Rlimit_%s%s\n  hard: %d\n  soft: %d\n", t[:1], strings.ToLower(t[1:]), i+1, i+1)
	}
	payloads["UallL"], payloads["UallP"], payloads["UallM"] = l, p, m
	for id, name := range map[string]string{"Utype3": "RLIMIT__NOFILE", "Utype4": "LIMIT_STACK", "Utype5": "NOFILEX",
		"Utype6": "RLIMIT_RLIMIT_NOFILE", "Utype7": "_CORE", "Utype8": "TAS"} {
		payloads[id] = fmt.Sprintf("- type: %s\n  hard: 1\n  soft: 1\n", name)
	}
}

func copyExe(src, dst string) error {
	in, err := os.Open(src)
	if err != nil {
		return err
	}
	defer in.Close()
	out, err := os.OpenFile(dst, os.O_CREATE|os.O_WRONLY|os.O_TRUNC, 0o755)
	if err != nil {
		return err
	}
	if _, err := io.Copy(out, in); err != nil {
		out.Close()
		return err
	}
	return out.Close()
}

// Run replays the scenarios with the plugin binaries found in bindir.
func Run(in, out, bindir string) error {
	f, err := os.Open(in)
	if err != nil {
		return err
	}
	defer f.Close()
	w, err := rec.NewWriter(out)
	if err != nil {
		return err
	}
	defer w.Close()
	dir, err := os.MkdirTemp("", "vinj")
	if err != nil {
		return err
	}
	defer os.RemoveAll(dir)
	pdir := filepath.Join(dir, "plugins")
	os.MkdirAll(pdir, 0o755)
	if err := copyExe(filepath.Join(bindir, "device-injector"), filepath.Join(pdir, "10-device-injector")); err != nil {
		return err
	}
	if err := copyExe(filepath.Join(bindir, "ulimit-adjuster"), filepath.Join(pdir, "20-ulimit-adjuster")); err != nil {
		return err
	}
	r, err := rig.New(adaptation.WithPluginPath(pdir), adaptation.WithDisabledExternalConnections())
	if err != nil {
		return err
	}
	defer r.Close()
	// both plugins must be up: a probe creation with one annotation for each must be honoured
	ok := false
	for t0 := time.Now(); time.Since(t0) < 10*time.Second; time.Sleep(20 * time.Millisecond) {
		rpl, err := r.Ad.CreateContainer(context.Background(), &api.CreateContainerRequest{
			Pod: &api.PodSandbox{Id: "probe", Annotations: map[string]string{
				"devices.nri.io/container.probe": payloads["D1"], "ulimits.nri.containerd.io/container.probe": payloads["U1"]}},
			Container: &api.Container{Id: "probe", Name: "probe"}})
		if err == nil && rpl.GetAdjust() != nil && len(rpl.Adjust.GetLinux().GetDevices()) == 1 && len(rpl.Adjust.Rlimits) == 1 {
			ok = true
			break
		}
	}
	if !ok {
		return fmt.Errorf("the pre-installed sample plugins did not come up")
	}
	sc := bufio.NewScanner(f)
	sc.Buffer(make([]byte, 1<<20), 1<<24)
	n := 0
	for sc.Scan() {
		line := strings.TrimSpace(sc.Text())
		if line == "" {
			continue
		}
		n++
		var s Scenario
		if err := json.Unmarshal([]byte(line), &s); err != nil {
			return fmt.Errorf("scenario %d: %w", n, err)
		}
		ann := map[string]string{"unrelated.io/key": "x"}
		for _, a := range s.Anns {
			k := keyNames[a.Key]
			switch a.Scope {
			case "ctr":
				k += "/container." + a.Name
			case "pod":
				k += "/pod"
			}
			ann[k] = payloads[a.ID]
		}
		pod := &api.PodSandbox{Id: fmt.Sprintf("pod%d", n), Name: "pod", Annotations: ann}
		ctr := &api.Container{Id: fmt.Sprintf("ctr%d", n), Name: s.Ctr, PodSandboxId: pod.Id}
		rpl, err := r.Ad.CreateContainer(context.Background(), &api.CreateContainerRequest{Pod: pod, Container: ctr})
		e := rec.Event{"ev": "Inject", "scn": n, "ctr": s.Ctr, "anns": s.Anns, "err": err != nil, "errtext": "",
			"dev": abs.KVs{}, "mnt": abs.KVs{}, "cdi": abs.Strs{}, "rlim": abs.KVs{}, "other": false}
		if err != nil {
			e["errtext"] = err.Error()
			if rpl != nil && rpl.Adjust != nil {
				a := abs.FromAPIAdjust(rpl.Adjust)
				e["dev"], e["mnt"], e["cdi"], e["rlim"] = a.Dev, a.Mnt, a.Cdi, a.Rlim
			}
		} else {
			a := abs.FromAPIAdjust(rpl.GetAdjust())
			e["dev"], e["mnt"], e["cdi"], e["rlim"] = a.Dev, a.Mnt, a.Cdi, a.Rlim
			rest := a
			rest.Dev, rest.Mnt, rest.Cdi, rest.Rlim = nil, nil, nil, nil
			e["other"] = !rest.IsEmpty() || len(rpl.GetUpdate()) > 0
		}
		if err := w.WriteScenario([]rec.Event{e}); err != nil {
			return err
		}
	}
	return sc.Err()
}
