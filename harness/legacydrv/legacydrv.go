// Package legacydrv replays X05 scenarios (chains of v0.1.0 plugins) through the real nri.Client and
// skel.Run: the driver executable itself is the plugin ("<exe> invoke"), its behaviour comes with its configuration.
package legacydrv

import (
	"bufio"
	"bytes"
	"context"
	"encoding/json"
	"errors"
	"fmt"
	"os"
	"os/exec"
	"path/filepath"
	"sort"
	"strings"
	"time"

	"github.com/containerd/nri"
	"github.com/containerd/nri/skel"
	types "github.com/containerd/nri/types/v1"
	oci "github.com/opencontainers/runtime-spec/specs-go"

	"verif/harness/rec"
)

const confVersion = "0.1-verif"

// ---------------------------------------------------------------- the plugin --
type pluginConf struct {
	Pos       int    `json:"pos"`
	Behaviour string `json:"behaviour"`
	Record    string `json:"record"`
}

type view struct {
	Plugin    int        `json:"plugin"`
	Conf      int        `json:"conf"`
	Results   []int      `json:"results"`
	RVersions []string   `json:"rversions"`
	State     string     `json:"state"`
	ID        string     `json:"id"`
	SandboxID string     `json:"sandbox"`
	Labels    [][]string `json:"labels"`
	Pid       int        `json:"pid"`
	Version   string     `json:"version"`
	IsSandbox bool       `json:"issandbox"`
	HasSpec   bool       `json:"hasspec"`
	Cgroups   string     `json:"cgroups"`
	NS        [][]string `json:"namespaces"`
	Ann       [][]string `json:"annotations"`
	Resources string     `json:"resources"`
}

func pairs(m map[string]string) [][]string {
	out := [][]string{}
	for k, v := range m {
		out = append(out, []string{k, v})
	}
	sort.Slice(out, func(i, j int) bool { return out[i][0] < out[j][0] })
	return out
}

func posOf(name string) int {
	n := 0
	fmt.Sscanf(name, "p%d", &n)
	return n
}

type legacyPlugin struct{ name string }

func (p *legacyPlugin) Type() string { return p.name }

func (p *legacyPlugin) Invoke(_ context.Context, r *types.Request) (*types.Result, error) {
	var c pluginConf
	if err := json.Unmarshal(r.Conf, &c); err != nil {
		fmt.Fprintln(os.Stderr, "legacy plugin: no configuration:", err)
		os.Exit(9)
	}
	p.name = fmt.Sprintf("p%d", c.Pos)
	v := view{Plugin: posOf(filepath.Base(os.Args[0])), Conf: c.Pos, Results: []int{}, RVersions: []string{}, State: string(r.State), ID: r.ID, SandboxID: r.SandboxID,
		Labels: pairs(r.Labels), Pid: r.Pid, Version: r.Version, IsSandbox: r.IsSandbox(), NS: [][]string{}, Ann: [][]string{}, Resources: "null"}
	for _, x := range r.Results {
		v.Results = append(v.Results, posOf(x.Plugin))
		v.RVersions = append(v.RVersions, x.Version)
	}
	if r.Spec != nil {
		v.HasSpec = true
		v.Cgroups, v.NS, v.Ann = r.Spec.CgroupsPath, pairs(r.Spec.Namespaces), pairs(r.Spec.Annotations)
		if s := strings.TrimSpace(string(r.Spec.Resources)); s != "" && s != "null" {
			v.Resources = "json"
		}
	}
	b, _ := json.Marshal(v)
	f, err := os.OpenFile(c.Record, os.O_APPEND|os.O_CREATE|os.O_WRONLY, 0o644)
	if err == nil {
		f.Write(append(b, '\n'))
		f.Close()
	}
	res := r.NewResult(p.name)
	res.Metadata["tag"] = fmt.Sprintf("meta-%d", c.Pos)
	emit := func() { json.NewEncoder(os.Stdout).Encode(res) }
	switch c.Behaviour {
	case "ok":
		return res, nil
	case "error":
		return nil, fmt.Errorf("boom-%d", c.Pos)
	case "result-error":
		res.Error = fmt.Sprintf("set-by-%d", c.Pos)
		return res, nil
	case "garbage":
		fmt.Print("this is not json")
		os.Exit(0)
	case "empty":
		os.Exit(0)
	case "exit3-silent":
		os.Exit(3)
	case "exit3-result":
		emit()
		os.Exit(3)
	case "exit3-error":
		res.Error = fmt.Sprintf("set-by-%d", c.Pos)
		emit()
		os.Exit(3)
	case "hang":
		time.Sleep(time.Hour)
	}
	return nil, errors.New("unknown behaviour " + c.Behaviour)
}

// PluginMain is what "<exe> invoke" runs.
func PluginMain() int {
	if err := skel.Run(context.Background(), &legacyPlugin{name: "unconfigured"}); err != nil {
		fmt.Fprintln(os.Stderr, "legacy plugin:", err)
		return 1
	}
	return 0
}

// ---------------------------------------------------------------- the driver --
type Req struct {
	State   string `json:"state"`
	Sandbox string `json:"sandbox"`
	Spec    string `json:"spec"`
	Pid     int    `json:"pid"`
	// skel.Run as a program
	Kind  string   `json:"kind"`
	Args  []string `json:"args"`
	Stdin string   `json:"stdin"`
	Beh   string   `json:"beh"`
}

// SkelEnv makes the driver executable run skel.Run at once, whatever its arguments.
const SkelEnv = "VERIF_LEGACY_SKEL"

// skelOne runs the plugin program directly: arguments, standard input, exit status, standard output.
func skelOne(scn int, sc Scenario, raw json.RawMessage, exe string, w *rec.Writer) error {
	root, err := os.MkdirTemp("", "vskel")
	if err != nil {
		return err
	}
	defer os.RemoveAll(root)
	var stdin []byte
	switch sc.Req.Stdin {
	case "request":
		c, _ := json.Marshal(pluginConf{Pos: 1, Behaviour: sc.Req.Beh, Record: filepath.Join(root, "record.ndjson")})
		stdin, _ = json.Marshal(types.Request{Conf: c, Version: confVersion, State: types.Create, ID: "task-1", Spec: &types.Spec{}})
	case "garbage":
		stdin = []byte("this is not a request")
	}
	ctx, cancel := context.WithTimeout(context.Background(), 20*time.Second)
	defer cancel()
	cmd := exec.CommandContext(ctx, exe, sc.Req.Args...)
	cmd.Env = append(os.Environ(), SkelEnv+"=1")
	cmd.Stdin = bytes.NewReader(stdin)
	var so, se bytes.Buffer
	cmd.Stdout, cmd.Stderr = &so, &se
	rerr := cmd.Run()
	out, errtext := "none", ""
	if b := bytes.TrimSpace(so.Bytes()); len(b) > 0 {
		var r types.Result
		if json.Unmarshal(b, &r) != nil {
			out = "garbage"
		} else if r.Error != "" {
			out, errtext = "error-result", r.Error
		} else {
			out = "result"
		}
	}
	args := sc.Req.Args
	if args == nil {
		args = []string{}
	}
	evs := []rec.Event{
		{"ev": "Begin", "scn": scn, "scenario": raw},
		{"ev": "skel", "scn": scn, "args": args, "stdin": sc.Req.Stdin, "beh": sc.Req.Beh, "zero": rerr == nil, "out": out,
			"errtext": errtext, "panicked": strings.Contains(se.String(), "panic:") || strings.Contains(se.String(), "goroutine ")},
		{"ev": "End", "scn": scn},
	}
	return w.WriteScenario(evs)
}

type Scenario struct {
	Chain []string `json:"chain"`
	Req   Req      `json:"req"`
}

type task struct {
	id   string
	pid  uint32
	spec *oci.Spec
}

func (t *task) ID() string                              { return t.id }
func (t *task) Pid() uint32                             { return t.pid }
func (t *task) Spec(context.Context) (*oci.Spec, error) { return t.spec, nil }

func specOf(kind string) *oci.Spec {
	lim := int64(5)
	switch kind {
	case "linux":
		return &oci.Spec{Annotations: map[string]string{"a": "1"}, Linux: &oci.Linux{CgroupsPath: "/cg/x",
			Resources:  &oci.LinuxResources{Pids: &oci.LinuxPids{Limit: lim}},
			Namespaces: []oci.LinuxNamespace{{Type: oci.NetworkNamespace, Path: "/proc/7/ns/net"}, {Type: oci.PIDNamespace}}}}
	case "linux-bare":
		return &oci.Spec{Linux: &oci.Linux{}}
	case "windows":
		cnt := uint64(2)
		return &oci.Spec{Annotations: map[string]string{"w": "1"}, Windows: &oci.Windows{Resources: &oci.WindowsResources{
			CPU: &oci.WindowsCPUResources{Count: &cnt}}}}
	}
	return &oci.Spec{}
}

func one(scn int, sc Scenario, raw json.RawMessage, exe string, w *rec.Writer) error {
	if sc.Req.Kind == "skel" {
		return skelOne(scn, sc, raw, exe, w)
	}
	evs := []rec.Event{}
	add := func(name string, kv ...any) {
		e := rec.Event{"ev": name, "scn": scn}
		for i := 0; i+1 < len(kv); i += 2 {
			e[kv[i].(string)] = kv[i+1]
		}
		evs = append(evs, e)
	}
	root, err := os.MkdirTemp("", "vlegacy")
	if err != nil {
		return err
	}
	defer os.RemoveAll(root)
	record := filepath.Join(root, "record.ndjson")
	conf := types.ConfigList{Version: confVersion}
	hangs := false
	for i, b := range sc.Chain {
		path := filepath.Join(root, fmt.Sprintf("p%d", i+1))
		if b != "missing" {
			if err := os.Symlink(exe, path); err != nil {
				return err
			}
		}
		hangs = hangs || b == "hang"
		c, _ := json.Marshal(pluginConf{Pos: i + 1, Behaviour: b, Record: record})
		conf.Plugins = append(conf.Plugins, &types.Plugin{Type: path, Conf: c})
	}
	cb, _ := json.Marshal(conf)
	cpath := filepath.Join(root, "conf.json")
	if err := os.WriteFile(cpath, cb, 0o644); err != nil {
		return err
	}
	add("Begin", "scenario", raw)
	cl, err := nri.NewWithConfig(cpath)
	if err != nil {
		return err
	}
	t := &task{id: "task-1", pid: uint32(sc.Req.Pid), spec: specOf(sc.Req.Spec)}
	var sb *nri.Sandbox
	switch sc.Req.Sandbox {
	case "same":
		sb = &nri.Sandbox{ID: "task-1", Labels: map[string]string{"l": "1"}}
	case "other":
		sb = &nri.Sandbox{ID: "sb-1", Labels: map[string]string{"l": "1"}}
	}
	timeout := 60 * time.Second
	if hangs {
		timeout = 400 * time.Millisecond
	}
	ctx, cancel := context.WithTimeout(context.Background(), timeout)
	t0 := time.Now()
	var results []*types.Result
	var ierr error
	func() {
		defer func() {
			if p := recover(); p != nil {
				ierr = fmt.Errorf("panic: %v", p)
			}
		}()
		if sb == nil && scn%2 == 0 {
			results, ierr = cl.Invoke(ctx, t, types.State(sc.Req.State))
		} else {
			results, ierr = cl.InvokeWithSandbox(ctx, t, types.State(sc.Req.State), sb)
		}
	}()
	ms := int(time.Since(t0).Milliseconds())
	cancel()
	// what the plugins recorded, in the order they ran
	if f, err := os.Open(record); err == nil {
		s := bufio.NewScanner(f)
		for s.Scan() {
			var v map[string]any
			if json.Unmarshal(s.Bytes(), &v) == nil {
				e := rec.Event{"ev": "invoked", "scn": scn}
				for k, x := range v {
					e[k] = x
				}
				evs = append(evs, e)
			}
		}
		f.Close()
	}
	rp, rv, rm := []int{}, []string{}, []string{}
	for _, r := range results {
		if r == nil {
			rp, rv, rm = append(rp, -1), append(rv, ""), append(rm, "")
			continue
		}
		rp, rv, rm = append(rp, posOf(r.Plugin)), append(rv, r.Version), append(rm, r.Metadata["tag"])
	}
	blamed, text := 0, ""
	if ierr != nil {
		text = ierr.Error()
		for i := range sc.Chain {
			if strings.Contains(text, filepath.Join(root, fmt.Sprintf("p%d", i+1))+":") {
				blamed = i + 1
			}
		}
		text = strings.ReplaceAll(text, root, "<root>")
	}
	add("return", "err", ierr != nil, "errtext", text, "blamed", blamed, "results", rp, "versions", rv, "meta", rm, "ms", ms, "nilresults", results == nil)
	add("End")
	return w.WriteScenario(evs)
}

// Run replays the scenarios.
func Run(in, out string) error {
	exe, err := os.Executable()
	if err != nil {
		return err
	}
	f, err := os.Open(in)
	if err != nil {
		return err
	}
	defer f.Close()
	w, err := rec.NewWriter(out)
	if err != nil {
		return err
	}
	defer w.Close()
	s := bufio.NewScanner(f)
	s.Buffer(make([]byte, 1<<20), 1<<24)
	n := 0
	for s.Scan() {
		line := strings.TrimSpace(s.Text())
		if line == "" {
			continue
		}
		n++
		var sc Scenario
		if err := json.Unmarshal([]byte(line), &sc); err != nil {
			return err
		}
		if err := one(n, sc, json.RawMessage(line), exe, w); err != nil {
			return fmt.Errorf("scenario %d: %w", n, err)
		}
	}
	return s.Err()
}
