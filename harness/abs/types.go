// Package abs holds the abstract vocabulary shared with the TLA+ specification
// (tla/Container.tla), and the two independent translations between it and the
// real NRI / OCI structures: the concretiser (abstract -> real) and the
// projection (real -> abstract). Neither uses the repository's helper
// functions for markers or optionals: they are an independent reading of the
// wire conventions and part of the trusted base.
package abs

import (
	"bytes"
	"encoding/json"
	"sort"
)

// SMap is a string map that tolerates TLC's rendering of an empty function ("[]").
type SMap map[string]string

func (m *SMap) UnmarshalJSON(b []byte) error {
	b = bytes.TrimSpace(b)
	if len(b) > 0 && b[0] == '[' {
		*m = SMap{}
		return nil
	}
	var x map[string]string
	if err := json.Unmarshal(b, &x); err != nil {
		return err
	}
	if x == nil {
		x = map[string]string{}
	}
	*m = x
	return nil
}

func (m SMap) MarshalJSON() ([]byte, error) {
	if m == nil {
		return []byte("{}"), nil
	}
	return json.Marshal(map[string]string(m))
}

func (m SMap) Keys() []string {
	ks := make([]string, 0, len(m))
	for k := range m {
		ks = append(ks, k)
	}
	sort.Strings(ks)
	return ks
}

// KV is one entry of a list-shaped keyed adjustment.
type KV struct {
	K string `json:"k"`
	V string `json:"v"`
}

type KVs []KV

func (l KVs) MarshalJSON() ([]byte, error) {
	if l == nil {
		return []byte("[]"), nil
	}
	return json.Marshal([]KV(l))
}

type Strs []string

func (l Strs) MarshalJSON() ([]byte, error) {
	if l == nil {
		return []byte("[]"), nil
	}
	return json.Marshal([]string(l))
}

// Hooks maps each of the six stages to hook ids.
type Hooks map[string]Strs

var Stages = []string{"prestart", "createRuntime", "createContainer", "startContainer", "poststart", "poststop"}

func (h *Hooks) UnmarshalJSON(b []byte) error {
	b = bytes.TrimSpace(b)
	x := map[string]Strs{}
	if !(len(b) > 0 && b[0] == '[') {
		if err := json.Unmarshal(b, &x); err != nil {
			return err
		}
	}
	*h = Hooks(x).Norm()
	return nil
}

func (h Hooks) Norm() Hooks {
	out := Hooks{}
	for _, s := range Stages {
		out[s] = append(Strs{}, h[s]...)
	}
	return out
}

func (h Hooks) MarshalJSON() ([]byte, error) {
	return json.Marshal(map[string]Strs(h.Norm()))
}

// Container is the abstract container (see Container.tla).
type Container struct {
	Ann   SMap  `json:"ann"`
	Env   SMap  `json:"env"`
	Mnt   SMap  `json:"mnt"`
	Dev   SMap  `json:"dev"`
	Args  Strs  `json:"args"`
	Hooks Hooks `json:"hooks"`
	Rlim  KVs   `json:"rlim"`
	Res   SMap  `json:"res"`
	Hp    SMap  `json:"hp"`
	Uni   SMap  `json:"uni"`
}

// Oci is the OCI projection: a Container plus the injected CDI names and the
// order of mount destinations.
type Oci struct {
	Container
	Cdi  Strs `json:"cdi"`
	Mord Strs `json:"mord"`
	Eord Strs `json:"eord"` // process environment as listed (determinism checks)
	Devc Strs `json:"devc"` // device cgroup allow rules "type|major|minor", in order
}

// Adjust is one adjustment in wire shape.
type Adjust struct {
	Ann   SMap  `json:"ann"`
	Env   KVs   `json:"env"`
	Mnt   KVs   `json:"mnt"`
	Dev   KVs   `json:"dev"`
	Args  Strs  `json:"args"`
	Hooks Hooks `json:"hooks"`
	Rlim  KVs   `json:"rlim"`
	Cdi   Strs  `json:"cdi"`
	Res   SMap  `json:"res"`
	Hp    KVs   `json:"hp"`
	Uni   SMap  `json:"uni"`
}

// Update is one container update requested by a plugin.
type Update struct {
	Target string `json:"target"`
	Res    SMap   `json:"res"`
	Hp     KVs    `json:"hp"`
	Uni    SMap   `json:"uni"`
	Ignore bool   `json:"ignore"`
	HasRes bool   `json:"hasres"`
}

// ResView is a resource view / collected update content (hugepages last-wins).
type ResView struct {
	Res SMap `json:"res"`
	Hp  SMap `json:"hp"`
	Uni SMap `json:"uni"`
}

// UpdEntry is one entry of the update list returned to the runtime.
type UpdEntry struct {
	Target string `json:"target"`
	Res    SMap   `json:"res"`
	Hp     SMap   `json:"hp"`
	Uni    SMap   `json:"uni"`
	Nil    bool   `json:"nil"`
	Ignore bool   `json:"ignore"`
}

// Resp is what one plugin answers.
type Resp struct {
	Adj Adjust   `json:"adj"`
	Upd []Update `json:"upd"`
}

func (r *Resp) Norm() {
	r.Adj = r.Adj.Norm()
	if r.Upd == nil {
		r.Upd = []Update{}
	}
	for i := range r.Upd {
		r.Upd[i] = r.Upd[i].Norm()
	}
}

func (c Container) Norm() Container {
	if c.Ann == nil {
		c.Ann = SMap{}
	}
	if c.Env == nil {
		c.Env = SMap{}
	}
	if c.Mnt == nil {
		c.Mnt = SMap{}
	}
	if c.Dev == nil {
		c.Dev = SMap{}
	}
	if c.Res == nil {
		c.Res = SMap{}
	}
	if c.Hp == nil {
		c.Hp = SMap{}
	}
	if c.Uni == nil {
		c.Uni = SMap{}
	}
	c.Hooks = c.Hooks.Norm()
	return c
}

func (a Adjust) Norm() Adjust {
	if a.Ann == nil {
		a.Ann = SMap{}
	}
	if a.Res == nil {
		a.Res = SMap{}
	}
	if a.Uni == nil {
		a.Uni = SMap{}
	}
	a.Hooks = a.Hooks.Norm()
	return a
}

func (u Update) Norm() Update {
	if u.Res == nil {
		u.Res = SMap{}
	}
	if u.Uni == nil {
		u.Uni = SMap{}
	}
	return u
}

func (r ResView) Norm() ResView {
	if r.Res == nil {
		r.Res = SMap{}
	}
	if r.Hp == nil {
		r.Hp = SMap{}
	}
	if r.Uni == nil {
		r.Uni = SMap{}
	}
	return r
}

// IsEmpty tells whether an adjustment carries nothing at all.
func (a Adjust) IsEmpty() bool {
	n := len(a.Ann) + len(a.Env) + len(a.Mnt) + len(a.Dev) + len(a.Args) + len(a.Rlim) +
		len(a.Cdi) + len(a.Res) + len(a.Hp) + len(a.Uni)
	for _, s := range Stages {
		n += len(a.Hooks[s])
	}
	return n == 0
}
