package abs

import (
	"fmt"
	"os"
	"sort"
	"strconv"
	"strings"
	"sync"

	"github.com/containerd/nri/pkg/api"
	rspec "github.com/opencontainers/runtime-spec/specs-go"
)

// ---------------------------------------------------------------- helpers --

func pi64(s string) int64 {
	v, err := strconv.ParseInt(s, 10, 64)
	if err != nil {
		panic(fmt.Sprintf("abs: bad int64 %q", s))
	}
	return v
}

func pu64(s string) uint64 {
	v, err := strconv.ParseUint(s, 10, 64)
	if err != nil {
		panic(fmt.Sprintf("abs: bad uint64 %q", s))
	}
	return v
}

func pbool(s string) bool {
	switch s {
	case "true":
		return true
	case "false":
		return false
	}
	panic(fmt.Sprintf("abs: bad bool %q", s))
}

func i64s(v int64) string  { return strconv.FormatInt(v, 10) }
func u64s(v uint64) string { return strconv.FormatUint(v, 10) }
func bs(v bool) string {
	if v {
		return "true"
	}
	return "false"
}

func put(m SMap, k, v string) {
	if old, dup := m[k]; dup {
		m[k] = old + ";;DUP;;" + v
		return
	}
	m[k] = v
}

// ----------------------------------------------------------------- mounts --

// mount value: "source|type|opt,opt"
func mountFromVal(dest, val string) *api.Mount {
	p := strings.SplitN(val, "|", 3)
	m := &api.Mount{Destination: dest}
	if len(p) > 0 {
		m.Source = p[0]
	}
	if len(p) > 1 {
		m.Type = p[1]
	}
	if len(p) > 2 && p[2] != "" {
		m.Options = strings.Split(p[2], ",")
	}
	return m
}

func mountVal(src, typ string, opts []string) string {
	return src + "|" + typ + "|" + strings.Join(opts, ",")
}

// ---------------------------------------------------------------- devices --

// device value: "type|major|minor[|mode|uid|gid]" with "-" for an unset optional
func deviceFromVal(path, val string) *api.LinuxDevice {
	p := strings.Split(val, "|")
	d := &api.LinuxDevice{Path: path}
	if len(p) > 0 {
		d.Type = p[0]
	}
	if len(p) > 1 && p[1] != "" {
		d.Major = pi64(p[1])
	}
	if len(p) > 2 && p[2] != "" {
		d.Minor = pi64(p[2])
	}
	if len(p) > 3 && p[3] != "-" {
		d.FileMode = &api.OptionalFileMode{Value: uint32(pu64(p[3]))}
	}
	if len(p) > 4 && p[4] != "-" {
		d.Uid = &api.OptionalUInt32{Value: uint32(pu64(p[4]))}
	}
	if len(p) > 5 && p[5] != "-" {
		d.Gid = &api.OptionalUInt32{Value: uint32(pu64(p[5]))}
	}
	return d
}

func trimDev(parts []string) string {
	for len(parts) > 3 && parts[len(parts)-1] == "-" {
		parts = parts[:len(parts)-1]
	}
	return strings.Join(parts, "|")
}

func deviceVal(d *api.LinuxDevice) string {
	mode, uid, gid := "-", "-", "-"
	if d.FileMode != nil {
		mode = u64s(uint64(d.FileMode.Value))
	}
	if d.Uid != nil {
		uid = u64s(uint64(d.Uid.Value))
	}
	if d.Gid != nil {
		gid = u64s(uint64(d.Gid.Value))
	}
	return trimDev([]string{d.Type, i64s(d.Major), i64s(d.Minor), mode, uid, gid})
}

func ociDeviceVal(d rspec.LinuxDevice) string {
	mode, uid, gid := "-", "-", "-"
	if d.FileMode != nil {
		mode = u64s(uint64(*d.FileMode))
	}
	if d.UID != nil {
		uid = u64s(uint64(*d.UID))
	}
	if d.GID != nil {
		gid = u64s(uint64(*d.GID))
	}
	return trimDev([]string{d.Type, i64s(d.Major), i64s(d.Minor), mode, uid, gid})
}

// ------------------------------------------------------------------ hooks --

func hookFromID(id string) *api.Hook {
	return &api.Hook{Path: "/hooks/" + id, Args: []string{id, "arg"}, Env: []string{"HOOK=" + id}}
}

func hookID(path string, args, env []string, timeout *int64) string {
	if strings.HasPrefix(path, "/hooks/") && len(args) == 2 && len(env) == 1 && timeout == nil {
		id := strings.TrimPrefix(path, "/hooks/")
		if args[0] == id && args[1] == "arg" && env[0] == "HOOK="+id {
			return id
		}
	}
	t := "-"
	if timeout != nil {
		t = i64s(*timeout)
	}
	return fmt.Sprintf("%s|%s|%s|%s", path, strings.Join(args, ","), strings.Join(env, ","), t)
}

func apiHooks(h Hooks) *api.Hooks {
	mk := func(ids Strs) []*api.Hook {
		var out []*api.Hook
		for _, id := range ids {
			out = append(out, hookFromID(id))
		}
		return out
	}
	return &api.Hooks{
		Prestart:        mk(h["prestart"]),
		CreateRuntime:   mk(h["createRuntime"]),
		CreateContainer: mk(h["createContainer"]),
		StartContainer:  mk(h["startContainer"]),
		Poststart:       mk(h["poststart"]),
		Poststop:        mk(h["poststop"]),
	}
}

func fromAPIHooks(h *api.Hooks) Hooks {
	out := Hooks{}.Norm()
	if h == nil {
		return out
	}
	mk := func(hs []*api.Hook) Strs {
		ids := Strs{}
		for _, x := range hs {
			if x == nil {
				ids = append(ids, "<nil>")
				continue
			}
			var t *int64
			if x.Timeout != nil {
				v := x.Timeout.Value
				t = &v
			}
			ids = append(ids, hookID(x.Path, x.Args, x.Env, t))
		}
		return ids
	}
	out["prestart"] = mk(h.Prestart)
	out["createRuntime"] = mk(h.CreateRuntime)
	out["createContainer"] = mk(h.CreateContainer)
	out["startContainer"] = mk(h.StartContainer)
	out["poststart"] = mk(h.Poststart)
	out["poststop"] = mk(h.Poststop)
	return out
}

// -------------------------------------------------------------- resources --

// ScalarFields lists every scalar resource field of the abstract vocabulary
// (the last two live outside LinuxResources).
var ScalarFields = []string{
	"mem.limit", "mem.reservation", "mem.swap", "mem.kernel", "mem.kerneltcp",
	"mem.swappiness", "mem.disableoom", "mem.usehierarchy",
	"cpu.shares", "cpu.quota", "cpu.period", "cpu.rtruntime", "cpu.rtperiod",
	"cpu.cpus", "cpu.mems", "pids", "blockio", "rdt", "cgpath", "oom",
}

// apiResources builds LinuxResources from scalar fields (cgpath/oom ignored here),
// hugepage entries in list order, and unified keys. Sub-messages exist only
// when one of their fields is set.
func apiResources(res SMap, hp KVs, uni SMap) *api.LinuxResources {
	r := &api.LinuxResources{}
	any := false
	for k, v := range res {
		switch {
		case strings.HasPrefix(k, "mem."):
			if r.Memory == nil {
				r.Memory = &api.LinuxMemory{}
			}
		case strings.HasPrefix(k, "cpu."):
			if r.Cpu == nil {
				r.Cpu = &api.LinuxCPU{}
			}
		}
		switch k {
		case "mem.limit":
			r.Memory.Limit = &api.OptionalInt64{Value: pi64(v)}
		case "mem.reservation":
			r.Memory.Reservation = &api.OptionalInt64{Value: pi64(v)}
		case "mem.swap":
			r.Memory.Swap = &api.OptionalInt64{Value: pi64(v)}
		case "mem.kernel":
			r.Memory.Kernel = &api.OptionalInt64{Value: pi64(v)}
		case "mem.kerneltcp":
			r.Memory.KernelTcp = &api.OptionalInt64{Value: pi64(v)}
		case "mem.swappiness":
			r.Memory.Swappiness = &api.OptionalUInt64{Value: pu64(v)}
		case "mem.disableoom":
			r.Memory.DisableOomKiller = &api.OptionalBool{Value: pbool(v)}
		case "mem.usehierarchy":
			r.Memory.UseHierarchy = &api.OptionalBool{Value: pbool(v)}
		case "cpu.shares":
			r.Cpu.Shares = &api.OptionalUInt64{Value: pu64(v)}
		case "cpu.quota":
			r.Cpu.Quota = &api.OptionalInt64{Value: pi64(v)}
		case "cpu.period":
			r.Cpu.Period = &api.OptionalUInt64{Value: pu64(v)}
		case "cpu.rtruntime":
			r.Cpu.RealtimeRuntime = &api.OptionalInt64{Value: pi64(v)}
		case "cpu.rtperiod":
			r.Cpu.RealtimePeriod = &api.OptionalUInt64{Value: pu64(v)}
		case "cpu.cpus":
			r.Cpu.Cpus = v
		case "cpu.mems":
			r.Cpu.Mems = v
		case "pids":
			r.Pids = &api.LinuxPids{Limit: pi64(v)}
		case "blockio":
			r.BlockioClass = &api.OptionalString{Value: v}
		case "rdt":
			r.RdtClass = &api.OptionalString{Value: v}
		case "cgpath", "oom":
			continue
		default:
			panic("abs: unknown scalar field " + k)
		}
		any = true
	}
	for _, e := range hp {
		r.HugepageLimits = append(r.HugepageLimits, &api.HugepageLimit{PageSize: e.K, Limit: pu64(e.V)})
		any = true
	}
	if len(uni) > 0 {
		r.Unified = map[string]string{}
		for k, v := range uni {
			r.Unified[k] = v
		}
		any = true
	}
	if !any {
		return nil
	}
	return r
}

func mapToKVs(m SMap) KVs {
	out := KVs{}
	for _, k := range m.Keys() {
		out = append(out, KV{k, m[k]})
	}
	return out
}

// fromAPIResources projects LinuxResources; hugepages are returned as the raw list.
func fromAPIResources(r *api.LinuxResources) (SMap, KVs, SMap) {
	res, hp, uni := SMap{}, KVs{}, SMap{}
	if r == nil {
		return res, hp, uni
	}
	if m := r.Memory; m != nil {
		if m.Limit != nil {
			res["mem.limit"] = i64s(m.Limit.Value)
		}
		if m.Reservation != nil {
			res["mem.reservation"] = i64s(m.Reservation.Value)
		}
		if m.Swap != nil {
			res["mem.swap"] = i64s(m.Swap.Value)
		}
		if m.Kernel != nil {
			res["mem.kernel"] = i64s(m.Kernel.Value)
		}
		if m.KernelTcp != nil {
			res["mem.kerneltcp"] = i64s(m.KernelTcp.Value)
		}
		if m.Swappiness != nil {
			res["mem.swappiness"] = u64s(m.Swappiness.Value)
		}
		if m.DisableOomKiller != nil {
			res["mem.disableoom"] = bs(m.DisableOomKiller.Value)
		}
		if m.UseHierarchy != nil {
			res["mem.usehierarchy"] = bs(m.UseHierarchy.Value)
		}
	}
	if c := r.Cpu; c != nil {
		if c.Shares != nil {
			res["cpu.shares"] = u64s(c.Shares.Value)
		}
		if c.Quota != nil {
			res["cpu.quota"] = i64s(c.Quota.Value)
		}
		if c.Period != nil {
			res["cpu.period"] = u64s(c.Period.Value)
		}
		if c.RealtimeRuntime != nil {
			res["cpu.rtruntime"] = i64s(c.RealtimeRuntime.Value)
		}
		if c.RealtimePeriod != nil {
			res["cpu.rtperiod"] = u64s(c.RealtimePeriod.Value)
		}
		if c.Cpus != "" {
			res["cpu.cpus"] = c.Cpus
		}
		if c.Mems != "" {
			res["cpu.mems"] = c.Mems
		}
	}
	if r.Pids != nil {
		res["pids"] = i64s(r.Pids.Limit)
	}
	if r.BlockioClass != nil {
		res["blockio"] = r.BlockioClass.Value
	}
	if r.RdtClass != nil {
		res["rdt"] = r.RdtClass.Value
	}
	for _, l := range r.HugepageLimits {
		if l == nil {
			hp = append(hp, KV{"<nil>", ""})
			continue
		}
		hp = append(hp, KV{l.PageSize, u64s(l.Limit)})
	}
	for k, v := range r.Unified {
		uni[k] = v
	}
	return res, hp, uni
}

func lastWins(l KVs) SMap {
	m := SMap{}
	for _, e := range l {
		m[e.K] = e.V
	}
	return m
}

// ToAPIResources builds the resources of an update request from a view.
func ToAPIResources(v ResView) *api.LinuxResources {
	return apiResources(v.Res, mapToKVs(v.Hp), v.Uni)
}

// FromAPIResources projects resources to a view (hugepages last-wins per size).
func FromAPIResources(r *api.LinuxResources) ResView {
	res, hp, uni := fromAPIResources(r)
	return ResView{Res: res, Hp: lastWins(hp), Uni: uni}
}

// ------------------------------------------------------------- containers --

// ToAPIContainer builds the container the runtime submits.
func ToAPIContainer(id, pod string, c Container) *api.Container {
	c = c.Norm()
	out := &api.Container{
		Id:           id,
		PodSandboxId: pod,
		Name:         "ctr-" + id,
		State:        api.ContainerState_CONTAINER_CREATED,
		Labels:       map[string]string{"verif": "1"},
	}
	if len(c.Ann) > 0 {
		out.Annotations = map[string]string{}
		for k, v := range c.Ann {
			out.Annotations[k] = v
		}
	}
	out.Args = append([]string(nil), c.Args...)
	for _, k := range c.Env.Keys() {
		out.Env = append(out.Env, k+"="+c.Env[k])
	}
	for _, k := range c.Mnt.Keys() {
		out.Mounts = append(out.Mounts, mountFromVal(k, c.Mnt[k]))
	}
	nh := 0
	for _, s := range Stages {
		nh += len(c.Hooks[s])
	}
	if nh > 0 {
		out.Hooks = apiHooks(c.Hooks)
	}
	for _, e := range c.Rlim {
		hs := strings.SplitN(e.V, ":", 2)
		out.Rlimits = append(out.Rlimits, &api.POSIXRlimit{Type: e.K, Hard: pu64(hs[0]), Soft: pu64(hs[1])})
	}
	lin := &api.LinuxContainer{}
	for _, k := range c.Dev.Keys() {
		lin.Devices = append(lin.Devices, deviceFromVal(k, c.Dev[k]))
	}
	lin.Resources = apiResources(c.Res, mapToKVs(c.Hp), c.Uni)
	if v, ok := c.Res["cgpath"]; ok {
		lin.CgroupsPath = v
	}
	if v, ok := c.Res["oom"]; ok {
		lin.OomScoreAdj = &api.OptionalInt{Value: pi64(v)}
	}
	out.Linux = lin
	return out
}

func splitEnv(e string) (string, string) {
	i := strings.IndexByte(e, '=')
	if i < 0 {
		return e, "<noeq>"
	}
	return e[:i], e[i+1:]
}

func rlimVal(hard, soft uint64) string { return u64s(hard) + ":" + u64s(soft) }

// FromAPIContainer projects the container a plugin is shown.
func FromAPIContainer(c *api.Container) Container {
	out := Container{}.Norm()
	if c == nil {
		return out
	}
	for k, v := range c.Annotations {
		out.Ann[k] = v
	}
	for _, e := range c.Env {
		k, v := splitEnv(e)
		put(out.Env, k, v)
	}
	for _, m := range c.Mounts {
		if m == nil {
			put(out.Mnt, "<nil>", "")
			continue
		}
		put(out.Mnt, m.Destination, mountVal(m.Source, m.Type, m.Options))
	}
	out.Args = append(Strs{}, c.Args...)
	out.Hooks = fromAPIHooks(c.Hooks)
	out.Rlim = KVs{}
	for _, l := range c.Rlimits {
		if l == nil {
			out.Rlim = append(out.Rlim, KV{"<nil>", ""})
			continue
		}
		out.Rlim = append(out.Rlim, KV{l.Type, rlimVal(l.Hard, l.Soft)})
	}
	if l := c.Linux; l != nil {
		for _, d := range l.Devices {
			if d == nil {
				put(out.Dev, "<nil>", "")
				continue
			}
			put(out.Dev, d.Path, deviceVal(d))
		}
		res, hp, uni := fromAPIResources(l.Resources)
		out.Res, out.Hp, out.Uni = res, lastWins(hp), uni
		if l.CgroupsPath != "" {
			out.Res["cgpath"] = l.CgroupsPath
		}
		if l.OomScoreAdj != nil {
			out.Res["oom"] = i64s(l.OomScoreAdj.Value)
		}
	}
	return out
}

// ------------------------------------------------------------ adjustments --

// ToAPIAdjust builds a plugin's adjustment. Optional sub-messages are created
// only when needed, as a plugin using the API's setters would.
func ToAPIAdjust(a Adjust) *api.ContainerAdjustment {
	a = a.Norm()
	if a.IsEmpty() {
		return nil
	}
	out := &api.ContainerAdjustment{}
	if len(a.Ann) > 0 {
		out.Annotations = map[string]string{}
		for k, v := range a.Ann {
			out.Annotations[k] = v
		}
	}
	for _, e := range a.Env {
		out.Env = append(out.Env, &api.KeyValue{Key: e.K, Value: e.V})
	}
	for _, e := range a.Mnt {
		if len(e.K) > 0 && e.K[0] == '-' {
			out.Mounts = append(out.Mounts, &api.Mount{Destination: e.K})
		} else {
			out.Mounts = append(out.Mounts, mountFromVal(e.K, e.V))
		}
	}
	out.Args = append([]string(nil), a.Args...)
	nh := 0
	for _, s := range Stages {
		nh += len(a.Hooks[s])
	}
	if nh > 0 {
		out.Hooks = apiHooks(a.Hooks)
	}
	for _, e := range a.Rlim {
		hs := strings.SplitN(e.V, ":", 2)
		out.Rlimits = append(out.Rlimits, &api.POSIXRlimit{Type: e.K, Hard: pu64(hs[0]), Soft: pu64(hs[1])})
	}
	for _, n := range a.Cdi {
		out.CDIDevices = append(out.CDIDevices, &api.CDIDevice{Name: n})
	}
	var lin *api.LinuxContainerAdjustment
	need := func() *api.LinuxContainerAdjustment {
		if lin == nil {
			lin = &api.LinuxContainerAdjustment{}
		}
		return lin
	}
	for _, e := range a.Dev {
		if len(e.K) > 0 && e.K[0] == '-' {
			need().Devices = append(need().Devices, &api.LinuxDevice{Path: e.K})
		} else {
			need().Devices = append(need().Devices, deviceFromVal(e.K, e.V))
		}
	}
	if r := apiResources(a.Res, a.Hp, a.Uni); r != nil {
		need().Resources = r
	}
	if v, ok := a.Res["cgpath"]; ok {
		need().CgroupsPath = v
	}
	if v, ok := a.Res["oom"]; ok {
		need().OomScoreAdj = &api.OptionalInt{Value: pi64(v)}
	}
	out.Linux = lin
	return out
}

// FromAPIAdjust projects an adjustment to the wire-shaped abstract form.
func FromAPIAdjust(a *api.ContainerAdjustment) Adjust {
	out := Adjust{}.Norm()
	out.Env, out.Mnt, out.Dev, out.Rlim, out.Hp = KVs{}, KVs{}, KVs{}, KVs{}, KVs{}
	out.Args, out.Cdi = Strs{}, Strs{}
	if a == nil {
		return out
	}
	for k, v := range a.Annotations {
		out.Ann[k] = v
	}
	for _, e := range a.Env {
		if e == nil {
			out.Env = append(out.Env, KV{"<nil>", ""})
			continue
		}
		out.Env = append(out.Env, KV{e.Key, e.Value})
	}
	for _, m := range a.Mounts {
		switch {
		case m == nil:
			out.Mnt = append(out.Mnt, KV{"<nil>", ""})
		case len(m.Destination) > 0 && m.Destination[0] == '-':
			out.Mnt = append(out.Mnt, KV{m.Destination, ""})
		default:
			out.Mnt = append(out.Mnt, KV{m.Destination, mountVal(m.Source, m.Type, m.Options)})
		}
	}
	out.Args = append(out.Args, a.Args...)
	out.Hooks = fromAPIHooks(a.Hooks)
	for _, l := range a.Rlimits {
		if l == nil {
			out.Rlim = append(out.Rlim, KV{"<nil>", ""})
			continue
		}
		out.Rlim = append(out.Rlim, KV{l.Type, rlimVal(l.Hard, l.Soft)})
	}
	for _, d := range a.CDIDevices {
		if d == nil {
			out.Cdi = append(out.Cdi, "<nil>")
			continue
		}
		out.Cdi = append(out.Cdi, d.Name)
	}
	if l := a.Linux; l != nil {
		for _, d := range l.Devices {
			switch {
			case d == nil:
				out.Dev = append(out.Dev, KV{"<nil>", ""})
			case len(d.Path) > 0 && d.Path[0] == '-':
				out.Dev = append(out.Dev, KV{d.Path, ""})
			default:
				out.Dev = append(out.Dev, KV{d.Path, deviceVal(d)})
			}
		}
		out.Res, out.Hp, out.Uni = fromAPIResources(l.Resources)
		if l.CgroupsPath != "" {
			out.Res["cgpath"] = l.CgroupsPath
		}
		if l.OomScoreAdj != nil {
			out.Res["oom"] = i64s(l.OomScoreAdj.Value)
		}
	}
	return out
}

// ---------------------------------------------------------------- updates --

func ToAPIUpdate(u Update) *api.ContainerUpdate {
	out := &api.ContainerUpdate{ContainerId: u.Target, IgnoreFailure: u.Ignore}
	if u.HasRes {
		r := apiResources(u.Res, u.Hp, u.Uni)
		if r == nil {
			r = &api.LinuxResources{}
		}
		out.Linux = &api.LinuxContainerUpdate{Resources: r}
	}
	return out
}

func ToAPIUpdates(us []Update) []*api.ContainerUpdate {
	var out []*api.ContainerUpdate
	for _, u := range us {
		out = append(out, ToAPIUpdate(u))
	}
	return out
}

func FromAPIUpdateEntry(u *api.ContainerUpdate) UpdEntry {
	if u == nil {
		return UpdEntry{Nil: true, Res: SMap{}, Hp: SMap{}, Uni: SMap{}}
	}
	e := UpdEntry{Target: u.ContainerId, Ignore: u.IgnoreFailure}
	var r *api.LinuxResources
	if u.Linux != nil {
		r = u.Linux.Resources
	}
	v := FromAPIResources(r)
	e.Res, e.Hp, e.Uni = v.Res, v.Hp, v.Uni
	return e
}

func FromAPIUpdateList(us []*api.ContainerUpdate) []UpdEntry {
	out := []UpdEntry{}
	for _, u := range us {
		out = append(out, FromAPIUpdateEntry(u))
	}
	return out
}

// -------------------------------------------------------------------- OCI --

// Class registry: the harness' resolvers map class names to OCI structures
// that can be mapped back.
var (
	classMu   sync.Mutex
	blkByName = map[string]uint16{}
	blkByW    = map[uint16]string{}
)

func ResolveBlockIO(name string) (*rspec.LinuxBlockIO, error) {
	classMu.Lock()
	defer classMu.Unlock()
	w, ok := blkByName[name]
	if !ok {
		w = uint16(len(blkByName) + 10)
		blkByName[name] = w
		blkByW[w] = name
	}
	return &rspec.LinuxBlockIO{Weight: &w}, nil
}

func ResolveRdt(name string) (*rspec.LinuxIntelRdt, error) {
	return &rspec.LinuxIntelRdt{ClosID: name}, nil
}

func blkName(b *rspec.LinuxBlockIO) string {
	if b.Weight == nil {
		return "<noweight>"
	}
	classMu.Lock()
	defer classMu.Unlock()
	if n, ok := blkByW[*b.Weight]; ok {
		return n
	}
	return "<weight " + u64s(uint64(*b.Weight)) + ">"
}

// ToOCISpec builds the OCI spec of the container as submitted by the runtime.
func ToOCISpec(c Container) *rspec.Spec { return ToOCISpecOrd(c, false) }

// ToOCISpecOrd lists the original's mounts in reverse key order when rev is set
// (children before their parents): the order of the runtime's own mounts is an input.
func ToOCISpecOrd(c Container, rev bool) *rspec.Spec {
	c = c.Norm()
	s := &rspec.Spec{
		Version:  "1.0.2",
		Hostname: "verif-host",
		Root:     &rspec.Root{Path: "/rootfs", Readonly: true},
		Process: &rspec.Process{
			Cwd:  "/work",
			User: rspec.User{UID: 1000, GID: 1000},
			Args: append([]string(nil), c.Args...),
		},
		Linux: &rspec.Linux{
			Namespaces: []rspec.LinuxNamespace{{Type: "pid"}, {Type: "mount"}},
			Resources:  &rspec.LinuxResources{},
		},
	}
	if len(c.Ann) > 0 {
		s.Annotations = map[string]string{}
		for k, v := range c.Ann {
			s.Annotations[k] = v
		}
	}
	for _, k := range c.Env.Keys() {
		s.Process.Env = append(s.Process.Env, k+"="+c.Env[k])
	}
	mkeys := c.Mnt.Keys()
	if rev {
		for i, j := 0, len(mkeys)-1; i < j; i, j = i+1, j-1 {
			mkeys[i], mkeys[j] = mkeys[j], mkeys[i]
		}
	}
	for _, k := range mkeys {
		m := mountFromVal(k, c.Mnt[k])
		s.Mounts = append(s.Mounts, rspec.Mount{Destination: m.Destination, Type: m.Type, Source: m.Source, Options: m.Options})
	}
	mkh := func(ids Strs) []rspec.Hook {
		var out []rspec.Hook
		for _, id := range ids {
			h := hookFromID(id)
			out = append(out, rspec.Hook{Path: h.Path, Args: h.Args, Env: h.Env})
		}
		return out
	}
	nh := 0
	for _, st := range Stages {
		nh += len(c.Hooks[st])
	}
	if nh > 0 {
		s.Hooks = &rspec.Hooks{
			Prestart: mkh(c.Hooks["prestart"]), CreateRuntime: mkh(c.Hooks["createRuntime"]),
			CreateContainer: mkh(c.Hooks["createContainer"]), StartContainer: mkh(c.Hooks["startContainer"]),
			Poststart: mkh(c.Hooks["poststart"]), Poststop: mkh(c.Hooks["poststop"]),
		}
	}
	for _, e := range c.Rlim {
		hs := strings.SplitN(e.V, ":", 2)
		s.Process.Rlimits = append(s.Process.Rlimits, rspec.POSIXRlimit{Type: e.K, Hard: pu64(hs[0]), Soft: pu64(hs[1])})
	}
	for _, k := range c.Dev.Keys() {
		d := deviceFromVal(k, c.Dev[k])
		od := rspec.LinuxDevice{Path: d.Path, Type: d.Type, Major: d.Major, Minor: d.Minor}
		if d.FileMode != nil {
			m := os.FileMode(d.FileMode.Value)
			od.FileMode = &m
		}
		if d.Uid != nil {
			v := d.Uid.Value
			od.UID = &v
		}
		if d.Gid != nil {
			v := d.Gid.Value
			od.GID = &v
		}
		s.Linux.Devices = append(s.Linux.Devices, od)
	}
	r := s.Linux.Resources
	mem := func() *rspec.LinuxMemory {
		if r.Memory == nil {
			r.Memory = &rspec.LinuxMemory{}
		}
		return r.Memory
	}
	cpu := func() *rspec.LinuxCPU {
		if r.CPU == nil {
			r.CPU = &rspec.LinuxCPU{}
		}
		return r.CPU
	}
	for k, v := range c.Res {
		switch k {
		case "mem.limit":
			x := pi64(v)
			mem().Limit = &x
		case "mem.reservation":
			x := pi64(v)
			mem().Reservation = &x
		case "mem.swap":
			x := pi64(v)
			mem().Swap = &x
		case "mem.kernel":
			x := pi64(v)
			mem().Kernel = &x
		case "mem.kerneltcp":
			x := pi64(v)
			mem().KernelTCP = &x
		case "mem.swappiness":
			x := pu64(v)
			mem().Swappiness = &x
		case "mem.disableoom":
			x := pbool(v)
			mem().DisableOOMKiller = &x
		case "mem.usehierarchy":
			x := pbool(v)
			mem().UseHierarchy = &x
		case "cpu.shares":
			x := pu64(v)
			cpu().Shares = &x
		case "cpu.quota":
			x := pi64(v)
			cpu().Quota = &x
		case "cpu.period":
			x := pu64(v)
			cpu().Period = &x
		case "cpu.rtruntime":
			x := pi64(v)
			cpu().RealtimeRuntime = &x
		case "cpu.rtperiod":
			x := pu64(v)
			cpu().RealtimePeriod = &x
		case "cpu.cpus":
			cpu().Cpus = v
		case "cpu.mems":
			cpu().Mems = v
		case "pids":
			r.Pids = &rspec.LinuxPids{Limit: pi64(v)}
		case "blockio":
			r.BlockIO, _ = ResolveBlockIO(v)
		case "rdt":
			s.Linux.IntelRdt, _ = ResolveRdt(v)
		case "cgpath":
			s.Linux.CgroupsPath = v
		case "oom":
			x := int(pi64(v))
			s.Process.OOMScoreAdj = &x
		default:
			panic("abs: unknown scalar field " + k)
		}
	}
	for _, k := range c.Hp.Keys() {
		r.HugepageLimits = append(r.HugepageLimits, rspec.LinuxHugepageLimit{Pagesize: k, Limit: pu64(c.Hp[k])})
	}
	if len(c.Uni) > 0 {
		r.Unified = map[string]string{}
		for k, v := range c.Uni {
			r.Unified[k] = v
		}
	}
	// the children-first variant also leaves out the resources section when the container has no resources at all
	// (an OCI spec need not have one)
	if rev && len(c.Res) == 0 && len(c.Hp) == 0 && len(c.Uni) == 0 {
		s.Linux.Resources = nil
	}
	return s
}

// FromOCISpec projects a spec; cdi are the names handed to the injector.
func FromOCISpec(s *rspec.Spec, cdi []string) Oci {
	out := Oci{Container: Container{}.Norm(), Cdi: append(Strs{}, cdi...), Mord: Strs{}, Eord: Strs{}}
	out.Args, out.Rlim = Strs{}, KVs{}
	if s == nil {
		return out
	}
	for k, v := range s.Annotations {
		out.Ann[k] = v
	}
	if p := s.Process; p != nil {
		for _, e := range p.Env {
			k, v := splitEnv(e)
			put(out.Env, k, v)
			out.Eord = append(out.Eord, e)
		}
		out.Args = append(out.Args, p.Args...)
		for _, l := range p.Rlimits {
			out.Rlim = append(out.Rlim, KV{l.Type, rlimVal(l.Hard, l.Soft)})
		}
		if p.OOMScoreAdj != nil {
			out.Res["oom"] = i64s(int64(*p.OOMScoreAdj))
		}
	}
	for _, m := range s.Mounts {
		put(out.Mnt, m.Destination, mountVal(m.Source, m.Type, m.Options))
		out.Mord = append(out.Mord, m.Destination)
	}
	if h := s.Hooks; h != nil {
		mk := func(hs []rspec.Hook) Strs {
			ids := Strs{}
			for _, x := range hs {
				var t *int64
				if x.Timeout != nil {
					v := int64(*x.Timeout)
					t = &v
				}
				ids = append(ids, hookID(x.Path, x.Args, x.Env, t))
			}
			return ids
		}
		out.Hooks["prestart"] = mk(h.Prestart)
		out.Hooks["createRuntime"] = mk(h.CreateRuntime)
		out.Hooks["createContainer"] = mk(h.CreateContainer)
		out.Hooks["startContainer"] = mk(h.StartContainer)
		out.Hooks["poststart"] = mk(h.Poststart)
		out.Hooks["poststop"] = mk(h.Poststop)
	}
	if l := s.Linux; l != nil {
		for _, d := range l.Devices {
			put(out.Dev, d.Path, ociDeviceVal(d))
		}
		if l.CgroupsPath != "" {
			out.Res["cgpath"] = l.CgroupsPath
		}
		if l.IntelRdt != nil {
			out.Res["rdt"] = l.IntelRdt.ClosID
		}
		if r := l.Resources; r != nil {
			if m := r.Memory; m != nil {
				if m.Limit != nil {
					out.Res["mem.limit"] = i64s(*m.Limit)
				}
				if m.Reservation != nil {
					out.Res["mem.reservation"] = i64s(*m.Reservation)
				}
				if m.Swap != nil {
					out.Res["mem.swap"] = i64s(*m.Swap)
				}
				if m.Kernel != nil {
					out.Res["mem.kernel"] = i64s(*m.Kernel)
				}
				if m.KernelTCP != nil {
					out.Res["mem.kerneltcp"] = i64s(*m.KernelTCP)
				}
				if m.Swappiness != nil {
					out.Res["mem.swappiness"] = u64s(*m.Swappiness)
				}
				if m.DisableOOMKiller != nil {
					out.Res["mem.disableoom"] = bs(*m.DisableOOMKiller)
				}
				if m.UseHierarchy != nil {
					out.Res["mem.usehierarchy"] = bs(*m.UseHierarchy)
				}
			}
			if c := r.CPU; c != nil {
				if c.Shares != nil {
					out.Res["cpu.shares"] = u64s(*c.Shares)
				}
				if c.Quota != nil {
					out.Res["cpu.quota"] = i64s(*c.Quota)
				}
				if c.Period != nil {
					out.Res["cpu.period"] = u64s(*c.Period)
				}
				if c.RealtimeRuntime != nil {
					out.Res["cpu.rtruntime"] = i64s(*c.RealtimeRuntime)
				}
				if c.RealtimePeriod != nil {
					out.Res["cpu.rtperiod"] = u64s(*c.RealtimePeriod)
				}
				if c.Cpus != "" {
					out.Res["cpu.cpus"] = c.Cpus
				}
				if c.Mems != "" {
					out.Res["cpu.mems"] = c.Mems
				}
			}
			if r.Pids != nil {
				out.Res["pids"] = i64s(r.Pids.Limit)
			}
			if r.BlockIO != nil {
				out.Res["blockio"] = blkName(r.BlockIO)
			}
			for _, l := range r.HugepageLimits {
				put(out.Hp, l.Pagesize, u64s(l.Limit))
			}
			for k, v := range r.Unified {
				out.Uni[k] = v
			}
		}
	}
	out.Devc = Strs{}
	if s != nil && s.Linux != nil && s.Linux.Resources != nil {
		for _, r := range s.Linux.Resources.Devices {
			if !r.Allow {
				continue
			}
			mj, mn := "-", "-"
			if r.Major != nil {
				mj = i64s(*r.Major)
			}
			if r.Minor != nil {
				mn = i64s(*r.Minor)
			}
			out.Devc = append(out.Devc, r.Type+"|"+mj+"|"+mn)
		}
	}
	return out
}

// Rest is a digest of everything in the spec that the abstract projection does
// not cover (C13: "leaves everything else untouched").
func Rest(s *rspec.Spec) string {
	if s == nil {
		return "<nil>"
	}
	parts := []string{s.Version, s.Hostname}
	if s.Root != nil {
		parts = append(parts, s.Root.Path, bs(s.Root.Readonly))
	}
	if p := s.Process; p != nil {
		parts = append(parts, p.Cwd, u64s(uint64(p.User.UID)), u64s(uint64(p.User.GID)), bs(p.Terminal), bs(p.NoNewPrivileges))
	}
	if l := s.Linux; l != nil {
		ns := []string{}
		for _, n := range l.Namespaces {
			ns = append(ns, string(n.Type)+":"+n.Path)
		}
		sort.Strings(ns)
		parts = append(parts, strings.Join(ns, ","), l.RootfsPropagation)
	}
	return strings.Join(parts, "|")
}

// ---------------------------------------------------- exported constructors --
// (used by the builder driver, which hands real objects to the API's methods)

func MountFromVal(dest, val string) *api.Mount                    { return mountFromVal(dest, val) }
func DeviceFromVal(path, val string) *api.LinuxDevice             { return deviceFromVal(path, val) }
func HookFromID(id string) *api.Hook                              { return hookFromID(id) }
func PI64(s string) int64                                         { return pi64(s) }
func PU64(s string) uint64                                        { return pu64(s) }
func FromAPIResourcesRaw(r *api.LinuxResources) (SMap, KVs, SMap) { return fromAPIResources(r) }
