package rawpeer

import (
	"context"
	"errors"
	"net"
	"sync"
	"time"

	"github.com/containerd/nri/pkg/api"
	"github.com/containerd/nri/pkg/net/multiplex"
	"github.com/containerd/ttrpc"
)

// Runtime is a scripted runtime end of the NRI protocol (against a stub).
type Runtime struct {
	Cut     *Cutter
	Mux     multiplex.Mux
	srv     *ttrpc.Server
	clt     *ttrpc.Client
	Plugin  api.PluginService
	mu      sync.Mutex
	Reg     *api.RegisterPluginRequest
	RegC    chan struct{}
	OnReg   func(*api.RegisterPluginRequest) error // decides the answer to RegisterPlugin
	OnUpd   func(*api.UpdateContainersRequest) (*api.UpdateContainersResponse, error)
	regOnce sync.Once
}

func (r *Runtime) RegisterPlugin(_ context.Context, q *api.RegisterPluginRequest) (*api.Empty, error) {
	r.mu.Lock()
	r.Reg = q
	r.mu.Unlock()
	var err error
	if r.OnReg != nil {
		err = r.OnReg(q)
	}
	r.regOnce.Do(func() { close(r.RegC) })
	return &api.Empty{}, err
}

func (r *Runtime) UpdateContainers(_ context.Context, q *api.UpdateContainersRequest) (*api.UpdateContainersResponse, error) {
	if r.OnUpd != nil {
		return r.OnUpd(q)
	}
	return &api.UpdateContainersResponse{}, nil
}

// AttachRuntime sets up the runtime end on conn.
func AttachRuntime(conn net.Conn, onReg func(*api.RegisterPluginRequest) error) (*Runtime, error) {
	r := &Runtime{RegC: make(chan struct{}), OnReg: onReg}
	r.Cut = NewCutter(conn)
	r.Mux = multiplex.Multiplex(r.Cut)
	l, err := r.Mux.Listen(multiplex.RuntimeServiceConn)
	if err != nil {
		return nil, err
	}
	srv, err := ttrpc.NewServer()
	if err != nil {
		return nil, err
	}
	api.RegisterRuntimeService(srv, r)
	r.srv = srv
	pc, err := r.Mux.Open(multiplex.PluginServiceConn)
	if err != nil {
		return nil, err
	}
	r.clt = ttrpc.NewClient(pc)
	r.Plugin = api.NewPluginClient(r.clt)
	go srv.Serve(context.Background(), l)
	return r, nil
}

// WaitRegistered waits for the stub's RegisterPlugin request.
func (r *Runtime) WaitRegistered(d time.Duration) error {
	select {
	case <-r.RegC:
		return nil
	case <-time.After(d):
		return errors.New("runtime peer: no registration")
	}
}

// Close drops the connection.
func (r *Runtime) Close() {
	r.Cut.Close()
	if r.clt != nil {
		r.clt.Close()
	}
	if r.srv != nil {
		r.srv.Close()
	}
	r.Mux.Close()
}
