// Package rawpeer is a plugin end of the NRI protocol built directly on the
// multiplexer and ttRPC (no stub), with a byte-cutting connection wrapper, for
// fault injection (C07) and malformed registrations (C17). It can also play the
// runtime end against a stub (C15, C16).
package rawpeer

import (
	"context"
	"errors"
	"io"
	"net"
	"sync"
	"time"

	"github.com/containerd/nri/pkg/api"
	"github.com/containerd/nri/pkg/net/multiplex"
	"github.com/containerd/ttrpc"
)

// Cutter wraps a connection; it counts bytes and can cut the connection after a
// given number of further bytes in either direction (the cut is a close).
type Cutter struct {
	net.Conn
	mu       sync.Mutex
	rd, wr   int64 // bytes read / written so far
	cutRd    int64 // cut once rd reaches this (-1 = never)
	cutWr    int64
	cut      bool
	failWr   int64 // writes fail (without closing anything) once wr reaches this (-1 = never)
	OnCut    func(dir string)
	closeOne sync.Once
	CloseErr error // what Close() reports (the connection is closed all the same)
	deaf     chan struct{}
}

// GoDeaf shuts down the read side of the underlying unix socket - the peer's writes fail with EPIPE from now on -
// while this end's reader is kept waiting instead of being told that the stream ended: the peer does not get an
// end-of-file in return, it learns of the loss only by writing.
func (c *Cutter) GoDeaf() bool {
	u, ok := c.Conn.(*net.UnixConn)
	if !ok {
		return false
	}
	c.mu.Lock()
	if c.deaf == nil {
		c.deaf = make(chan struct{})
	}
	c.mu.Unlock()
	return u.CloseRead() == nil
}

func NewCutter(c net.Conn) *Cutter {
	return &Cutter{Conn: c, cutRd: -1, cutWr: -1, failWr: -1}
}

// Counts returns bytes read and written so far.
func (c *Cutter) Counts() (int64, int64) {
	c.mu.Lock()
	defer c.mu.Unlock()
	return c.rd, c.wr
}

// CutAfterRead arms a cut after n more bytes have been read.
func (c *Cutter) CutAfterRead(n int64) {
	c.mu.Lock()
	c.cutRd = c.rd + n
	c.mu.Unlock()
	if n == 0 {
		c.doCut("read")
	}
}

// CutAfterWrite arms a cut after n more bytes have been written.
func (c *Cutter) CutAfterWrite(n int64) {
	c.mu.Lock()
	c.cutWr = c.wr + n
	c.mu.Unlock()
	if n == 0 {
		c.doCut("write")
	}
}

// FailWritesAfter makes writes fail after n more bytes, leaving the connection open otherwise
// (the trunk fails in one direction only).
func (c *Cutter) FailWritesAfter(n int64) {
	c.mu.Lock()
	c.failWr = c.wr + n
	c.mu.Unlock()
}

func (c *Cutter) doCut(dir string) {
	c.closeOne.Do(func() {
		c.mu.Lock()
		c.cut = true
		if c.deaf != nil {
			close(c.deaf)
		}
		c.mu.Unlock()
		c.Conn.Close()
		if c.OnCut != nil {
			c.OnCut(dir)
		}
	})
}

func (c *Cutter) Read(b []byte) (int, error) {
	c.mu.Lock()
	if c.cut {
		c.mu.Unlock()
		return 0, io.EOF
	}
	limit := int64(len(b))
	if c.cutRd >= 0 && c.cutRd-c.rd < limit {
		limit = c.cutRd - c.rd
	}
	c.mu.Unlock()
	if limit <= 0 {
		c.doCut("read")
		return 0, io.EOF
	}
	n, err := c.Conn.Read(b[:limit])
	c.mu.Lock()
	deaf := c.deaf
	c.mu.Unlock()
	if deaf != nil && n == 0 {
		<-deaf // (closed together with the connection)
		return 0, io.EOF
	}
	c.mu.Lock()
	c.rd += int64(n)
	hit := c.cutRd >= 0 && c.rd >= c.cutRd
	c.mu.Unlock()
	if hit {
		c.doCut("read")
	}
	return n, err
}

func (c *Cutter) Write(b []byte) (int, error) {
	c.mu.Lock()
	if c.cut {
		c.mu.Unlock()
		return 0, io.ErrClosedPipe
	}
	limit := int64(len(b))
	short := false
	if c.cutWr >= 0 && c.cutWr-c.wr < limit {
		limit = c.cutWr - c.wr
		short = true
	}
	if c.failWr >= 0 && c.failWr-c.wr < limit {
		limit = c.failWr - c.wr
		if limit < 0 {
			limit = 0
		}
		short = true
	}
	c.mu.Unlock()
	var n int
	var err error
	if limit > 0 {
		n, err = c.Conn.Write(b[:limit])
	}
	c.mu.Lock()
	c.wr += int64(n)
	hit := c.cutWr >= 0 && c.wr >= c.cutWr
	c.mu.Unlock()
	if hit {
		c.doCut("write")
	}
	if short && err == nil {
		err = io.ErrClosedPipe
	}
	return n, err
}

func (c *Cutter) Close() error {
	c.doCut("close")
	return c.CloseErr
}

// Handlers of a raw plugin peer; nil entries answer with an empty response.
type Handlers struct {
	Configure   func(*api.ConfigureRequest) (*api.ConfigureResponse, error)
	Synchronize func(*api.SynchronizeRequest) (*api.SynchronizeResponse, error)
	Create      func(context.Context, *api.CreateContainerRequest) (*api.CreateContainerResponse, error)
	Update      func(context.Context, *api.UpdateContainerRequest) (*api.UpdateContainerResponse, error)
	Stop        func(context.Context, *api.StopContainerRequest) (*api.StopContainerResponse, error)
	UpdatePod   func(context.Context, *api.UpdatePodSandboxRequest) (*api.UpdatePodSandboxResponse, error)
	StateChange func(context.Context, *api.StateChangeEvent) error
}

// Plugin is the raw plugin peer.
type Plugin struct {
	Name, Idx string
	H         *Handlers
	Cut       *Cutter
	Mux       multiplex.Mux
	srv       *ttrpc.Server
	clt       *ttrpc.Client
	Runtime   api.RuntimeService
	ClosedC   chan struct{}
	closeOnce sync.Once
	Events    int32 // mask answered by the default Configure
}

func (p *Plugin) FullName() string { return p.Idx + "-" + p.Name }

func (p *Plugin) Configure(_ context.Context, r *api.ConfigureRequest) (*api.ConfigureResponse, error) {
	if p.H != nil && p.H.Configure != nil {
		return p.H.Configure(r)
	}
	return &api.ConfigureResponse{Events: p.Events}, nil
}
func (p *Plugin) Synchronize(_ context.Context, r *api.SynchronizeRequest) (*api.SynchronizeResponse, error) {
	if p.H != nil && p.H.Synchronize != nil {
		return p.H.Synchronize(r)
	}
	return &api.SynchronizeResponse{More: r.More}, nil
}
func (p *Plugin) Shutdown(context.Context, *api.Empty) (*api.Empty, error) { return &api.Empty{}, nil }
func (p *Plugin) CreateContainer(ctx context.Context, r *api.CreateContainerRequest) (*api.CreateContainerResponse, error) {
	if p.H != nil && p.H.Create != nil {
		return p.H.Create(ctx, r)
	}
	return &api.CreateContainerResponse{}, nil
}
func (p *Plugin) UpdateContainer(ctx context.Context, r *api.UpdateContainerRequest) (*api.UpdateContainerResponse, error) {
	if p.H != nil && p.H.Update != nil {
		return p.H.Update(ctx, r)
	}
	return &api.UpdateContainerResponse{}, nil
}
func (p *Plugin) StopContainer(ctx context.Context, r *api.StopContainerRequest) (*api.StopContainerResponse, error) {
	if p.H != nil && p.H.Stop != nil {
		return p.H.Stop(ctx, r)
	}
	return &api.StopContainerResponse{}, nil
}
func (p *Plugin) UpdatePodSandbox(ctx context.Context, r *api.UpdatePodSandboxRequest) (*api.UpdatePodSandboxResponse, error) {
	if p.H != nil && p.H.UpdatePod != nil {
		return p.H.UpdatePod(ctx, r)
	}
	return &api.UpdatePodSandboxResponse{}, nil
}
func (p *Plugin) StateChange(ctx context.Context, e *api.StateChangeEvent) (*api.Empty, error) {
	if p.H != nil && p.H.StateChange != nil {
		return &api.Empty{}, p.H.StateChange(ctx, e)
	}
	return &api.Empty{}, nil
}

// Connect dials the NRI socket and sets up mux, plugin service and runtime client.
// It does not register.
func Connect(socket, name, idx string, h *Handlers) (*Plugin, error) {
	conn, err := net.Dial("unix", socket)
	if err != nil {
		return nil, err
	}
	return Attach(conn, name, idx, h)
}

// Attach sets the peer up on an existing connection.
func Attach(conn net.Conn, name, idx string, h *Handlers) (*Plugin, error) {
	p := &Plugin{Name: name, Idx: idx, H: h, ClosedC: make(chan struct{})}
	p.Cut = NewCutter(conn)
	p.Mux = multiplex.Multiplex(p.Cut)
	l, err := p.Mux.Listen(multiplex.PluginServiceConn)
	if err != nil {
		return nil, err
	}
	srv, err := ttrpc.NewServer()
	if err != nil {
		return nil, err
	}
	api.RegisterPluginService(srv, p)
	p.srv = srv
	rc, err := p.Mux.Open(multiplex.RuntimeServiceConn)
	if err != nil {
		return nil, err
	}
	p.clt = ttrpc.NewClient(rc, ttrpc.WithOnClose(func() {
		p.closeOnce.Do(func() { close(p.ClosedC) })
	}))
	p.Runtime = api.NewRuntimeClient(p.clt)
	go srv.Serve(context.Background(), l)
	return p, nil
}

// Register sends RegisterPlugin with the peer's (possibly malformed) identity.
func (p *Plugin) Register(timeout time.Duration) error {
	ctx, cancel := context.WithTimeout(context.Background(), timeout)
	defer cancel()
	_, err := p.Runtime.RegisterPlugin(ctx, &api.RegisterPluginRequest{PluginName: p.Name, PluginIdx: p.Idx})
	return err
}

// UpdateContainers issues an unsolicited update.
func (p *Plugin) UpdateContainers(us []*api.ContainerUpdate, timeout time.Duration) ([]*api.ContainerUpdate, error) {
	ctx, cancel := context.WithTimeout(context.Background(), timeout)
	defer cancel()
	r, err := p.Runtime.UpdateContainers(ctx, &api.UpdateContainersRequest{Update: us})
	if r != nil {
		return r.Failed, err
	}
	return nil, err
}

// Close tears the peer down.
func (p *Plugin) Close() {
	p.Cut.Close()
	if p.clt != nil {
		p.clt.Close()
	}
	if p.srv != nil {
		p.srv.Close()
	}
	p.Mux.Close()
}

// WriteGarbage writes bytes that are no valid ttRPC message on the plugin-service connection.
func (p *Plugin) WriteGarbage() error {
	c, err := p.Mux.Open(multiplex.PluginServiceConn)
	if err != nil {
		return err
	}
	_, err = c.Write([]byte{0xff, 0xff, 0xff, 0xff, 0, 0, 0, 9, 9, 9, 1, 2, 3})
	return err
}

// WriteDataFrames writes, for every stream the runtime may have in flight, an empty ttrpc frame of type
// "data" on the plugin-service connection: a well-formed message that is no response.
func (p *Plugin) WriteDataFrames() error {
	c, err := p.Mux.Open(multiplex.PluginServiceConn)
	if err != nil {
		return err
	}
	for id := uint32(1); id < 200; id += 2 {
		hdr := []byte{0, 0, 0, 0, byte(id >> 24), byte(id >> 16), byte(id >> 8), byte(id), 3, 0}
		if _, err := c.Write(hdr); err != nil {
			return err
		}
	}
	return nil
}

// IsCut tells whether an armed cut has fired.
func (c *Cutter) IsCut() bool {
	c.mu.Lock()
	defer c.mu.Unlock()
	return c.cut
}

var ErrDeliberate = errors.New("verif: deliberate handler error")
