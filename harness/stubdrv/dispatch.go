package stubdrv

import (
	"bufio"
	"context"
	"encoding/json"
	"errors"
	"fmt"
	"net"
	"os"
	"strings"
	"sync"
	"time"

	"github.com/containerd/nri/pkg/api"
	"github.com/containerd/nri/pkg/stub"

	"verif/harness/rawpeer"
	"verif/harness/rec"
)

// DispEvents are the thirteen events in mask-bit order.
var DispEvents = []string{
	"RunPodSandbox", "StopPodSandbox", "RemovePodSandbox", "CreateContainer", "PostCreateContainer",
	"StartContainer", "PostStartContainer", "UpdateContainer", "PostUpdateContainer", "StopContainer",
	"RemoveContainer", "UpdatePodSandbox", "PostUpdatePodSandbox",
}

// Rec is shared by the mixins of one plugin instance: it records handler
// invocations and scripts their answers.
type Rec struct {
	mu      sync.Mutex
	Calls   []rec.Event
	ErrEv   string        // the handler of this event fails deliberately
	CfgMask api.EventMask // what Configure asks for
	CfgErr  bool
}

func (r *Rec) call(ev string, pod *api.PodSandbox, c *api.Container, extra ...any) error {
	e := rec.Event{"ev": "handler", "handler": ev, "pod": pod.GetId(), "ctr": c.GetId(), "podname": pod.GetName(), "ctrname": c.GetName()}
	for i := 0; i+1 < len(extra); i += 2 {
		e[extra[i].(string)] = extra[i+1]
	}
	r.mu.Lock()
	r.Calls = append(r.Calls, e)
	r.mu.Unlock()
	if r.ErrEv == ev {
		return errors.New("verif: handler error " + ev)
	}
	return nil
}

func resTag(r *api.LinuxResources) string {
	if r == nil || r.Cpu == nil || r.Cpu.Shares == nil {
		return ""
	}
	return fmt.Sprint(r.Cpu.Shares.Value)
}

// Mixins: one per handler interface of the stub.
type MConfigure struct{ R *Rec }

func (m MConfigure) Configure(_ context.Context, cfg, rt, ver string) (api.EventMask, error) {
	m.R.mu.Lock()
	m.R.Calls = append(m.R.Calls, rec.Event{"ev": "handler", "handler": "Configure", "pod": cfg, "ctr": rt + "/" + ver, "podname": "", "ctrname": ""})
	m.R.mu.Unlock()
	m.R.mu.Lock()
	defer m.R.mu.Unlock()
	if m.R.CfgErr {
		return 0, errors.New("verif: configure error")
	}
	return m.R.CfgMask, nil
}

type MRunPod struct{ R *Rec }

func (m MRunPod) RunPodSandbox(_ context.Context, p *api.PodSandbox) error {
	return m.R.call("RunPodSandbox", p, nil)
}

type MStopPod struct{ R *Rec }

func (m MStopPod) StopPodSandbox(_ context.Context, p *api.PodSandbox) error {
	return m.R.call("StopPodSandbox", p, nil)
}

type MRemovePod struct{ R *Rec }

func (m MRemovePod) RemovePodSandbox(_ context.Context, p *api.PodSandbox) error {
	return m.R.call("RemovePodSandbox", p, nil)
}

type MUpdatePod struct{ R *Rec }

func (m MUpdatePod) UpdatePodSandbox(_ context.Context, p *api.PodSandbox, over, res *api.LinuxResources) error {
	return m.R.call("UpdatePodSandbox", p, nil, "res", resTag(res), "over", resTag(over))
}

type MPostUpdatePod struct{ R *Rec }

func (m MPostUpdatePod) PostUpdatePodSandbox(_ context.Context, p *api.PodSandbox) error {
	return m.R.call("PostUpdatePodSandbox", p, nil)
}

type MCreate struct{ R *Rec }

func (m MCreate) CreateContainer(_ context.Context, p *api.PodSandbox, c *api.Container) (*api.ContainerAdjustment, []*api.ContainerUpdate, error) {
	if err := m.R.call("CreateContainer", p, c); err != nil {
		return nil, nil, err
	}
	a := &api.ContainerAdjustment{}
	a.AddAnnotation("handled", "CreateContainer/"+c.GetId())
	return a, handlerUpdates("CreateContainer", c), nil
}

type MPostCreate struct{ R *Rec }

func (m MPostCreate) PostCreateContainer(_ context.Context, p *api.PodSandbox, c *api.Container) error {
	return m.R.call("PostCreateContainer", p, c)
}

type MStart struct{ R *Rec }

func (m MStart) StartContainer(_ context.Context, p *api.PodSandbox, c *api.Container) error {
	return m.R.call("StartContainer", p, c)
}

type MPostStart struct{ R *Rec }

func (m MPostStart) PostStartContainer(_ context.Context, p *api.PodSandbox, c *api.Container) error {
	return m.R.call("PostStartContainer", p, c)
}

type MUpdate struct{ R *Rec }

func (m MUpdate) UpdateContainer(_ context.Context, p *api.PodSandbox, c *api.Container, r *api.LinuxResources) ([]*api.ContainerUpdate, error) {
	if err := m.R.call("UpdateContainer", p, c, "res", resTag(r)); err != nil {
		return nil, err
	}
	return handlerUpdates("UpdateContainer", c), nil
}

type MPostUpdate struct{ R *Rec }

func (m MPostUpdate) PostUpdateContainer(_ context.Context, p *api.PodSandbox, c *api.Container) error {
	return m.R.call("PostUpdateContainer", p, c)
}

type MStop struct{ R *Rec }

func (m MStop) StopContainer(_ context.Context, p *api.PodSandbox, c *api.Container) ([]*api.ContainerUpdate, error) {
	if err := m.R.call("StopContainer", p, c); err != nil {
		return nil, err
	}
	return handlerUpdates("StopContainer", c), nil
}

type MRemove struct{ R *Rec }

func (m MRemove) RemoveContainer(_ context.Context, p *api.PodSandbox, c *api.Container) error {
	return m.R.call("RemoveContainer", p, c)
}

// DispScenario: which handlers the plugin implements, how it configures, which handler fails.
type DispScenario struct {
	Impl   int    `json:"impl"`   // bit mask of implemented event handlers (bit i = DispEvents[i])
	HasCfg bool   `json:"hascfg"` // implements Configure
	Cfg    int    `json:"cfg"`    // mask returned by Configure
	CfgErr bool   `json:"cfgerr"`
	ErrEv  string `json:"errev"`
}

// Factory creates a plugin object with exactly the given handler set.
type Factory func(r *Rec) interface{}

func maskList(m int) []string {
	out := []string{}
	for i, n := range DispEvents {
		if m&(1<<uint(i)) != 0 {
			out = append(out, n)
		}
	}
	if m>>uint(len(DispEvents)) != 0 {
		out = append(out, fmt.Sprintf("foreign(0x%x)", m>>uint(len(DispEvents))<<uint(len(DispEvents))))
	}
	return out
}

// updIDs renders updates as "<target>[!][:<cpu shares>]" ("!" = ignore-failure).
func updIDs(us []*api.ContainerUpdate) []string {
	out := []string{}
	for _, u := range us {
		s := u.GetContainerId()
		if u.GetIgnoreFailure() {
			s += "!"
		}
		if sh := u.GetLinux().GetResources().GetCpu().GetShares(); sh != nil {
			s += fmt.Sprintf(":%d", sh.GetValue())
		}
		out = append(out, s)
	}
	return out
}

// handlerUpdates is what the update-returning handlers answer: an update of some other container and one -
// ignore-failure, with resources - of the very container the request is about.
func handlerUpdates(ev string, c *api.Container) []*api.ContainerUpdate {
	own := &api.ContainerUpdate{ContainerId: c.GetId(), IgnoreFailure: true}
	own.SetLinuxCPUShares(77)
	return []*api.ContainerUpdate{{ContainerId: "upd-of-" + ev}, own}
}

func errStr(err error) string {
	if err == nil {
		return ""
	}
	s := err.Error()
	if i := strings.Index(s, "verif:"); i >= 0 {
		return s[i:]
	}
	return s
}

func dispOne(scn int, sc DispScenario, factories map[string]Factory, w *rec.Writer) error {
	key := fmt.Sprintf("%d/%v", sc.Impl, sc.HasCfg)
	f, ok := factories[key]
	if !ok {
		return fmt.Errorf("no generated plugin type for %s", key)
	}
	evs := []rec.Event{{"ev": "Begin", "scn": scn, "impl": maskList(sc.Impl), "hascfg": sc.HasCfg, "cfg": maskList(sc.Cfg),
		"cfgerr": sc.CfgErr, "errev": sc.ErrEv}}
	add := func(e rec.Event) { e["scn"] = scn; evs = append(evs, e) }
	r := &Rec{ErrEv: sc.ErrEv, CfgMask: api.EventMask(sc.Cfg), CfgErr: sc.CfgErr}
	var rt *rawpeer.Runtime
	var rmu sync.Mutex
	dial := func(string) (net.Conn, error) {
		a, b := net.Pipe()
		x, err := rawpeer.AttachRuntime(b, nil)
		if err != nil {
			return nil, err
		}
		rmu.Lock()
		rt = x
		rmu.Unlock()
		return a, nil
	}
	st, err := stub.New(f(r), stub.WithPluginName("disp"), stub.WithPluginIdx("10"), stub.WithDialer(dial), stub.WithOnClose(func() {}))
	if err != nil {
		// a plugin without any event handler is refused at creation
		add(rec.Event{"ev": "new", "err": err.Error()})
		add(rec.Event{"ev": "End"})
		return w.WriteScenario(evs)
	}
	add(rec.Event{"ev": "new", "err": ""})
	startC := make(chan error, 1)
	go func() { startC <- st.Start(context.Background()) }()
	// wait for the dial
	for t0 := time.Now(); time.Since(t0) < 2*time.Second; time.Sleep(50 * time.Microsecond) {
		rmu.Lock()
		ok := rt != nil
		rmu.Unlock()
		if ok {
			break
		}
	}
	if rt == nil {
		return errors.New("stub did not dial")
	}
	defer rt.Close()
	if err := rt.WaitRegistered(2 * time.Second); err != nil {
		return err
	}
	ctx, cancel := context.WithTimeout(context.Background(), 3*time.Second)
	defer cancel()
	crpl, cerr := rt.Plugin.Configure(ctx, &api.ConfigureRequest{Config: "the-config", RuntimeName: "rt", RuntimeVersion: "v9",
		RegistrationTimeout: 2000, RequestTimeout: 2000})
	got := 0
	if crpl != nil {
		got = int(crpl.Events)
	}
	add(rec.Event{"ev": "configured", "events": maskList(got), "err": errStr(cerr)})
	serr := <-startC
	add(rec.Event{"ev": "started", "err": serr != nil})
	if cerr == nil && serr == nil {
		if _, err := rt.Plugin.Synchronize(ctx, &api.SynchronizeRequest{}); err != nil {
			add(rec.Event{"ev": "syncerr", "err": errStr(err)})
		}
		sh := func(v uint64) *api.LinuxResources {
			return &api.LinuxResources{Cpu: &api.LinuxCPU{Shares: &api.OptionalUInt64{Value: v}}}
		}
		for i, ev := range DispEvents {
			pod := &api.PodSandbox{Id: "pod-" + ev, Name: fmt.Sprintf("pn%d", i)}
			ctr := &api.Container{Id: "ctr-" + ev, Name: fmt.Sprintf("cn%d", i), PodSandboxId: pod.Id}
			reply := rec.Event{"ev": "reply", "event": ev, "err": "", "adjust": "", "updates": []string{}}
			var err error
			switch ev {
			case "CreateContainer":
				var rpl *api.CreateContainerResponse
				rpl, err = rt.Plugin.CreateContainer(ctx, &api.CreateContainerRequest{Pod: pod, Container: ctr})
				if err == nil {
					reply["adjust"] = rpl.GetAdjust().GetAnnotations()["handled"]
					reply["updates"] = updIDs(rpl.GetUpdate())
				}
			case "UpdateContainer":
				var rpl *api.UpdateContainerResponse
				rpl, err = rt.Plugin.UpdateContainer(ctx, &api.UpdateContainerRequest{Pod: pod, Container: ctr, LinuxResources: sh(uint64(100 + i))})
				if err == nil {
					reply["updates"] = updIDs(rpl.GetUpdate())
				}
			case "StopContainer":
				var rpl *api.StopContainerResponse
				rpl, err = rt.Plugin.StopContainer(ctx, &api.StopContainerRequest{Pod: pod, Container: ctr})
				if err == nil {
					reply["updates"] = updIDs(rpl.GetUpdate())
				}
			case "UpdatePodSandbox":
				_, err = rt.Plugin.UpdatePodSandbox(ctx, &api.UpdatePodSandboxRequest{Pod: pod, OverheadLinuxResources: sh(uint64(200 + i)), LinuxResources: sh(uint64(100 + i))})
			default:
				var e api.Event
				switch ev {
				case "RunPodSandbox":
					e = api.Event_RUN_POD_SANDBOX
				case "StopPodSandbox":
					e = api.Event_STOP_POD_SANDBOX
				case "RemovePodSandbox":
					e = api.Event_REMOVE_POD_SANDBOX
				case "PostUpdatePodSandbox":
					e = api.Event_POST_UPDATE_POD_SANDBOX
				case "PostCreateContainer":
					e = api.Event_POST_CREATE_CONTAINER
				case "StartContainer":
					e = api.Event_START_CONTAINER
				case "PostStartContainer":
					e = api.Event_POST_START_CONTAINER
				case "PostUpdateContainer":
					e = api.Event_POST_UPDATE_CONTAINER
				case "RemoveContainer":
					e = api.Event_REMOVE_CONTAINER
				}
				sce := &api.StateChangeEvent{Event: e, Pod: pod}
				if strings.Contains(ev, "Container") {
					sce.Container = ctr
				}
				_, err = rt.Plugin.StateChange(ctx, sce)
			}
			reply["err"] = errStr(err)
			reply["i"] = i
			// handler calls made for this message
			r.mu.Lock()
			calls := r.Calls
			r.Calls = nil
			r.mu.Unlock()
			for _, c := range calls {
				if c["handler"] == "Configure" {
					continue
				}
				c["for"] = ev
				c["i"] = i
				add(c)
			}
			add(reply)
		}
	}
	st.Stop()
	// a second session of the same stub, asking for the default subscription: what it is subscribed to depends
	// on the handlers it implements and on this session's answer only, not on what an earlier session asked for
	if cerr == nil && serr == nil && sc.HasCfg {
		rmu.Lock()
		rt = nil
		rmu.Unlock()
		r.mu.Lock()
		r.CfgMask = 0
		r.mu.Unlock()
		go func() { startC <- st.Start(context.Background()) }()
		var rt2 *rawpeer.Runtime
		for t0 := time.Now(); time.Since(t0) < 2*time.Second; time.Sleep(50 * time.Microsecond) {
			rmu.Lock()
			rt2 = rt
			rmu.Unlock()
			if rt2 != nil {
				break
			}
		}
		if rt2 == nil {
			add(rec.Event{"ev": "restarted", "events": []string{}, "err": "the stub did not dial again"})
		} else {
			defer rt2.Close()
			e2 := ""
			got2 := 0
			if err := rt2.WaitRegistered(2 * time.Second); err != nil {
				e2 = "registration: " + err.Error()
			} else {
				ctx2, cancel2 := context.WithTimeout(context.Background(), 3*time.Second)
				rpl2, err2 := rt2.Plugin.Configure(ctx2, &api.ConfigureRequest{Config: "the-config", RuntimeName: "rt", RuntimeVersion: "v9",
					RegistrationTimeout: 2000, RequestTimeout: 2000})
				cancel2()
				if rpl2 != nil {
					got2 = int(rpl2.Events)
				}
				e2 = errStr(err2)
				select {
				case e := <-startC:
					if e != nil && e2 == "" {
						e2 = "start: " + e.Error()
					}
				case <-time.After(3 * time.Second):
					if e2 == "" {
						e2 = "start did not return"
					}
				}
			}
			add(rec.Event{"ev": "restarted", "events": maskList(got2), "err": e2})
			st.Stop()
		}
	}
	add(rec.Event{"ev": "End"})
	return w.WriteScenario(evs)
}

// RunDispatch replays dispatch scenarios with the generated plugin types.
func RunDispatch(factories map[string]Factory, in, out string) error {
	f, err := os.Open(in)
	if err != nil {
		return err
	}
	defer f.Close()
	w, err := rec.NewWriter(out)
	if err != nil {
		return err
	}
	defer w.Close()
	sc := bufio.NewScanner(f)
	sc.Buffer(make([]byte, 1<<20), 1<<24)
	n := 0
	for sc.Scan() {
		line := strings.TrimSpace(sc.Text())
		if line == "" {
			continue
		}
		n++
		var s DispScenario
		if err := json.Unmarshal([]byte(line), &s); err != nil {
			return err
		}
		if err := dispOne(n, s, factories, w); err != nil {
			return fmt.Errorf("scenario %d: %w", n, err)
		}
	}
	return sc.Err()
}
