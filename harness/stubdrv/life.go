// Package stubdrv drives a real plugin stub against a scripted runtime end
// (mux + ttRPC over net.Pipe handed out by stub.WithDialer): life-cycle
// sequences with faults (C16) and event dispatch (C15).
package stubdrv

import (
	"bufio"
	"context"
	"encoding/json"
	"errors"
	"fmt"
	"net"
	"os"
	"strings"
	"sync"
	"time"

	"github.com/containerd/nri/pkg/api"
	"github.com/containerd/nri/pkg/stub"
	"github.com/containerd/nri/pkg/vhook"

	"verif/harness/rawpeer"
	"verif/harness/rec"
)

// LifeScenario is a sequence of operations on one stub.
type LifeScenario struct {
	Ops  []LifeOp `json:"ops"`
	Gate bool     `json:"gate"` // hold back close notifications until ReleaseNotify
}

// LifeOp: Start(behaviour) | Stop | Wait | PeerDrop | ReleaseNotify | Works
type LifeOp struct {
	Op  string `json:"op"`
	Arg string `json:"arg"`
	K   int    `json:"k"`
}

type lifePlugin struct {
	mu    sync.Mutex
	calls int
	mode  string        // how Configure behaves in the coming session: "" | "error" | "block"
	hold  chan struct{} // "block": Configure returns when this is closed
}

func (p *lifePlugin) Configure(context.Context, string, string, string) (api.EventMask, error) {
	p.mu.Lock()
	mode, hold := p.mode, p.hold
	p.mu.Unlock()
	switch mode {
	case "error":
		return 0, errors.New("verif: configuration rejected")
	case "badmask":
		// asks for an event it has no handler for: the stub refuses, and Start returns that error
		return api.MustParseEventMask("RunPodSandbox,StopContainer"), nil
	case "block":
		<-hold
	}
	return 0, nil
}
func (p *lifePlugin) Synchronize(context.Context, []*api.PodSandbox, []*api.Container) ([]*api.ContainerUpdate, error) {
	return nil, nil
}
func (p *lifePlugin) RunPodSandbox(_ context.Context, pod *api.PodSandbox) error {
	p.mu.Lock()
	p.calls++
	p.mu.Unlock()
	return nil
}

const lifeWatchdog = 2 * time.Second

type lifeRun struct {
	scn    int
	log    *rec.Buf
	mu     sync.Mutex
	peers  []*rawpeer.Runtime // one per dial
	behs   []string
	next   string // behaviour of the next dial
	nextK  int
	gate   bool
	gateC  chan struct{}
	closes int
	held   int
}

func (r *lifeRun) ev(name string, kv ...any) {
	e := rec.Event{"ev": name, "scn": r.scn}
	for i := 0; i+1 < len(kv); i += 2 {
		e[kv[i].(string)] = kv[i+1]
	}
	r.log.Add(e)
}

// full handshake of a healthy runtime end
func handshake(rt *rawpeer.Runtime, upto string) error {
	if err := rt.WaitRegistered(2 * time.Second); err != nil {
		return err
	}
	if upto == "register" {
		return nil
	}
	ctx, cancel := context.WithTimeout(context.Background(), 2*time.Second)
	defer cancel()
	if _, err := rt.Plugin.Configure(ctx, &api.ConfigureRequest{RuntimeName: "verif", RuntimeVersion: "1",
		RegistrationTimeout: 2000, RequestTimeout: 2000}); err != nil {
		return err
	}
	if upto == "configure" {
		return nil
	}
	_, err := rt.Plugin.Synchronize(ctx, &api.SynchronizeRequest{})
	return err
}

func (r *lifeRun) dial(string) (net.Conn, error) {
	r.mu.Lock()
	beh, k := r.next, r.nextK
	n := len(r.peers) + 1
	r.mu.Unlock()
	r.ev("dial", "n", n, "beh", beh)
	if beh == "unreachable" {
		r.mu.Lock()
		r.peers = append(r.peers, nil)
		r.behs = append(r.behs, beh)
		r.mu.Unlock()
		return nil, errors.New("verif: runtime unreachable")
	}
	a, b := net.Pipe()
	var onReg func(*api.RegisterPluginRequest) error
	var rt *rawpeer.Runtime
	switch beh {
	case "refuse":
		onReg = func(*api.RegisterPluginRequest) error { return errors.New("verif: registration refused") }
	case "drop-register":
		onReg = func(*api.RegisterPluginRequest) error { rt.Cut.Close(); return nil }
	}
	rt, err := rawpeer.AttachRuntime(b, onReg)
	if err != nil {
		return nil, err
	}
	r.mu.Lock()
	r.peers = append(r.peers, rt)
	r.behs = append(r.behs, beh)
	r.mu.Unlock()
	switch beh {
	case "drop-connect":
		rt.Close()
	case "drop-after-register":
		go func() {
			if rt.WaitRegistered(2*time.Second) == nil {
				time.Sleep(500 * time.Microsecond)
				rt.Close()
			}
		}()
	case "cut-read":
		rt.Cut.CutAfterRead(int64(k))
		go handshake(rt, "")
	case "cut-write":
		rt.Cut.CutAfterWrite(int64(k))
		go handshake(rt, "")
	case "healthy", "configure-rejected", "configure-badmask":
		go handshake(rt, "")
	case "slow-configure":
		// the runtime takes its time before it configures the plugin: Start must not return before
		go func() {
			if rt.WaitRegistered(2*time.Second) != nil {
				return
			}
			time.Sleep(150 * time.Millisecond)
			r.ev("configure.sent")
			ctx, cancel := context.WithTimeout(context.Background(), 2*time.Second)
			defer cancel()
			if _, err := rt.Plugin.Configure(ctx, &api.ConfigureRequest{RuntimeName: "verif", RuntimeVersion: "1",
				RegistrationTimeout: 2000, RequestTimeout: 2000}); err == nil {
				rt.Plugin.Synchronize(ctx, &api.SynchronizeRequest{})
			}
		}()
	case "drop-in-configure":
		// the connection goes away while the plugin's Configure handler is still running
		go func() {
			if rt.WaitRegistered(2*time.Second) != nil {
				return
			}
			go func() {
				ctx, cancel := context.WithTimeout(context.Background(), 2*time.Second)
				defer cancel()
				rt.Plugin.Configure(ctx, &api.ConfigureRequest{RuntimeName: "verif", RuntimeVersion: "1",
					RegistrationTimeout: 2000, RequestTimeout: 2000})
			}()
			time.Sleep(20 * time.Millisecond)
			rt.Close()
		}()
	}
	return a, nil
}

func (r *lifeRun) timed(f func() error) (string, int, string) {
	ch := make(chan error, 1)
	t0 := time.Now()
	go func() { ch <- f() }()
	select {
	case err := <-ch:
		ms := int(time.Since(t0).Milliseconds())
		if err != nil {
			return "error", ms, err.Error()
		}
		return "ok", ms, ""
	case <-time.After(lifeWatchdog):
		return "hung", int(lifeWatchdog.Milliseconds()), ""
	}
}

func (r *lifeRun) exec(sc LifeScenario, w *rec.Writer) error {
	r.log = &rec.Buf{}
	r.peers, r.behs, r.closes, r.held = nil, nil, 0, 0
	r.gate = sc.Gate
	r.gateC = make(chan struct{}, 64)
	r.ev("Begin", "gate", sc.Gate, "nops", len(sc.Ops))
	p := &lifePlugin{}
	st, err := stub.New(p, stub.WithPluginName("life"), stub.WithPluginIdx("10"), stub.WithDialer(r.dial),
		stub.WithOnClose(func() {
			r.mu.Lock()
			r.closes++
			r.ev("onclose", "n", r.closes) // logged before anybody can observe the new count
			r.mu.Unlock()
		}))
	if err != nil {
		return err
	}
	vhook.Set(func(point string, args ...interface{}) {
		if point == "stub.connclosed" && r.gate {
			r.mu.Lock()
			r.ev("notify.held")
			r.held++
			r.mu.Unlock()
			<-r.gateC
			r.ev("notify.released")
		}
	})
	defer vhook.Set(nil)
	aborted := false
	for i, op := range sc.Ops {
		if aborted {
			break
		}
		switch op.Op {
		case "Start":
			r.mu.Lock()
			r.next, r.nextK = op.Arg, op.K
			r.mu.Unlock()
			p.mu.Lock()
			p.mode, p.hold = "", nil
			switch op.Arg {
			case "configure-rejected":
				p.mode = "error"
			case "configure-badmask":
				p.mode = "badmask"
			case "drop-in-configure":
				p.mode, p.hold = "block", make(chan struct{})
			}
			hold := p.hold
			p.mu.Unlock()
			r.ev("op", "i", i, "op", "Start", "arg", op.Arg, "k", op.K)
			cls, ms, txt := r.timed(func() error { return st.Start(context.Background()) })
			r.ev("res", "i", i, "op", "Start", "class", cls, "ms", ms, "errtext", txt)
			if hold != nil {
				// the handler of the lost session finishes only now: its result belongs to nobody
				close(hold)
				time.Sleep(5 * time.Millisecond)
			}
			if cls == "hung" {
				aborted = true // Start holds the stub's lock: nothing else can be done with this stub
			}
		case "Stop":
			r.ev("op", "i", i, "op", "Stop", "arg", "", "k", 0)
			cls, ms, _ := r.timed(func() error { st.Stop(); return nil })
			r.ev("res", "i", i, "op", "Stop", "class", cls, "ms", ms, "errtext", "")
			if cls == "hung" {
				aborted = true
			}
		case "Wait":
			r.ev("op", "i", i, "op", "Wait", "arg", "", "k", 0)
			cls, ms, _ := r.timed(func() error { st.Wait(); return nil })
			r.ev("res", "i", i, "op", "Wait", "class", cls, "ms", ms, "errtext", "")
		case "PeerDrop":
			r.ev("op", "i", i, "op", "PeerDrop", "arg", "", "k", 0)
			r.mu.Lock()
			var rt *rawpeer.Runtime
			if len(r.peers) > 0 {
				rt = r.peers[len(r.peers)-1]
			}
			r.mu.Unlock()
			r.mu.Lock()
			before, heldBefore := r.closes, r.held
			r.mu.Unlock()
			if rt != nil {
				rt.Close()
			}
			// the stub notices asynchronously: wait until the notification was delivered, or is held at the gate
			for t0 := time.Now(); time.Since(t0) < time.Second; time.Sleep(100 * time.Microsecond) {
				r.mu.Lock()
				done := r.closes > before || r.held > heldBefore
				r.mu.Unlock()
				if done {
					break
				}
			}
			r.ev("res", "i", i, "op", "PeerDrop", "class", "ok", "ms", 0, "errtext", "")
		case "ReleaseNotify":
			r.ev("op", "i", i, "op", "ReleaseNotify", "arg", "", "k", 0)
			r.mu.Lock()
			before := r.closes
			r.mu.Unlock()
			select {
			case r.gateC <- struct{}{}:
			default:
			}
			for t0 := time.Now(); time.Since(t0) < time.Second; time.Sleep(100 * time.Microsecond) {
				r.mu.Lock()
				done := r.closes > before
				r.mu.Unlock()
				if done {
					break
				}
			}
			r.ev("res", "i", i, "op", "ReleaseNotify", "class", "ok", "ms", 0, "errtext", "")
		case "Works":
			// a round trip to the current session: an event must reach the plugin's handler
			r.mu.Lock()
			var rt *rawpeer.Runtime
			if len(r.peers) > 0 {
				rt = r.peers[len(r.peers)-1]
			}
			r.mu.Unlock()
			ok := false
			if rt != nil {
				p.mu.Lock()
				before := p.calls
				p.mu.Unlock()
				ctx, cancel := context.WithTimeout(context.Background(), time.Second)
				_, err := rt.Plugin.StateChange(ctx, &api.StateChangeEvent{Event: api.Event_RUN_POD_SANDBOX, Pod: &api.PodSandbox{Id: "works"}})
				cancel()
				p.mu.Lock()
				ok = err == nil && p.calls == before+1
				p.mu.Unlock()
			}
			r.ev("works", "i", i, "ok", ok)
		}
	}
	// let outstanding notifications through and settle
	if !aborted {
		for i := 0; i < 8; i++ {
			select {
			case r.gateC <- struct{}{}:
			default:
			}
		}
		r.gate = false
		cls, _, _ := r.timed(func() error { st.Stop(); return nil })
		if cls == "hung" {
			aborted = true
		}
		time.Sleep(5 * time.Millisecond)
	}
	r.mu.Lock()
	n := r.closes
	for _, rt := range r.peers {
		if rt != nil {
			rt.Close()
		}
	}
	r.mu.Unlock()
	r.ev("End", "closes", n, "aborted", aborted)
	vhook.Set(nil)
	return w.WriteScenario(r.log.Events())
}

// RunLife executes life-cycle scenarios.
func RunLife(in, out string, skip int) (int, error) {
	f, err := os.Open(in)
	if err != nil {
		return 0, err
	}
	defer f.Close()
	w, err := rec.NewWriter(out)
	if err != nil {
		return 0, err
	}
	defer w.Close()
	w.Sync = true
	sc := bufio.NewScanner(f)
	sc.Buffer(make([]byte, 1<<20), 1<<24)
	r := &lifeRun{}
	for sc.Scan() {
		line := strings.TrimSpace(sc.Text())
		if line == "" {
			continue
		}
		r.scn++
		if r.scn <= skip {
			continue
		}
		var s LifeScenario
		if err := json.Unmarshal([]byte(line), &s); err != nil {
			return 0, err
		}
		if err := r.exec(s, w); err != nil {
			return 0, fmt.Errorf("scenario %d: %w", r.scn, err)
		}
	}
	return w.Lines(), sc.Err()
}
