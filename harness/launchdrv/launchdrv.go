// Package launchdrv materialises plugin-directory scenarios with copies of the
// probe plugin, starts a real Adaptation on them and records how each plugin
// was launched, configured, invoked and reaped (C18).
package launchdrv

import (
	"bufio"
	"context"
	"encoding/json"
	"errors"
	"fmt"
	"io"
	"os"
	"path/filepath"
	"sort"
	"strings"
	"time"

	"github.com/containerd/nri/pkg/adaptation"
	"github.com/containerd/nri/pkg/api"

	"verif/harness/rec"
)

type Entry struct {
	Name      string `json:"name"`
	Kind      string `json:"kind"`      // exec* | noexec | dir | garbage | symdir
	Behaviour string `json:"behaviour"` // healthy | exit | noregister | dielater
}

type DropIn struct {
	File    string `json:"file"`
	Content string `json:"content"`
}

type Scenario struct {
	Entries   []Entry  `json:"entries"`
	DropIns   []DropIn `json:"dropins"`
	Stale     bool     `json:"stale"`     // the runtime's own environment carries NRI_PLUGIN_* variables
	SyncFails bool     `json:"syncfails"` // the runtime's synchronization callback fails
}

const regTimeout = 400 * time.Millisecond

func copyFile(src, dst string, mode os.FileMode) error {
	in, err := os.Open(src)
	if err != nil {
		return err
	}
	defer in.Close()
	out, err := os.OpenFile(dst, os.O_CREATE|os.O_WRONLY|os.O_TRUNC, mode)
	if err != nil {
		return err
	}
	if _, err := io.Copy(out, in); err != nil {
		out.Close()
		return err
	}
	return out.Close()
}

func procState(pid int) string {
	b, err := os.ReadFile(fmt.Sprintf("/proc/%d/stat", pid))
	if err != nil {
		return "gone"
	}
	s := string(b)
	i := strings.LastIndex(s, ")")
	if i < 0 || i+2 >= len(s) {
		return "?"
	}
	return s[i+2 : i+3]
}

type probeReport struct {
	Name   string            `json:"name"`
	Pid    int               `json:"pid"`
	Env    []string          `json:"env"`
	Fds    map[string]string `json:"fds"`
	Config string            `json:"config"`
	Cfgd   bool              `json:"configured"`
}

func fdClass(t string) string {
	switch {
	case strings.HasPrefix(t, "socket:"):
		return "socket"
	case strings.HasPrefix(t, "anon_inode:"):
		return "anon"
	case strings.HasPrefix(t, "pipe:"):
		return "pipe"
	case t == "/dev/null":
		return "null"
	case strings.HasPrefix(t, "/"):
		return "file"
	}
	return "other"
}

func one(scn int, sc Scenario, probe string, w *rec.Writer) error {
	evs := []rec.Event{}
	add := func(name string, kv ...any) {
		e := rec.Event{"ev": name, "scn": scn}
		for i := 0; i+1 < len(kv); i += 2 {
			e[kv[i].(string)] = kv[i+1]
		}
		evs = append(evs, e)
	}
	root, err := os.MkdirTemp("", "vlaunch")
	if err != nil {
		return err
	}
	defer os.RemoveAll(root)
	pdir, cdir, ctl, reports := filepath.Join(root, "plugins"), filepath.Join(root, "conf.d"), filepath.Join(root, "ctl"), filepath.Join(root, "reports")
	for _, d := range []string{pdir, cdir, ctl, reports} {
		os.MkdirAll(d, 0o755)
	}
	for _, e := range sc.Entries {
		switch e.Kind {
		case "exec", "execu", "execg", "execo":
			mode := map[string]os.FileMode{"exec": 0o755, "execu": 0o744, "execg": 0o654, "execo": 0o645}[e.Kind]
			if err := copyFile(probe, filepath.Join(pdir, e.Name), mode); err != nil {
				return err
			}
			b, _ := json.Marshal(map[string]string{"behaviour": e.Behaviour, "reports": reports})
			os.WriteFile(filepath.Join(ctl, e.Name+".json"), b, 0o644)
		case "noexec":
			if err := copyFile(probe, filepath.Join(pdir, e.Name), 0o644); err != nil {
				return err
			}
		case "dir":
			os.MkdirAll(filepath.Join(pdir, e.Name), 0o755)
		case "garbage": // executable by mode, not a program: starting it fails
			os.WriteFile(filepath.Join(pdir, e.Name), []byte("this is not a program\n"), 0o755)
			os.Chmod(filepath.Join(pdir, e.Name), 0o755)
		case "symdir": // a symbolic link (mode 0777) to a directory: starting it fails
			os.MkdirAll(filepath.Join(root, "target-of-"+e.Name), 0o755)
			os.Symlink(filepath.Join(root, "target-of-"+e.Name), filepath.Join(pdir, e.Name))
		}
	}
	for _, d := range sc.DropIns {
		os.WriteFile(filepath.Join(cdir, d.File), []byte(d.Content), 0o644)
	}
	add("Begin", "entries", sc.Entries, "dropins", sc.DropIns, "syncfails", sc.SyncFails)
	// the runtime deliberately holds other open files and a listening socket while launching
	extra, _ := os.CreateTemp(root, "runtime-open-file")
	defer extra.Close()
	ad, err := adaptation.New("verif", "1", func(ctx context.Context, cb adaptation.SyncCB) error {
		_, e := cb(ctx, nil, nil)
		if sc.SyncFails {
			return errors.New("verif: the runtime cannot synchronize")
		}
		return e
	}, func(context.Context, []*api.ContainerUpdate) ([]*api.ContainerUpdate, error) { return nil, nil },
		adaptation.WithPluginPath(pdir), adaptation.WithPluginConfigPath(cdir),
		adaptation.WithSocketPath(filepath.Join(root, "nri.sock")))
	if err != nil {
		return err
	}
	if sc.Stale {
		for k, v := range map[string]string{api.PluginNameEnvVar: "leftover", api.PluginIdxEnvVar: "99", api.PluginSocketEnvVar: "7"} {
			os.Setenv(k, v)
			defer os.Unsetenv(k)
		}
	}
	t0 := time.Now()
	serr := func() (err error) {
		defer func() {
			if p := recover(); p != nil {
				err = fmt.Errorf("panic: %v", p)
			}
		}()
		return ad.Start()
	}()
	add("started", "err", serr != nil, "errtext", fmt.Sprint(serr), "ms", int(time.Since(t0).Milliseconds()))
	lingers := false
	for _, e := range sc.Entries {
		lingers = lingers || e.Behaviour == "linger"
	}
	if lingers {
		// a plugin that closes its connection and stays: no request is issued (nothing prunes it), the runtime just stops
		time.Sleep(400 * time.Millisecond)
	}
	if serr == nil && !lingers {
		// one event for everybody, three times: a plugin that dies later dies after the first, is dropped
		// during the second, and the third shows the order of the remaining ones
		for i := 1; i <= 3; i++ {
			e := ad.RunPodSandbox(context.Background(), &api.StateChangeEvent{Pod: &api.PodSandbox{Id: fmt.Sprintf("ev%d", i)}})
			add("event", "i", i, "err", e != nil)
			time.Sleep(10 * time.Millisecond)
		}
	}
	// what the probes reported
	reps := map[string][]probeReport{}
	if ents, err := os.ReadDir(reports); err == nil {
		for _, f := range ents {
			if !strings.HasSuffix(f.Name(), ".json") {
				continue
			}
			var r probeReport
			if b, err := os.ReadFile(filepath.Join(reports, f.Name())); err == nil && json.Unmarshal(b, &r) == nil {
				reps[r.Name] = append(reps[r.Name], r)
			}
		}
	}
	pids := map[string]int{}
	for _, e := range sc.Entries {
		rs := reps[e.Name]
		ev := rec.Event{"ev": "report", "scn": scn, "name": e.Name, "count": len(rs), "env": []string{}, "fd3": "", "leaks": []string{},
			"config": "", "configured": false}
		if len(rs) > 0 {
			r := rs[0]
			pids[e.Name] = r.Pid
			ev["env"] = r.Env
			ev["config"], ev["configured"] = r.Config, r.Cfgd
			ev["fd3"] = fdClass(r.Fds["3"])
			leaks := []string{}
			for fd, t := range r.Fds {
				if fd == "0" || fd == "1" || fd == "2" || fd == "3" {
					continue
				}
				if c := fdClass(t); c == "socket" || c == "file" {
					leaks = append(leaks, fd+"="+c)
				}
			}
			sort.Strings(leaks)
			ev["leaks"] = leaks
		}
		evs = append(evs, ev)
	}
	order := []string{}
	if b, err := os.ReadFile(filepath.Join(reports, "order.log")); err == nil {
		for _, l := range strings.Split(strings.TrimSpace(string(b)), "\n") {
			if l != "" {
				order = append(order, l)
			}
		}
	}
	add("order", "lines", order)
	ad.Stop()
	time.Sleep(20 * time.Millisecond)
	for _, e := range sc.Entries {
		if pid, ok := pids[e.Name]; ok {
			// a dropped plugin is stopped by a goroutine of its own: on a loaded machine the kill may still be on its
			// way; a process that is never killed is still there after two seconds
			st := procState(pid)
			for dl := time.Now().Add(2 * time.Second); st != "gone" && st != "Z" && time.Now().Before(dl); st = procState(pid) {
				time.Sleep(20 * time.Millisecond)
			}
			add("after.stop", "name", e.Name, "state", st)
		}
	}
	add("End")
	// make sure nothing survives the scenario
	for _, pid := range pids {
		if p, err := os.FindProcess(pid); err == nil && procState(pid) != "gone" && procState(pid) != "Z" {
			p.Kill()
		}
	}
	return w.WriteScenario(evs)
}

// Run replays launch scenarios with copies of the probe binary.
func Run(in, out, probe string) error {
	f, err := os.Open(in)
	if err != nil {
		return err
	}
	defer f.Close()
	w, err := rec.NewWriter(out)
	if err != nil {
		return err
	}
	defer w.Close()
	adaptation.SetPluginRegistrationTimeout(regTimeout)
	adaptation.SetPluginRequestTimeout(600 * time.Millisecond)
	sc := bufio.NewScanner(f)
	sc.Buffer(make([]byte, 1<<20), 1<<24)
	n := 0
	for sc.Scan() {
		line := strings.TrimSpace(sc.Text())
		if line == "" {
			continue
		}
		n++
		var s Scenario
		if err := json.Unmarshal([]byte(line), &s); err != nil {
			return err
		}
		if err := one(n, s, probe, w); err != nil {
			return fmt.Errorf("scenario %d: %w", n, err)
		}
	}
	return sc.Err()
}
